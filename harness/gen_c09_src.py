#!/venv/bin/python
"""C09 source-translation tie: translate the CURRENT source text of the size-side and write-side helpers
    _preprocess_single  _len_preprocessed_single  _serialize_single  _len_single
of ${VERIF_REPO:-/repo}/src/betterproto/__init__.py into Gallina (coq/gen/C09Src.v), mechanically, with Python's `ast`.

The output is proved extensionally equal to the hand-written model (Model/Encode.v preprocess_with / serialize_with,
Model/Len.v len_preprocessed_with / len_single_with) in coq/Proofs/C09Src*.v; coq/Properties/C09Src.v states it and
restates C09_two_walks_agree at the helper level over the translated functions.

This script is an EXTENSION of harness/gen_c16_src.py, which it imports as a library and does not modify: the statement
/ expression translation, the typing discipline, the error monad, the if-join and the fail-closed behaviour are the ones
documented at the top of that file.  The varint primitives the four helpers call (encode_varint, size_varint) are NOT
re-emitted: coq/gen/C09Src.v imports coq/gen/C16Src.v (regenerated from the same source text on the same run); if the
C16 translation is rejected, this one is rejected too.

    gen_c09_src.py             translate and (re)write coq/gen/C09Src.v (only when the content changed)
    gen_c09_src.py --dry-run   translate, print the verdict, write nothing
    gen_c09_src.py --print     translate and print the Gallina text, write nothing
    gen_c09_src.py --selftest  constructs outside the subset must be rejected with the expected message (writes nothing)

A rejection is NOT a verdict about the property: harness/props/c09.py records "source-translation tie did not hold" and
the sampled correspondence + oracles decide.  Two parts are translated one after the other: "preprocess" (the two *_preprocess*
functions) and "single" (_serialize_single / _len_single, which call them).  A rejected part leaves NO definition in
coq/gen/C09Src.v, only `src_c09_<part>_translated := false`; an unreadable / unparsable source leaves a file that does not compile.

ADDITIONS TO THE ACCEPTED SUBSET  (target vocabulary: coq/Model/C09SrcLib.v + Model/Types.v tmem / ptype_eqb)
-----------------------------------------------------------------------------------------------------------------
Module level (checked, never executed):
  * `TYPE_X = "<one of the 18 proto type names>"`, bound exactly once            -> src_TYPE_X : ptype (the constructor is
    chosen by the STRING, not by the name)
  * `SOME_TYPES = [TYPE_A, TYPE_B, ...]` (list or tuple literal of TYPE_ names), bound exactly once, never the object of
    an attribute access (`.append` ...) or a subscript store anywhere in the module  -> src_SOME_TYPES : list ptype
  * `struct` bound by `import struct`; `_pack_fmt` defined exactly once (its table is reflected by gen_tables.py)
Parameters: annotated `int`, `bytes`, `bool`; `str` ONLY for a parameter named `proto_type` (-> ptype; DOMAIN ASSUMPTION:
  it ranges over the 18 type names) or `wraps` (-> option ptype: "" or a type name); `Any` (-> pv, the dynamic value).
  Keyword-only parameters with defaults are accepted when the default is the literal False (bool) or "" (wraps); the
  translated function takes every parameter explicitly (defaults only matter at call sites, which are not translated).
Statements:
  * a variable of type Any may be re-bound with a static type (`value = _preprocess_single(...)`): Gallina shadowing
  * `x = bytearray()`; `x += <bytes>` on it; `bytes(x)` of it (a local bytearray is the bytes appended so far; giving it a
    second name is rejected: aliasing of a mutable object is not modelled)
  * `raise E(<plain variable>)`: the argument is dropped like a message; NotImplementedError is accepted (-> EOther)
  * DELEGATED arm: in _preprocess_single / _len_preprocessed_single the arm `if/elif proto_type == TYPE_MESSAGE:` is not
    translated; its source must be IDENTICAL (ast.dump) to the text pinned below (PINNED_MESSAGE_ARM) and it becomes
    `delegated_preprocess_message msg v_wraps v_value` / `delegated_len_message msg ...` (hand-written, C09SrcLib.v);
    `msg` is a Section variable of the generated file: bytes(value) of the TYPE_MESSAGE arm, as in Model/Encode.v.
Expressions:
  * `x in (TYPE_A, ...)`, `x in SOME_TYPES`, `x == TYPE_A` / `x != TYPE_A` for x : ptype
  * calls of translated functions WITHOUT stream parameters inside expressions (`size + size_varint(..)`,
    `key + encode_varint(len(value)) + value`): hoisted into the error monad in evaluation order (left to right)
  * a dynamic (Any) variable in an int context - the argument of an int parameter of a translated function, possibly
    under int operators (`value << 1 if value >= 0 else ...`): coerced ONCE by py_int_arg before the expression
    (TypeError unless int / bool), and only when nothing else in that expression can raise
  * `struct.pack(_pack_fmt(<ptype>), <Any>)` as a whole -> py_struct_pack_fmt (the model's pack_value)
  * `<Any>.encode("utf-8")` -> py_str_encode_utf8; `len(<Any>)` -> py_len_any; `return <Any>` from a function annotated
    `-> bytes` -> py_bytes_ret
  * `and` / `or` over operands of ANY truthy type, but only directly as the test of an `if` / `while` (truth value only);
    truthiness of a `wraps` string
Everything else is REJECTED, naming the construct.
"""
import ast
import copy
import os
import sys

sys.path.insert(0, os.path.dirname(os.path.abspath(__file__)))
import gen_c16_src as g  # noqa: E402  (library: never modified)
from gen_c16_src import Reject, reject, mangle, wrap_binds, int_literal  # noqa: E402

REPO = os.environ.get("VERIF_REPO", "/repo")
SRC_REL = g.SRC_REL
OUT = os.path.join(os.path.dirname(os.path.abspath(__file__)), "..", "coq", "gen", "C09Src.v")

ROOTS = ["_preprocess_single", "_len_preprocessed_single", "_serialize_single", "_len_single"]
PROVIDED_BY_C16 = set(g.ROOTS)     # emitted into gen/C16Src.v by gen_c16_src.py from the same source text

# in-memory extension of the library's tables with NEW keys only (nothing existing is changed)
g.COQ_TYPE = dict(g.COQ_TYPE, ptype="ptype", wraps="option ptype", any="pv", bytearray="list byte")
g.BUILTIN_EXC = dict(g.BUILTIN_EXC, NotImplementedError="ENotImplemented")

PTYPE_OF_STRING = {
    "enum": "TEnum", "bool": "TBool", "int32": "TInt32", "int64": "TInt64", "uint32": "TUInt32", "uint64": "TUInt64",
    "sint32": "TSInt32", "sint64": "TSInt64", "float": "TFloat", "double": "TDouble", "fixed32": "TFixed32",
    "sfixed32": "TSFixed32", "fixed64": "TFixed64", "sfixed64": "TSFixed64", "string": "TString", "bytes": "TBytes",
    "message": "TMessage", "map": "TMap"}

VALUE_TYPES = ("int", "bytes", "bool", "exc", "ptype", "wraps", "any", "bytearray")

# the delegated arm of _preprocess_single / _len_preprocessed_single: test and body must be identical to these
PINNED_MESSAGE_ARM = {
    "_preprocess_single": '''
if proto_type == TYPE_MESSAGE:
    if isinstance(value, datetime):
        # Convert the `datetime` to a timestamp message.
        value = _Timestamp.from_datetime(value)
    elif isinstance(value, timedelta):
        # Convert the `timedelta` to a duration message.
        value = _Duration.from_timedelta(value)
    elif wraps:
        if value is None:
            return b""
        value = _get_wrapper(wraps)(value=value)

    return bytes(value)
''',
    "_len_preprocessed_single": '''
if proto_type == TYPE_MESSAGE:
    if isinstance(value, datetime):
        # Convert the `datetime` to a timestamp message.
        value = _Timestamp.from_datetime(value)
    elif isinstance(value, timedelta):
        # Convert the `timedelta` to a duration message.
        value = _Duration.from_timedelta(value)
    elif wraps:
        if value is None:
            return 0
        value = _get_wrapper(wraps)(value=value)

    return len(bytes(value))
''',
}
DELEGATED_TERM = {
    "_preprocess_single": ("delegated_preprocess_message msg {wraps} {value}", "bytes"),
    "_len_preprocessed_single": ("delegated_len_message msg {wraps} {value}", "int"),
}


def pinned_arm(fname):
    node = ast.parse(PINNED_MESSAGE_ARM[fname]).body[0]
    return ast.dump(node.test), [ast.dump(s) for s in node.body]


class Translator9(g.Translator):
    def index_module(self):
        super().index_module()
        # TYPE_X = "<name>" constants and lists of them
        self.type_consts = {}      # python name -> constructor
        self.type_lists = {}       # python name -> [python TYPE_ names]
        for node in self.tree.body:
            if isinstance(node, ast.Assign) and len(node.targets) == 1 and isinstance(node.targets[0], ast.Name):
                nm, v = node.targets[0].id, node.value
                if len(self.bound.get(nm, [])) != 1:
                    continue
                if nm.startswith("TYPE_") and isinstance(v, ast.Constant) and isinstance(v.value, str) and v.value in PTYPE_OF_STRING:
                    self.type_consts[nm] = PTYPE_OF_STRING[v.value]
                elif isinstance(v, (ast.List, ast.Tuple)) and v.elts and all(isinstance(x, ast.Name) for x in v.elts):
                    self.type_lists[nm] = [x.id for x in v.elts]
        # two names for the same constructor would make `==` on names differ from `==` on strings: cannot happen (the
        # constructor is chosen by the string), but two constants may share a string; that is fine for tmem / ptype_eqb.
        self.mutated = set()
        for sub in ast.walk(self.tree):
            if isinstance(sub, ast.Attribute) and isinstance(sub.value, ast.Name):
                self.mutated.add(sub.value.id)
            if isinstance(sub, ast.Subscript) and isinstance(sub.value, ast.Name) and isinstance(sub.ctx, (ast.Store, ast.Del)):
                self.mutated.add(sub.value.id)
            if isinstance(sub, ast.AugAssign) and isinstance(sub.target, ast.Name):
                self.mutated.add(sub.target.id)
        self.used_consts = []
        self.used_lists = []

    def type_const(self, node, name):
        if name not in self.type_consts:
            reject(node, f"`{name}` is not a module-level constant bound exactly once to one of the 18 proto type names")
        if name not in self.used_consts:
            self.used_consts.append(name)
        return "src_" + name

    def type_list(self, node, name):
        if name not in self.type_lists:
            reject(node, f"`{name}` is not a module-level list / tuple literal of TYPE_ names bound exactly once")
        if name in self.mutated:
            reject(node, f"the type list `{name}` is the object of an attribute access / subscript store / augmented assignment somewhere in the module")
        for x in self.type_lists[name]:
            self.type_const(node, x)
        if name not in self.used_lists:
            self.used_lists.append(name)
        return "src_" + name

    def require_import(self, node, name, kind):
        if name == "struct":
            if self.imports.get(name) != ("import", "struct", None) or len(self.bound.get(name, [])) != 1:
                reject(node, "name `struct` is not bound exactly once by the top-level `import struct`")
            return
        return super().require_import(node, name, kind)

    # parameters: also keyword-only ones with literal defaults; types by annotation AND (for str) by name
    def param_type9(self, arg):
        a = arg.annotation
        if a is None:
            reject(arg, f"parameter `{arg.arg}` has no annotation")
        txt = (a.value if isinstance(a, ast.Constant) and isinstance(a.value, str) else ast.unparse(a)).replace(" ", "")
        if txt == "str":
            if arg.arg == "proto_type":
                return "ptype"
            if arg.arg == "wraps":
                return "wraps"
            reject(arg, f"parameter annotation `str` of `{arg.arg}` (str is accepted only for `proto_type` and `wraps`)")
        if txt == "Any":
            if self.imports.get("Any") != ("from", "typing", "Any", 0) or len(self.bound.get("Any", [])) != 1:
                reject(arg, "name `Any` is not bound exactly once by `from typing import Any`")
            return "any"
        if txt == "bool":
            return "bool"
        return self.param_type(arg)

    def function(self, name, at):
        if name in self.done:
            return self.done[name]
        if name in self.in_progress:
            reject(at, f"recursive call of `{name}`")
        defs = self.funcs.get(name, [])
        if len(defs) != 1 or len(self.bound.get(name, [])) != 1:
            reject(at, f"function `{name}` is not defined exactly once at module level (or is re-bound)")
        fd = defs[0]
        if fd.decorator_list:
            reject(fd, f"decorated function `{name}`")
        a = fd.args
        if a.posonlyargs or a.vararg or a.kwarg or a.defaults:
            reject(fd, f"function `{name}` has non-plain parameters (positional defaults / * / ** / positional-only)")
        info = g.FuncInfo(name)
        info.params = [(x.arg, self.param_type9(x)) for x in a.args]
        info.kw_defaults = []
        for x, d in zip(a.kwonlyargs, a.kw_defaults):
            t = self.param_type9(x)
            if d is None:
                reject(x, f"keyword-only parameter `{x.arg}` without default")
            ok = (t == "bool" and isinstance(d, ast.Constant) and d.value is False) or \
                 (t == "wraps" and isinstance(d, ast.Constant) and d.value == "")
            if not ok:
                reject(x, f"default of the keyword-only parameter `{x.arg}` is not the literal False (bool) / \"\" (wraps)")
            info.params.append((x.arg, t))
            info.kw_defaults.append((x.arg, "false" if t == "bool" else "None"))
        if len({p for p, _ in info.params}) != len(info.params):
            reject(fd, "duplicate parameter names")
        info.streams = [p for p, t in info.params if t in ("wstream", "rstream")]
        self.in_progress.append(name)
        ft = FuncTranslator9(self, info, fd)
        ft.run()
        self.in_progress.pop()
        self.done[name] = info
        self.order.append(info)
        return info


class FuncTranslator9(g.FuncTranslator):
    # ------------------------------------------------------------------ typing
    def bind_var(self, node, env, name, t):
        if name in env and env[name] == "any" and t != "any":
            env = dict(env)
            del env[name]               # a dynamic variable re-bound with a static type (Gallina shadowing)
        return super().bind_var(node, env, name, t)

    def assign(self, s, target, value, env, cont):
        if isinstance(value, ast.Call) and self.is_effectful(value, env):
            return self.effect_call(value, env, target, cont, s)
        if not isinstance(target, ast.Name):
            reject(s, "assignment target other than a name (tuple targets only for tuple-valued calls)")
        binds, term, t = self.expr(value, env)
        if t not in VALUE_TYPES:
            reject(s, f"assignment of a value of type {t}")
        if t == "bytearray" and not isinstance(value, (ast.Call, ast.BinOp)):
            reject(s, "a second name for a bytearray (aliasing of a mutable object is not modelled)")
        env2 = self.bind_var(s, env, target.id, t)
        return wrap_binds(binds, f"let {mangle(target.id)} := {term} in\n{cont(env2)}")

    def do_return(self, s, env):
        # `return <Any>` from a function annotated -> bytes
        if isinstance(s.value, ast.Name) and env.get(s.value.id) == "any":
            r = self.fd.returns
            txt = None if r is None else (r.value if isinstance(r, ast.Constant) and isinstance(r.value, str) else ast.unparse(r))
            if txt != "bytes":
                reject(s, "return of a dynamic (Any) value from a function that is not annotated `-> bytes`")
            self.set_ret(s, "bytes")
            t = self.tmp()
            return wrap_binds([(t, f"py_bytes_ret {mangle(s.value.id)}")], self.ret_wrap(self.result_term(t, env)))
        return super().do_return(s, env)

    def do_raise(self, s, env):
        # raise E(<plain variable>): the argument is dropped like a message text
        e = s.exc
        if (s.cause is None and isinstance(e, ast.Call) and not e.keywords and len(e.args) == 1 and isinstance(e.args[0], ast.Name)
                and e.args[0].id in env and env[e.args[0].id] in ("int", "bytes", "bool", "ptype", "wraps")):
            binds, term, t = self.expr(e.func, env)
            if t != "exc" or binds:
                reject(s, f"raise of a call of something that is not an exception class ({t})")
            return f"Err {term}"
        return super().do_raise(s, env)

    # ------------------------------------------------------------------ delegated arm
    def is_message_test(self, t):
        return (isinstance(t, ast.Compare) and len(t.ops) == 1 and isinstance(t.ops[0], ast.Eq) and isinstance(t.left, ast.Name)
                and t.left.id == "proto_type" and isinstance(t.comparators[0], ast.Name) and t.comparators[0].id == "TYPE_MESSAGE")

    def stmt_terminates(self, s):
        if isinstance(s, ast.If) and self.info.name in PINNED_MESSAGE_ARM and self.is_message_test(s.test):
            return self.terminates(s.orelse)        # the pinned arm itself always returns
        return super().stmt_terminates(s)

    def do_if(self, s, rest, env, k):
        if self.info.name in PINNED_MESSAGE_ARM and self.is_message_test(s.test):
            want_test, want_body = pinned_arm(self.info.name)
            if ast.dump(s.test) != want_test or [ast.dump(x) for x in s.body] != want_body:
                reject(s, f"the delegated `proto_type == TYPE_MESSAGE` arm of `{self.info.name}` differs from the text pinned in the translator")
            if env.get("proto_type") != "ptype" or env.get("wraps") != "wraps" or env.get("value") != "any":
                reject(s, "the delegated arm is reached with proto_type / wraps / value not of their parameter types")
            binds, c = self.cond(s.test, env)
            tmpl, rt = DELEGATED_TERM[self.info.name]
            self.set_ret(s, rt)
            a = tmpl.format(wraps=mangle("wraps"), value=mangle("value"))
            self.info.uses_msg = True
            if self.ret_wrap("@") != "Ok (@)":
                reject(s, "delegated arm inside a loop")
            tb = self.terminates(s.orelse)
            if tb and rest:
                reject(rest[0], "unreachable statement after an if whose branches both end")
            b = self.block(s.orelse, env, (lambda e: reject(s, "internal: fall-through of a terminating branch")) if tb
                           else (lambda e: self.block(rest, e, k)))
            return wrap_binds(binds, f"if {c}\nthen {a}\nelse {b}")
        return super().do_if(s, rest, env, k)

    # ------------------------------------------------------------------ tests
    def cond(self, e, env):
        if isinstance(e, ast.BoolOp):
            parts, binds = [], []
            for v in e.values:
                b, c = self.cond(v, env)
                if b:
                    reject(v, "operation that can raise inside and / or")
                parts.append(c)
            op = " && " if isinstance(e.op, ast.And) else " || "
            return binds, "(" + op.join(f"({p})" for p in parts) + ")"
        if isinstance(e, ast.Name) and env.get(e.id) == "wraps":
            return [], f"py_truthy_wraps {mangle(e.id)}"
        if isinstance(e, ast.Name) and env.get(e.id) in ("any", "ptype", "bytearray"):
            reject(e, f"truth value of a {env[e.id]}")
        return super().cond(e, env)

    # ------------------------------------------------------------------ expressions
    def expr(self, e, env):
        if isinstance(e, ast.Name):
            if e.id in env and env[e.id] in ("ptype", "wraps", "any", "bytearray"):
                return [], mangle(e.id), env[e.id]
            if e.id not in env and e.id in self.mod.type_consts:
                return [], self.mod.type_const(e, e.id), "ptype"
        if isinstance(e, ast.Compare) and len(e.ops) == 1:
            op = e.ops[0]
            left, right = e.left, e.comparators[0]
            if isinstance(op, (ast.In, ast.NotIn)):
                bl, l, tl = self.expr(left, env)
                if tl != "ptype" or bl:
                    reject(e, f"`in` with a left operand of type {tl}")
                if isinstance(right, ast.Tuple) or isinstance(right, ast.List):
                    items = []
                    for x in right.elts:
                        if not (isinstance(x, ast.Name) and x.id not in env):
                            reject(e, "`in` over a tuple with an element that is not a module-level TYPE_ constant")
                        items.append(self.mod.type_const(x, x.id))
                    lst = "[" + "; ".join(items) + "]"
                elif isinstance(right, ast.Name) and right.id not in env:
                    lst = self.mod.type_list(right, right.id)
                else:
                    reject(e, "`in` over something other than a tuple of TYPE_ constants / a module-level type list")
                c = f"(tmem {l} {lst})"
                return [], c if isinstance(op, ast.In) else f"(negb {c})", "bool"
            if isinstance(op, (ast.Eq, ast.NotEq)):
                # only when one side is statically a ptype
                def is_pt(x):
                    return isinstance(x, ast.Name) and ((x.id in env and env[x.id] == "ptype") or (x.id not in env and x.id in self.mod.type_consts))
                if is_pt(left) or is_pt(right):
                    bl, l, tl = self.expr(left, env)
                    br, r, tr = self.expr(right, env)
                    if not (tl == tr == "ptype") or bl or br:
                        reject(e, f"comparison between {tl} and {tr}")
                    c = f"(ptype_eqb {l} {r})"
                    return [], c if isinstance(op, ast.Eq) else f"(negb {c})", "bool"
        return super().expr(e, env)

    def binop(self, e, env):
        if isinstance(e.op, ast.Add):
            # bytearray + bytes (from `x += <bytes>`): still the local bytearray
            save = self.ntmp
            b1, l, tl = self.expr(e.left, env)
            if tl == "bytearray":
                b2, r, tr = self.expr(e.right, env)
                if tr != "bytes":
                    reject(e, f"operator Add between bytearray and {tr}")
                return b1 + b2, f"({l} ++ {r})", "bytearray"
            self.ntmp = save
        return super().binop(e, env)

    def int_view(self, e, env):
        """An argument for an int parameter that mentions dynamic (Any) variables: coerce each ONCE, up front.
        Returns (binds, term, type)."""
        names = []
        for n in ast.walk(e):
            if isinstance(n, ast.Name) and isinstance(n.ctx, ast.Load) and env.get(n.id) == "any" and n.id not in names:
                names.append(n.id)
        if not names:
            return self.expr(e, env)
        e2 = copy.deepcopy(e)
        env2 = dict(env)
        pre = []
        for nm in names:
            alias = nm + "__int"
            if alias in env:
                reject(e, f"name `{alias}` is in use")
            env2[alias] = "int"
            pre.append((mangle(alias), f"py_int_arg {mangle(nm)}"))
        for n in ast.walk(e2):
            if isinstance(n, ast.Name) and n.id in names:
                n.id = n.id + "__int"
        binds, term, t = self.expr(e2, env2)
        if binds:
            reject(e, "a dynamic (Any) variable in an int context together with another operation that can raise")
        return pre, term, t

    def callee_head(self, callee):
        """the Gallina head of a call: name, the Section variable msg when the callee was closed over it by an EARLIER section
        (inside its own section it is implicit), and fuel"""
        if getattr(callee, "uses_msg", False):
            self.info.uses_msg = True
        if callee.uses_fuel:
            self.info.uses_fuel = True
        return (callee.coq_name + (" msg" if getattr(callee, "uses_msg", False) and getattr(callee, "section_closed", False) else "")
                + (" fuel" if callee.uses_fuel else ""))

    def call_args(self, call, callee, env):
        """arguments of a call of a translated function without stream parameters: (binds, [terms])"""
        if call.keywords or any(isinstance(a, ast.Starred) for a in call.args):
            reject(call, "keyword / star arguments")
        if len(call.args) != len(callee.params):
            reject(call, f"call of `{callee.name}` with {len(call.args)} positional arguments for {len(callee.params)} parameters")
        binds, terms = [], []
        for a, (pn, pt) in zip(call.args, callee.params):
            b, tm, t = self.int_view(a, env) if pt == "int" else self.expr(a, env)
            if t != pt:
                reject(a, f"argument of type {t} for parameter `{pn}` : {pt} of `{callee.name}`")
            binds += b
            terms.append(f"({tm})")
        return binds, terms

    def effect_call(self, call, env, target, cont, s):
        f = call.func
        if isinstance(f, ast.Name) and f.id in self.mod.funcs and f.id not in env:
            callee = self.mod.function(f.id, call)
            if not callee.streams:
                # same shape as the library's, with the extended argument typing / coercion
                binds, terms = self.call_args(call, callee, env)
                if callee.uses_fuel:
                    self.info.uses_fuel = True
                r = self.tmp()
                if target is not None and callee.ret == "none":
                    reject(s, f"the None result of `{f.id}` is used")
                if target is None:
                    env2, bt = env, ""
                elif isinstance(target, ast.Name):
                    if target.id == "@ret":
                        env2 = dict(env)
                        env2["@ret"] = callee.ret
                        bt = f"let v__ret := {r} in\n"
                    else:
                        if callee.ret not in ("int", "bytes", "bool"):
                            reject(s, f"assignment of a value of type {callee.ret}")
                        env2 = self.bind_var(s, env, target.id, callee.ret)
                        bt = f"let {mangle(target.id)} := {r} in\n"
                else:
                    reject(s, "assignment target other than a name")
                return wrap_binds(binds, f"bind ({self.callee_head(callee)} {' '.join(terms)}) (fun {r} =>\n{bt}{cont(env2)})")
        return super().effect_call(call, env, target, cont, s)

    def call_expr(self, e, env):
        f = e.func
        # a translated function without stream parameters inside an expression: hoisted in evaluation order
        if isinstance(f, ast.Name) and f.id in self.mod.funcs and f.id not in env:
            callee = self.mod.function(f.id, e)
            if callee.streams:
                reject(e, f"effectful call `{f.id}` (stream parameters) inside an expression")
            if callee.ret not in ("int", "bytes", "bool"):
                reject(e, f"call of `{f.id}` returning {callee.ret} inside an expression")
            binds, terms = self.call_args(e, callee, env)
            if callee.uses_fuel:
                self.info.uses_fuel = True
            r = self.tmp()
            return binds + [(r, f"{self.callee_head(callee)} {' '.join(terms)}")], r, callee.ret
        if e.keywords or any(isinstance(a, ast.Starred) for a in e.args):
            return super().call_expr(e, env)
        if isinstance(f, ast.Name) and f.id not in env:
            if f.id == "bytearray" and not e.args:
                self.mod.require_unshadowed(e, "bytearray")
                return [], "[]", "bytearray"
            if f.id == "bytes" and len(e.args) == 1:
                self.mod.require_unshadowed(e, "bytes")
                b, tm, t = self.expr(e.args[0], env)
                if t != "bytearray":
                    reject(e, f"bytes() of a {t} (only of a local bytearray)")
                return b, tm, "bytes"
            if f.id == "len" and len(e.args) == 1 and isinstance(e.args[0], ast.Name) and env.get(e.args[0].id) == "any":
                self.mod.require_unshadowed(e, "len")
                r = self.tmp()
                return [(r, f"py_len_any {mangle(e.args[0].id)}")], r, "int"
        if isinstance(f, ast.Attribute):
            v = f.value
            # struct.pack(_pack_fmt(<ptype>), <Any>)
            if isinstance(v, ast.Name) and v.id == "struct" and "struct" not in env and f.attr == "pack":
                self.mod.require_import(e, "struct", "import")
                ok = (len(e.args) == 2 and isinstance(e.args[0], ast.Call) and isinstance(e.args[0].func, ast.Name)
                      and e.args[0].func.id == "_pack_fmt" and "_pack_fmt" not in env and len(e.args[0].args) == 1
                      and not e.args[0].keywords)
                if not ok:
                    reject(e, "struct.pack other than struct.pack(_pack_fmt(<proto type>), <value>)")
                if len(self.mod.funcs.get("_pack_fmt", [])) != 1 or len(self.mod.bound.get("_pack_fmt", [])) != 1:
                    reject(e, "`_pack_fmt` is not defined exactly once at module level (or is re-bound)")
                bt, tt, ty = self.expr(e.args[0].args[0], env)
                bv, tv, tyv = self.expr(e.args[1], env)
                if ty != "ptype" or tyv != "any" or bt or bv:
                    reject(e, f"struct.pack(_pack_fmt({ty}), {tyv})")
                r = self.tmp()
                return [(r, f"py_struct_pack_fmt {tt} {tv}")], r, "bytes"
            # <Any>.encode("utf-8")
            if f.attr == "encode" and isinstance(v, ast.Name) and env.get(v.id) == "any":
                if not (len(e.args) == 1 and isinstance(e.args[0], ast.Constant) and e.args[0].value == "utf-8"):
                    reject(e, "encode() other than .encode(\"utf-8\")")
                r = self.tmp()
                return [(r, f"py_str_encode_utf8 {mangle(v.id)}")], r, "bytes"
        return super().call_expr(e, env)

    def is_effectful(self, call, env):
        # `struct.pack`, `value.encode` etc. are attribute calls on non-streams: not effectful in the library's sense
        return super().is_effectful(call, env)


# ----------------------------------------------------------------------------------------------- self-test
SELFTEST_HEAD = ("import math\nimport struct\nfrom io import BytesIO\nfrom itertools import count\nfrom typing import Any\n"
                 "TYPE_INT32 = 'int32'\nTYPE_STRING = 'string'\nTYPE_MESSAGE = 'message'\nTYPE_FIXED32 = 'fixed32'\n"
                 "SOME = [TYPE_INT32, TYPE_STRING]\nBAD = [TYPE_INT32]\nBAD.append(TYPE_STRING)\nTYPE_ODD = 'odd'\n"
                 "def _pack_fmt(proto_type: str) -> str:\n    return {TYPE_FIXED32: '<I'}[proto_type]\n"
                 "def h(x: int) -> int:\n    return x + 1\n")
SELFTEST = [
    ("f", "def f(proto_type: str, value: Any) -> int:\n    if proto_type in SOME:\n        return h(value)\n    return 0\n", None),
    ("f", "def f(proto_type: str, value: Any) -> int:\n    if proto_type in (TYPE_INT32, TYPE_STRING):\n        return 1 + h(value << 1)\n    return 0\n", None),
    ("f", "def f(proto_type: str, value: Any) -> bytes:\n    if proto_type == TYPE_FIXED32:\n        return struct.pack(_pack_fmt(proto_type), value)\n    return value\n", None),
    ("f", "def f(x: int, *, flag: bool = False, wraps: str = '') -> bytes:\n    out = bytearray()\n    if x or flag or wraps:\n        out += b'a'\n    else:\n        raise NotImplementedError(x)\n    return bytes(out)\n", None),
    ("f", "def f(value: Any) -> int:\n    return len(value.encode('utf-8')) + len(value)\n", None),
    ("f", "def f(proto_type: str) -> int:\n    if proto_type in BAD:\n        return 1\n    return 0\n", "object of an attribute access"),
    ("f", "def f(proto_type: str) -> int:\n    if proto_type == TYPE_ODD:\n        return 1\n    return 0\n", "not a variable that is definitely bound|not a module-level constant"),
    ("f", "def f(name: str) -> int:\n    return 0\n", "str is accepted only for"),
    ("f", "def f(x: int, *, flag: bool = True) -> int:\n    return x\n", "default of the keyword-only parameter"),
    ("f", "def f(value: Any) -> int:\n    return value\n", "not annotated `-> bytes`"),
    ("f", "def f(value: Any) -> int:\n    return value + 1\n", "operator Add between any and int"),
    ("f", "def f(value: Any) -> bytes:\n    return value.encode('latin-1')\n", "encode() other than"),
    ("f", "def f(proto_type: str, value: Any) -> bytes:\n    return struct.pack('<I', value)\n", "struct.pack other than"),
    ("f", "def f(value: Any) -> int:\n    if value:\n        return 1\n    return 0\n", "truth value of a any"),
    ("f", "def f(value: Any, x: int) -> int:\n    return h(value << x)\n", "together with another operation that can raise"),
    ("f", "def f(x: int, wraps: str) -> int:\n    y = x or 3\n    return y\n", "and / or over a int"),
    ("f", "def f(value: Any) -> int:\n    if isinstance(value, int):\n        return 1\n    return 0\n", "call of `isinstance`"),
    ("_preprocess_single", "def _preprocess_single(proto_type: str, wraps: str, value: Any) -> bytes:\n    if proto_type == TYPE_MESSAGE:\n        return bytes(value)\n    return value\n",
     "differs from the text pinned"),
    ("_preprocess_single", "def _preprocess_single(proto_type: str, wraps: str, value: Any) -> bytes:\n" +
     "".join("    " + l + "\n" for l in PINNED_MESSAGE_ARM["_preprocess_single"].strip("\n").split("\n")) + "    return value\n", None),
    ("f", "Any = int\ndef f(value: Any) -> int:\n    return 0\n", "name `Any` is not bound exactly once"),
    ("f", "def f(x: int) -> bytes:\n    out = bytearray()\n    alias = out\n    alias += b'a'\n    return bytes(out)\n", "a second name for a bytearray"),
    ("f", "def f(x: int) -> int:\n    try:\n        return x\n    except ValueError:\n        return 0\n", "statement `Try`"),
]


def selftest():
    bad = 0
    for root, src, want in SELFTEST:
        try:
            Translator9(SELFTEST_HEAD + src).function(root, ast.parse(""))
            got = None
        except Reject as ex:
            got = str(ex)
        ok = (got is None) if want is None else (got is not None and any(w in got for w in want.split("|")))
        if not ok:
            bad += 1
            print(f"SELFTEST-FAIL: expected {want!r}, got {got!r} for\n{src}")
    print(f"selftest: {len(SELFTEST) - bad}/{len(SELFTEST)} snippets behaved as expected")
    return 1 if bad else 0


# ----------------------------------------------------------------------------------------------- driver
def note(ex):
    return str(ex).replace("*", "x").replace("(", "[").replace(")", "]")[:600]


PARTS = [("preprocess", ["_preprocess_single", "_len_preprocessed_single"], "SrcPre"),
         ("single", ["_serialize_single", "_len_single"], "SrcSingle")]


def generate():
    """Returns (Gallina text, {"preprocess": None | reason, "single": None | reason}).  Two parts, translated one after the
    other: "preprocess" (_preprocess_single, _len_preprocessed_single) and "single" (_serialize_single, _len_single, which call
    the first two: when "preprocess" is rejected so is "single").  A rejected part leaves NO definition behind, only its flag
    `src_c09_<part>_translated := false`, so its proof file cannot compile against stale or guessed definitions."""
    path = os.path.join(REPO, SRC_REL)
    with open(path, encoding="utf-8") as f:
        source = f.read()
    verdict = {}
    out = ["(* GENERATED by harness/gen_c09_src.py from the source text of " + SRC_REL.replace(os.sep, "/") + ". Do not edit.",
           "   Mechanical translation (accepted subset: see the generator and harness/gen_c16_src.py).",
           "   encode_varint / size_varint are the translations in gen/C16Src.v (same source text, same run). *)",
           "From BP Require Import Base.Prelude Model.Types Model.Object Model.C16SrcLib Model.C09SrcLib gen.C16Src.", ""]
    mod = Translator9(source)
    sections, flags = [], []
    emitted_consts, emitted_lists, const_lines = [], [], []
    failed = None
    for key, roots, secname in PARTS:
        snap = (list(mod.used_consts), list(mod.used_lists), len(mod.order))
        try:
            if failed is not None:
                raise Reject(f"part `{failed}`, which this part calls, was rejected")
            for r in roots:
                mod.function(r, mod.tree)
            for nm in mod.used_consts:
                if nm not in emitted_consts:
                    emitted_consts.append(nm)
                    const_lines.append(f"Definition src_{nm} : ptype := {mod.type_consts[nm]}.")
            for nm in mod.used_lists:
                if nm not in emitted_lists:
                    emitted_lists.append(nm)
                    const_lines.append(f"Definition src_{nm} : list ptype := [" + "; ".join("src_" + x for x in mod.type_lists[nm]) + "].")
            body = [f"Section {secname}.",
                    "(* bytes(value) of the delegated TYPE_MESSAGE arm (same role as in Model/Encode.v, Section Single) *)",
                    "Variable msg : option ptype -> pv -> result (list byte).", ""]
            for info in mod.order[snap[2]:]:
                if info.name in PROVIDED_BY_C16:
                    continue
                body.append(f"(* ---- {info.name} ---- *)")
                for p, d in getattr(info, "kw_defaults", []):
                    body.append(f"(* keyword-only parameter {p}: default {d} (call sites are not translated) *)")
                body.append(info.text)
                info.section_closed = True
            body.append(f"End {secname}.")
            body.append("")
            sections.append((key, body))
            flags.append(f"Definition src_c09_{key}_translated : bool := true.")
            verdict[key] = None
        except Reject as ex:
            failed = failed or key
            mod.used_consts, mod.used_lists = snap[0], snap[1]
            verdict[key] = str(ex)
            sections.append((key, [f"(* part {key} NOT translated - REJECTED: %s *)" % note(ex), ""]))
            flags.append(f"Definition src_c09_{key}_translated : bool := false.")
    # constants are emitted in order of first use, before the sections; a part's constants appear only if it was translated
    # (module-level constants and lists are emitted part by part so that a rejected part contributes nothing)
    out.append("(* ---- module-level proto type constants and type lists used by the translated functions ---- *)")
    out += const_lines
    out.append("")
    for key, body in sections:
        out += body
    out += flags
    return "\n".join(out) + "\n", verdict


def report(verdict):
    for part, why in verdict.items():
        print(f"C09SRC-TRANSLATION-{'OK' if why is None else 'REJECTED'}: {part}" + ("" if why is None else f": {why}"))


def main():
    mode = sys.argv[1] if len(sys.argv) > 1 else ""
    if mode == "--selftest":
        return selftest()
    text, verdict = generate()
    if mode == "--print":
        print(text, end="")
    elif mode != "--dry-run":
        os.makedirs(os.path.dirname(OUT), exist_ok=True)
        old = None
        if os.path.exists(OUT):
            with open(OUT) as f:
                old = f.read()
        if old != text:
            with open(OUT + ".tmp", "w") as f:
                f.write(text)
            os.replace(OUT + ".tmp", OUT)
            print("C09Src.v regenerated")
        else:
            print("C09Src.v unchanged")
    if mode != "--print":
        report(verdict)
    return 3 if any(v is not None for v in verdict.values()) else 0


if __name__ == "__main__":
    try:
        sys.exit(main())
    except Exception as e:  # fail closed: a stale translation must not survive a source that cannot even be read / parsed
        msg = f"{type(e).__name__}: {e}"
        if not (len(sys.argv) > 1 and sys.argv[1] in ("--dry-run", "--print", "--selftest")):
            text = ("(* gen_c09_src.py: source-translation ERROR %s *)\nDefinition translation_failed : False := I.\n"
                    % msg.replace("*", "x").replace("(", "[").replace(")", "]")[:600])
            old = open(OUT).read() if os.path.exists(OUT) else None
            if old != text:
                os.makedirs(os.path.dirname(OUT), exist_ok=True)
                with open(OUT, "w") as f:
                    f.write(text)
        for key, _, _ in PARTS:
            print(f"C09SRC-TRANSLATION-REJECTED: {key}: {msg}")
        sys.exit(3)
