"""Entry point: ./check Cxx [--replay path]"""
import importlib
import json
import os
import sys
import traceback

from . import lib


def main():
    args = sys.argv[1:]
    if not args:
        print("usage: check Cxx [--replay file]")
        return 2
    pid = args[0]
    replay = None
    if "--replay" in args:
        replay = args[args.index("--replay") + 1]
    tier = os.environ.get("VERIF_TIER", "quick")
    if tier not in ("quick", "thorough"):
        tier = "quick"
    seed = int(os.environ.get("VERIF_SEED", "0") or 0)
    ctx = lib.Ctx(pid, tier, seed)
    mod = importlib.import_module(f"harness.props.{pid.lower()}")
    try:
        if replay:
            return mod.replay(ctx, json.load(open(replay)))
        # 1-2: T1 + build
        lib.build(ctx, [f"Properties/{pid}.vo"] + list(getattr(mod, "EXTRA_TARGETS", [])))
        # 3: audit
        if ctx.build_ok:
            lib.audit(ctx, f"{pid}.v")
        else:
            ctx.proof = {"file": f"coq/Properties/{pid}.v", "obligations": 1, "discharged": 0, "theorems": [],
                         "verdicts": [], "problems": ["coq build failed: " + ctx.build_log[-1200:]]}
        # 4-5: correspondence + oracle
        try:
            mod.run(ctx)
        except (KeyboardInterrupt, SystemExit):
            raise
        except BaseException:      # asyncio.CancelledError and friends are not Exceptions
            tb = traceback.format_exc()
            sys.stderr.write(tb)
            ctx.fail("crash", "a step of the check raised against this tree; the property is not shown to hold",
                     traceback=tb[-3000:], no_input=True, theorem_or_correspondence="check did not complete")
        return mod.finish(ctx)
    except (KeyboardInterrupt, SystemExit):
        raise
    except BaseException:
        tb = traceback.format_exc()
        sys.stderr.write(tb)
        # the harness could not complete against this tree: the property is not shown to hold
        path = lib.write_replay(ctx, {"kind": "harness-crash", "theorem_or_correspondence": "check did not complete",
                                      "traceback": tb[-4000:], "failures_so_far": ctx.failures[:5]})
        print(f"VIOLATION property={pid} replay={path} no-failing-input-found")
        return 1
    finally:
        ctx.cleanup()


if __name__ == "__main__":
    sys.exit(main())
