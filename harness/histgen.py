"""Histories of operations on real Message objects, and the same histories as Gallina `op` lists for
coq/Model/History.v (shared by C07 and C14).  apply_op runs one operation on the real object and
returns (object to continue with, observable output)."""
import copy
import io
import pickle

import betterproto as bp

from . import msggen
from .lib import coq_bytes



_proto = [0]


def pickle_rt(m):
    """pickle round trip, cycling through ALL pickle protocols 0..HIGHEST (a falsy state - a message that encodes to b"" - is
    dropped by protocols 0 / 1 when the class relies on __getstate__ / __setstate__: seeded change C14-7)"""
    p = _proto[0] % (pickle.HIGHEST_PROTOCOL + 1)
    _proto[0] += 1
    return pickle.loads(pickle.dumps(m, protocol=p))

def paths_of(schema, ci, rng, depth=2):
    """a random attribute path [field positions] ending at a class, through plain message fields"""
    path, cur = [], ci
    while depth > 0 and rng.random() < 0.4:
        c = schema.classes[cur]
        cands = [(i, f) for i, f in enumerate(c.fields) if f.card == "plain" and f.elem.kind == "msg"]
        if not cands:
            break
        i, f = rng.choice(cands)
        path.append(i)
        cur = f.elem.ref
        depth -= 1
    return path, cur


def gen_op(schema, ci, rng, kinds=None):
    """returns a dict describing one op (python-executable and printable)"""
    kinds = kinds or ["set", "set", "set", "get", "get", "parse", "copy", "deepcopy", "pickle", "bytes", "len", "dump", "eq", "bool"]
    k = rng.choice(kinds)
    if k in ("set", "get"):
        path, cur = paths_of(schema, ci, rng)
        c = schema.classes[cur]
        if not c.fields:
            return {"k": "bool"}
        i = rng.randrange(len(c.fields))
        f = c.fields[i]
        if k == "get":
            return {"k": "get", "path": path, "i": i}
        r = rng.random()
        if r < 0.35:
            v = msggen.default_of(schema, msggen.Field(f.name, f.number, "plain" if f.card in ("optional", "wrapper") else f.card, f.elem, key=f.key))
        else:
            v = msggen.gen_field_value(schema, f, rng, 2)
        return {"k": "set", "path": path, "i": i, "v": v}
    if k == "parse":
        c = schema.classes[ci]
        if rng.random() < 0.5:
            bs = msggen.gen_unknown(rng, {f.number for f in c.fields})
        else:
            try:
                bs = bytes(msggen.gen_message(schema, ci, rng))
            except Exception:
                bs = b""
        return {"k": "parse", "bs": bs}
    if k == "eq":
        return {"k": "eq", "other": msggen.gen_message(schema, ci, rng)}
    if k == "dump":
        return {"k": "dump", "delimit": rng.random() < 0.5}
    return {"k": k}


def walk(schema, ci, m, path):
    cur = ci
    for j in path:
        f = schema.classes[cur].fields[j]
        m = getattr(m, f.name)
        cur = f.elem.ref
    return m, cur


def apply_op(schema, ci, m, op):
    k = op["k"]
    if k == "set":
        holder, cur = walk(schema, ci, m, op["path"])
        setattr(holder, schema.classes[cur].fields[op["i"]].name, op["v"])
        return m, None
    if k == "get":
        # an unselected oneof member (here or on the path) raises AttributeError: that is the read's outcome,
        # the history goes on (History.step returns OVal (Err EAttribute))
        try:
            holder, cur = walk(schema, ci, m, op["path"])
            return m, getattr(holder, schema.classes[cur].fields[op["i"]].name)
        except AttributeError as e:
            return m, e
    if k == "parse":
        m.parse(op["bs"])
        return m, None
    if k == "copy":
        return copy.copy(m), None
    if k == "deepcopy":
        return copy.deepcopy(m), None
    if k == "pickle":
        return pickle_rt(m), None
    if k == "bytes":
        return m, bytes(m)
    if k == "len":
        return m, len(m)
    if k == "dump":
        st = io.BytesIO()
        m.dump(st, bp.SIZE_DELIMITED) if op["delimit"] else m.dump(st)
        return m, st.getvalue()
    if k == "eq":
        return m, (m == op["other"])
    if k == "bool":
        return m, bool(m)
    raise ValueError(k)


def nat_list(l):
    return "[" + "; ".join(f"{x}%nat" for x in l) + "]"


def coq_op(schema, op):
    k = op["k"]
    if k == "set":
        return f"(OSet {nat_list(op['path'])} {op['i']}%nat {msggen.pv_literal(schema, op['v'])})"
    if k == "get":
        return f"(OGet {nat_list(op['path'])} {op['i']}%nat)"
    if k == "parse":
        return f"(OParse {coq_bytes(op['bs'])})"
    if k == "eq":
        return f"(OEq {msggen.obj_literal(schema, op['other'])})"
    if k == "dump":
        return f"(ODump {'true' if op['delimit'] else 'false'})"
    return {"copy": "OCopy", "deepcopy": "ODeepcopy", "pickle": "OPickle", "bytes": "OBytes", "len": "OLen", "bool": "OBool"}[k]
