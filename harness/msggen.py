"""Shared machinery of the message-codec checks (C01 C02 C04–C10 C14 C17 C20):
schemas built with betterproto's public field API, value generators, snapshots of the
raw state of real Message objects, and printers of all of these as Gallina literals for
coq/Model/Object.v.  Every random choice comes from the rng that is passed in."""
import dataclasses
import struct
import sys
import types
from datetime import datetime, timedelta, timezone
from typing import Dict, List, Optional

import betterproto as bp

from .lib import coq_bytes

NBUILTIN = 11  # Timestamp, Duration, 9 wrapper classes (coq/Model/Object.v builtin_classes)
EPOCH = datetime(1970, 1, 1, tzinfo=timezone.utc)

SCALARS = ["double", "float", "int32", "int64", "uint32", "uint64", "sint32", "sint64", "fixed32", "fixed64",
           "sfixed32", "sfixed64", "bool", "string", "bytes"]
MAP_KEY_KINDS = ["int32", "int64", "uint32", "uint64", "sint32", "sint64", "fixed32", "fixed64", "sfixed32", "sfixed64",
                 "bool", "string"]
WRAPPABLE = ["bool", "bytes", "double", "float", "int32", "int64", "string", "uint32", "uint64"]
PT = {"enum": "TEnum", "bool": "TBool", "int32": "TInt32", "int64": "TInt64", "uint32": "TUInt32", "uint64": "TUInt64",
      "sint32": "TSInt32", "sint64": "TSInt64", "float": "TFloat", "double": "TDouble", "fixed32": "TFixed32",
      "sfixed32": "TSFixed32", "fixed64": "TFixed64", "sfixed64": "TSFixed64", "string": "TString", "bytes": "TBytes",
      "message": "TMessage", "map": "TMap"}
INT_RANGE = {"int32": (-(1 << 31), 1 << 31), "int64": (-(1 << 63), 1 << 63), "uint32": (0, 1 << 32), "uint64": (0, 1 << 64),
             "sint32": (-(1 << 31), 1 << 31), "sint64": (-(1 << 63), 1 << 63), "fixed32": (0, 1 << 32),
             "fixed64": (0, 1 << 64), "sfixed32": (-(1 << 31), 1 << 31), "sfixed64": (-(1 << 63), 1 << 63),
             "enum": (-(1 << 31), 1 << 31)}


class Elem:
    """element kind of a field: scalar | enum | msg | datetime | timedelta"""

    def __init__(self, kind, pt, ref=None):
        self.kind, self.pt, self.ref = kind, pt, ref

    def __repr__(self):
        return f"{self.kind}:{self.pt}" + (f"#{self.ref}" if self.ref is not None else "")


def scalar(pt):
    return Elem("scalar", pt)


class Field:
    def __init__(self, name, number, card, elem, key=None, group=None):
        # card: plain | optional | wrapper | repeated | map
        self.name, self.number, self.card, self.elem, self.key, self.group = name, number, card, elem, key, group
        self.entry = None  # entry class index (model numbering) for maps

    @property
    def proto_type(self):
        if self.card == "map":
            return "map"
        if self.card == "wrapper":
            return "message"
        return self.elem.pt

    def __repr__(self):
        return f"{self.name}={self.number}:{self.card}<{self.key or ''}{self.elem}>" + (f"@g{self.group}" if self.group is not None else "")


class Cls:
    def __init__(self, name, fields, ngroups=0):
        self.name, self.fields, self.ngroups = name, fields, ngroups
        self.py = None


class Schema:
    """classes: list[Cls] (user classes; model index = NBUILTIN + position); enums: list[list[(name, number)]]"""

    _counter = 0

    def __init__(self, classes, enums):
        self.classes, self.enums = classes, enums
        self.pyenums = []
        self.entries = []  # (Cls index, Field) per map field, model index NBUILTIN + len(classes) + k
        for ci, c in enumerate(classes):
            for f in c.fields:
                if f.card == "map":
                    f.entry = NBUILTIN + len(classes) + len(self.entries)
                    self.entries.append((ci, f))
        self._build()

    # ---------------------------------------------------------------- python classes
    def _pytype(self, e):
        if e.kind == "scalar":
            return {"double": float, "float": float, "bool": bool, "string": str, "bytes": bytes}.get(e.pt, int)
        if e.kind == "enum":
            return self.pyenums[e.ref]
        if e.kind == "msg":
            return self.classes[e.ref].name  # forward reference, resolved through the module dict
        if e.kind == "datetime":
            return datetime
        if e.kind == "timedelta":
            return timedelta
        raise ValueError(e)

    def _build(self):
        Schema._counter += 1
        self.modname = f"verif_schema_{Schema._counter}"
        mod = types.ModuleType(self.modname)
        sys.modules[self.modname] = mod
        self.mod = mod
        mod.__dict__.update({"List": List, "Dict": Dict, "Optional": Optional, "datetime": datetime, "timedelta": timedelta})
        for i, members in enumerate(self.enums):
            en = type(bp.Enum)(f"E{i}", (bp.Enum,), dict(members, __module__=self.modname))
            setattr(mod, f"E{i}", en)
            self.pyenums.append(en)
        for c in self.classes:
            fl = []
            for f in c.fields:
                t = self._pytype(f.elem)
                if f.card in ("optional", "wrapper"):
                    ann = Optional[t]
                elif f.card == "repeated":
                    ann = List[t]
                elif f.card == "map":
                    ann = Dict[self._pytype(f.key), t]
                else:
                    ann = t
                group = None if f.group is None else f"g{f.group}"
                df = bp.dataclass_field(
                    f.number, f.proto_type,
                    map_types=(f.key.pt, f.elem.pt) if f.card == "map" else None,
                    group=group,
                    wraps=f.elem.pt if f.card == "wrapper" else None,
                    optional=f.card == "optional")
                fl.append((f.name, ann, df))
            py = dataclasses.make_dataclass(c.name, fl, bases=(bp.Message,), eq=False, repr=False)
            py.__module__ = self.modname
            setattr(mod, c.name, py)
            c.py = py
        self.index_of = {c.py: NBUILTIN + i for i, c in enumerate(self.classes)}

    def dispose(self):
        sys.modules.pop(self.modname, None)

    # ---------------------------------------------------------------- Gallina
    def _pyty(self, e):
        if e.kind == "scalar":
            return {"double": "PyFloat", "float": "PyFloat", "bool": "PyBool", "string": "PyStr", "bytes": "PyBytes"}.get(e.pt, "PyInt")
        if e.kind == "enum":
            return f"(PyEnum {e.ref})"
        if e.kind == "msg":
            return f"(PyMsg {NBUILTIN + e.ref})"
        return {"datetime": "PyDatetime", "timedelta": "PyTimedelta"}[e.kind]

    def _field(self, f):
        if f.card in ("optional", "wrapper"):
            hint = f"(HOptional {self._pyty(f.elem)})"
        elif f.card == "repeated":
            hint = f"(HList {self._pyty(f.elem)})"
        elif f.card == "map":
            hint = f"(HDict {self._pyty(f.key)} {self._pyty(f.elem)})"
        else:
            hint = f"(HPlain {self._pyty(f.elem)})"
        fmap = f"(Some ({PT[f.key.pt]}, {PT[f.elem.pt]}))" if f.card == "map" else "None"
        grp = "None" if f.group is None else f"(Some {f.group}%nat)"
        wraps = f"(Some {PT[f.elem.pt]})" if f.card == "wrapper" else "None"
        opt = "true" if f.card == "optional" else "false"
        return (f"(mkF {coq_bytes(f.name.encode())} ({f.number})%Z {PT[f.proto_type]} {fmap} {grp} {wraps} {opt} {hint} "
                f"{f.entry or 0}%nat)")

    def coq(self):
        cl = []
        for c in self.classes:
            cl.append("(mkC [" + ";\n      ".join(self._field(f) for f in c.fields) + f"] {c.ngroups}%nat)")
        for ci, f in self.entries:
            k = f"(mkF [x6b; x65; x79] 1%Z {PT[f.key.pt]} None None None false (HPlain {self._pyty(f.key)}) 0%nat)"
            v = (f"(mkF [x76; x61; x6c; x75; x65] 2%Z {PT[f.elem.pt]} None None None false (HPlain {self._pyty(f.elem)}) 0%nat)")
            cl.append(f"(mkC [{k}; {v}] 0%nat)")
        en = ["(mkE [" + "; ".join(f"({coq_bytes(n.encode())}, ({v})%Z)" for n, v in members) + "])" for members in self.enums]
        return "(mkS (builtin_classes ++ [" + ";\n    ".join(cl) + "]) [" + "; ".join(en) + "])"

    def describe(self):
        return {c.name: [repr(f) for f in c.fields] for c in self.classes}


# --------------------------------------------------------------------------------------
# snapshots of real objects  ->  Gallina literals (pv / obj of coq/Model/Object.v)
# --------------------------------------------------------------------------------------
class Unmodellable(Exception):
    pass


class ForeignValue(Exception):
    """a message object of a class that does not belong to the schema sits inside a value of the schema (e.g. a map value decoded
    as the same-named class of another module). NOT an Unmodellable: the checks skip unmodellable INPUTS, they must never skip
    a result that is not a value of its schema."""


def us_of_datetime(dt):
    if dt.tzinfo is None:
        raise Unmodellable("naive datetime")
    d = dt - EPOCH
    return (d.days * 86400 + d.seconds) * 10 ** 6 + d.microseconds


def us_of_timedelta(td):
    return (td.days * 86400 + td.seconds) * 10 ** 6 + td.microseconds


def f64_bits(x):
    return struct.unpack("<Q", struct.pack("<d", x))[0]


def pv_literal(schema, v):
    if v is bp.PLACEHOLDER:
        return "PPlaceholder"
    if v is None:
        return "PNone"
    if isinstance(v, bool):
        return f"(PBool {'true' if v else 'false'})"
    if isinstance(v, int):
        return f"(PInt ({int(v)}))"
    if isinstance(v, float):
        return f"(PFloat ({f64_bits(v)}))"
    if isinstance(v, str):
        try:
            return f"(PStr {coq_bytes(v.encode('utf-8'))})"
        except UnicodeEncodeError:
            raise Unmodellable("lone surrogate")
    if isinstance(v, (bytes, bytearray)):
        return f"(PBytes {coq_bytes(bytes(v))})"
    if isinstance(v, datetime):
        return f"(PDatetime ({us_of_datetime(v)}))"
    if isinstance(v, timedelta):
        return f"(PTimedelta ({us_of_timedelta(v)}))"
    if isinstance(v, list):
        return "(PList [" + "; ".join(pv_literal(schema, x) for x in v) + "])"
    if isinstance(v, dict):
        return "(PDict [" + "; ".join(f"({pv_literal(schema, k)}, {pv_literal(schema, x)})" for k, x in v.items()) + "])"
    if isinstance(v, bp.Message):
        return f"(PMsg {obj_literal(schema, v)})"
    raise Unmodellable(f"value of type {type(v)}")


def obj_literal(schema, m):
    """the raw state of a real Message object as an `Obj cls raw sow unk cur` literal"""
    cls = type(m)
    if cls not in schema.index_of:
        raise ForeignValue(f"class {cls.__module__}.{cls.__qualname__} is not a class of this schema")
    idx = schema.index_of[cls]
    c = schema.classes[idx - NBUILTIN]
    raw = [object.__getattribute__(m, f.name) for f in c.fields]
    gc = object.__getattribute__(m, "_group_current")
    names = [f.name for f in c.fields]
    cur = []
    for g in range(c.ngroups):
        sel = gc.get(f"g{g}")
        cur.append("None" if sel is None else f"(Some {names.index(sel)}%nat)")
    sow = object.__getattribute__(m, "_serialized_on_wire")
    unk = object.__getattribute__(m, "_unknown_fields")
    return (f"(Obj {idx}%nat [" + "; ".join(pv_literal(schema, v) for v in raw) + f"] {'true' if sow else 'false'} "
            f"{coq_bytes(bytes(unk))} [" + "; ".join(cur) + "])")


def depth_of(m, d=0):
    if isinstance(m, bp.Message):
        return max([d] + [depth_of(object.__getattribute__(m, f.name), d + 1) for f in dataclasses.fields(m)])
    if isinstance(m, list):
        return max([d] + [depth_of(x, d) for x in m])
    if isinstance(m, dict):
        return max([d] + [depth_of(x, d) for x in m.values()])
    return d


# --------------------------------------------------------------------------------------
# schema generation
# --------------------------------------------------------------------------------------
# field numbers around every tag-size boundary: (num << 3) crosses 2**7, 2**14, 2**21, 2**28 at 16, 2048, 262144, 33554432
NUMBERS = [1, 2, 15, 16, 17, 2047, 2048, 100000, 262143, 262144, 33554431, 33554432, (1 << 29) - 1]


def matrix_schema():
    """the systematic schema: every (kind x cardinality) cell at least once"""
    enums = [[("ZERO", 0), ("ONE", 1), ("NEG", -1), ("BIG", 2147483647), ("ALIAS", 1)]]
    kinds = [scalar(s) for s in SCALARS] + [Elem("enum", "enum", 0), Elem("msg", "message", 0),
                                             Elem("datetime", "message"), Elem("timedelta", "message")]
    inner = Cls("Inner", [Field("x", 1, "plain", scalar("int32")), Field("s", 2, "plain", scalar("string")),
                          Field("rec", 3, "plain", Elem("msg", "message", 0)),
                          Field("o", 4, "optional", scalar("int32"))])
    empty = Cls("Empty", [])
    plain = Cls("KPlain", [Field(f"p_{k.pt}_{i}", i + 1, "plain", k) for i, k in enumerate(kinds)])
    opt = Cls("KOptional", [Field(f"o_{k.pt}_{i}", i + 1, "optional", k) for i, k in enumerate(kinds)])
    rep = Cls("KRepeated", [Field(f"r_{k.pt}_{i}", i + 1, "repeated", k) for i, k in enumerate(kinds)])
    one = Cls("KOneof", [Field(f"u_{k.pt}_{i}", i + 1, "plain", k, group=i // 5) for i, k in enumerate(kinds)]
              + [Field("tail", 40, "plain", scalar("int32")), Field("e", 41, "plain", Elem("msg", "message", 1), group=3)],
              ngroups=4)
    mp = Cls("KMap", [Field(f"m_{k}_{v.pt}_{i}", i + 1, "map", v, key=scalar(k))
                      for i, (k, v) in enumerate([(k, kinds[j % len(kinds)]) for j, k in enumerate(MAP_KEY_KINDS)]
                                                 + [("string", v) for v in kinds])])
    wr = Cls("KWrapper", [Field(f"w_{w}", i + 1, "wrapper", scalar(w)) for i, w in enumerate(WRAPPABLE)])
    nums = Cls("KNumbers", [Field(f"n{n}", n, "plain", scalar("int32")) for n in NUMBERS]
               + [Field("big_s", 536870910, "plain", scalar("string"))])
    return Schema([inner, empty, plain, opt, rep, one, mp, wr, nums], enums)


def twin_schemas():
    """two schemas - two packages of one program - that each define their own message `Item` and enum-valued / message-valued maps
    over it, with the SAME class names, key kinds and field names but different fields: whatever the library remembers about a class
    (entry classes of maps, key tables, enum names, defaults) must be remembered per class OBJECT, not per class name
    (seeded changes C01-4, C02-4: a map-entry class cache keyed by the value class's name)"""
    out = []
    for variant in (0, 1):
        if variant == 0:
            item = Cls("Item", [Field("x", 1, "plain", scalar("int32")), Field("s", 2, "plain", scalar("string"))])
            enums = [[("ZERO", 0), ("ONE", 1)]]
        else:
            item = Cls("Item", [Field("s", 1, "plain", scalar("string")), Field("y", 2, "plain", scalar("sint64")),
                                Field("r", 3, "repeated", scalar("int32"))])
            enums = [[("ZERO", 0), ("OTHER", 5), ("NEG", -1)]]
        holder = Cls("Holder", [
            Field("items", 1, "map", Elem("msg", "message", 0), key=scalar("string")),
            Field("by_num", 2, "map", Elem("msg", "message", 0), key=scalar("int32")),
            Field("e_map", 3, "map", Elem("enum", "enum", 0), key=scalar("string")),
            Field("one", 4, "plain", Elem("msg", "message", 0)),
            Field("many", 5, "repeated", Elem("msg", "message", 0)),
            Field("e", 6, "plain", Elem("enum", "enum", 0))])
        out.append(Schema([item, holder], enums))
    return out


def mixed_schema():
    """one class holding, for every packable scalar kind, BOTH a singular and a repeated field (plus a singular and a repeated
    string): whether a length-delimited occurrence fits a field depends on the field, not only on its type (seeded change C17-7:
    a per-class memo of the wire-type verdict keyed by (type, wire type))"""
    kinds = ["int32", "sint64", "uint32", "bool", "fixed32", "sfixed64", "float", "double"]
    fields, n = [], 1
    for k in kinds:
        fields.append(Field(f"s_{k}", n, "plain", scalar(k)))
        fields.append(Field(f"r_{k}", n + 1, "repeated", scalar(k)))
        n += 2
    fields.append(Field("s_enum", n, "plain", Elem("enum", "enum", 0)))
    fields.append(Field("r_enum", n + 1, "repeated", Elem("enum", "enum", 0)))
    fields.append(Field("s_string", n + 2, "plain", scalar("string")))
    fields.append(Field("r_string", n + 3, "repeated", scalar("string")))
    return Schema([Cls("Mixed", fields)], [[("ZERO", 0), ("ONE", 1), ("NEG", -1)]])


def random_schema(rng, nclasses=None):
    nclasses = nclasses or rng.randint(1, 4)
    enums = []
    for _ in range(rng.randint(1, 2)):
        n = rng.randint(1, 5)
        nums = [0] + [rng.choice([1, 2, 3, -1, -2, 7, 100, 2147483647, -2147483648, rng.randint(-1000, 1000)]) for _ in range(n - 1)]
        enums.append([(f"M{i}", v) for i, v in enumerate(nums)])
    classes = []
    for ci in range(nclasses):
        nf = rng.randint(0, 8) if rng.random() < 0.9 else rng.randint(9, 16)
        numbers = rng.sample(NUMBERS + list(range(3, 15)) + [rng.randint(18, 5000) for _ in range(4)], nf) if nf else []
        ngroups = rng.choice([0, 0, 1, 2])
        fields = []
        for i in range(nf):
            r = rng.random()
            if r < 0.55:
                e = scalar(rng.choice(SCALARS))
            elif r < 0.68:
                e = Elem("enum", "enum", rng.randrange(len(enums)))
            elif r < 0.88:
                e = Elem("msg", "message", rng.randrange(nclasses))
            elif r < 0.94:
                e = Elem("datetime", "message")
            else:
                e = Elem("timedelta", "message")
            card = rng.choice(["plain", "plain", "plain", "optional", "repeated", "repeated", "map", "oneof", "oneof", "wrapper"])
            key, group = None, None
            if card == "oneof":
                if ngroups:
                    card, group = "plain", rng.randrange(ngroups)
                else:
                    card = "plain"
            if card == "wrapper":
                e = scalar(rng.choice(WRAPPABLE))
            if card == "map":
                key = scalar(rng.choice(MAP_KEY_KINDS))
                if e.kind == "scalar" and e.pt in ("float", "double") and rng.random() < 0.5:
                    e = scalar("int64")
            fields.append(Field(f"f{i}", numbers[i], card, e, key=key, group=group))
        classes.append(Cls(f"C{ci}", fields, ngroups))
    return Schema(classes, enums)


# --------------------------------------------------------------------------------------
# value generation
# --------------------------------------------------------------------------------------
STRINGS = ["", "a", "hello", "é", "€", "\U0001f600", "x" * 130, "mixed é€\U0001f600 z", "\x00"]
BYTES = [b"", b"\x00", b"abc", b"\xff" * 3, b"\x80\x81", bytes(range(256)), b"\x0a\x00"]
F64 = [0.0, -0.0, 1.0, -1.5, 0.1, 1e300, 5e-324, float("inf"), float("-inf"), float("nan"), 3.4028234663852886e38, 2.0 ** -149,
       16777217.0, 1e39]
F32 = [0.0, -0.0, 1.0, -1.5, 0.5, float("inf"), float("-inf"), float("nan"), 3.4028234663852886e38, 2.0 ** -149, 2.0 ** -126,
       16777216.0, 1.17549435e-38]


def gen_int(pt, rng, in_range=True):
    lo, hi = INT_RANGE[pt]
    r = rng.random()
    if r < 0.15:
        return 0
    if r < 0.45:
        # range ends and every varint-size boundary 2**(7k) (and its zig-zag pre-image 2**(7k-1)), +-1
        cands = [lo, lo + 1, -1, 1, hi - 1, hi - 2, (1 << 31) - 1, -(1 << 31), (1 << 32) - 1]
        for k in range(1, 10):
            for base in (1 << (7 * k), 1 << (7 * k - 1), -(1 << (7 * k - 1))):
                cands += [base - 1, base, base + 1]
        return rng.choice([v for v in cands if lo <= v < hi])
    if r < 0.9 or in_range:
        return rng.randrange(lo, hi) if rng.random() < 0.5 else max(lo, min(hi - 1, rng.randint(-300, 300)))
    return rng.choice([lo - 1, hi, hi + 5, -(1 << 63) - 1, 1 << 64, 1 << 70, -(1 << 70), -5, (1 << 40)])


def gen_scalar(pt, rng, in_range=True):
    if pt == "bool":
        return rng.random() < 0.6
    if pt == "string":
        return rng.choice(STRINGS) if rng.random() < 0.8 else "".join(rng.choice("abé€\U0001f600 _") for _ in range(rng.randint(0, 12)))
    if pt == "bytes":
        return rng.choice(BYTES) if rng.random() < 0.8 else bytes(rng.getrandbits(8) for _ in range(rng.randint(0, 20)))
    if pt == "double":
        if rng.random() < 0.6:
            return rng.choice(F64[:-1] if in_range else F64)
        return struct.unpack("<d", struct.pack("<Q", rng.getrandbits(64)))[0]
    if pt == "float":
        if rng.random() < 0.6:
            return rng.choice(F32)
        if in_range or rng.random() < 0.7:
            return struct.unpack("<f", struct.pack("<I", rng.getrandbits(32)))[0]
        return rng.choice([0.1, 1e39, -1e39, 1e-50, 3.4028235677973366e38])
    return gen_int(pt, rng, in_range)


def gen_datetime(rng):
    r = rng.random()
    if r < 0.2:
        return EPOCH
    if r < 0.5:
        base = rng.choice([0, 1, -1, 10 ** 6, -10 ** 6, 999999, -999999, 1 << 53, -(1 << 53), 253402300799999999, -62135596800000000])
        us = max(-62135596800000000, min(253402300799999999, base + rng.randint(-2, 2)))
    else:
        us = rng.randint(-62135596800000000, 253402300799999999)
    tz = timezone.utc if rng.random() < 0.6 else timezone(timedelta(minutes=rng.randint(-14 * 60, 14 * 60)))
    try:
        return (EPOCH + timedelta(microseconds=us)).astimezone(tz)
    except OverflowError:
        return EPOCH + timedelta(microseconds=us)


# While _Duration.from_timedelta goes through floats (defect F7, property C15) the codec checks keep to the
# spans on which the float arithmetic is exact: |us| < 2**53 and negative spans of whole seconds only.
TD_SAFE = False


def gen_timedelta(rng):
    r = rng.random()
    if r < 0.2:
        return timedelta(0)
    if r < 0.5:
        us = rng.choice([1, 10 ** 6, 1500000, 999999, 1 << 53, 315576000000 * 10 ** 6, 86400 * 10 ** 6]) + rng.randint(-2, 2)
    else:
        us = rng.randint(0, 315576000000 * 10 ** 6)
    if TD_SAFE:
        us = min(us, (1 << 53) - 1)
    if rng.random() < 0.4:
        us = -(us - us % 10 ** 6) if TD_SAFE else -us
    return timedelta(microseconds=us)


def gen_elem(schema, e, rng, depth, in_range=True):
    if e.kind == "scalar":
        return gen_scalar(e.pt, rng, in_range)
    if e.kind == "enum":
        members = schema.enums[e.ref]
        en = schema.pyenums[e.ref]
        r = rng.random()
        if r < 0.6:
            return en(rng.choice(members)[1])
        v = gen_int("enum", rng) if r < 0.9 else rng.choice([5, -7, 12345])
        return en.try_value(v)
    if e.kind == "msg":
        return gen_message(schema, e.ref, rng, depth + 1, in_range)
    if e.kind == "datetime":
        return gen_datetime(rng)
    if e.kind == "timedelta":
        return gen_timedelta(rng)
    raise ValueError(e)


def gen_len(rng):
    return rng.choice([0, 1, 1, 2, 2, 3, 5])


def gen_field_value(schema, f, rng, depth, in_range=True):
    if f.card == "repeated":
        return [gen_elem(schema, f.elem, rng, depth, in_range) for _ in range(gen_len(rng))]
    if f.card == "map":
        d = {}
        for _ in range(gen_len(rng)):
            k = gen_scalar(f.key.pt, rng, True)
            d[k] = gen_elem(schema, f.elem, rng, depth, in_range)
        return d
    return gen_elem(schema, f.elem, rng, depth, in_range)


def default_of(schema, f):
    if f.card in ("optional", "wrapper"):
        return None
    if f.card == "repeated":
        return []
    if f.card == "map":
        return {}
    e = f.elem
    if e.kind == "scalar":
        return {"double": 0.0, "float": 0.0, "bool": False, "string": "", "bytes": b""}.get(e.pt, 0)
    if e.kind == "enum":
        return schema.pyenums[e.ref].try_value(0)
    if e.kind == "msg":
        return schema.classes[e.ref].py()
    if e.kind == "datetime":
        return EPOCH
    return timedelta(0)


def gen_message(schema, ci, rng, depth=0, in_range=True, p_set=None):
    """a real Message object of user class ci, built the way users build them: constructor kwargs,
    then possibly attribute assignments, possibly unknown fields through parse()"""
    c = schema.classes[ci]
    if p_set is None:
        p_set = rng.choice([0.0, 0.3, 0.6, 0.9]) if depth < 3 else rng.choice([0.0, 0.2])
    kwargs, later = {}, []
    groups_used = set()
    for f in c.fields:
        if rng.random() >= p_set:
            continue
        if f.elem.kind == "msg" and depth >= 4:
            continue
        if f.group is not None:
            if f.group in groups_used and rng.random() < 0.8:
                continue
            groups_used.add(f.group)
        r = rng.random()
        v = default_of(schema, f) if r < 0.25 and f.card not in ("optional", "wrapper") else gen_field_value(schema, f, rng, depth, in_range)
        if f.card in ("optional", "wrapper") and r < 0.25:
            # set to the type default (e.g. 0, ""), not None
            v = default_of(schema, Field(f.name, f.number, "plain", f.elem))
        if rng.random() < 0.3:
            later.append((f.name, v))
        else:
            kwargs[f.name] = v
    m = c.py(**kwargs)
    for n, v in later:
        setattr(m, n, v)
    if rng.random() < 0.12:
        m.parse(gen_unknown(rng, {f.number for f in c.fields}))
    return m


def enc_varint(n):
    out = bytearray()
    while True:
        b = n & 0x7F
        n >>= 7
        if n:
            out.append(b | 0x80)
        else:
            out.append(b)
            return bytes(out)


def gen_unknown(rng, known_numbers, n=None):
    """well-formed records with field numbers the class does not know (all four wire types + groups)"""
    out = bytearray()
    for _ in range(n if n is not None else rng.randint(1, 3)):
        while True:
            num = rng.choice([3, 9, 19, 99, 3000, 70000, (1 << 29) - 2, rng.randint(1, 200)])
            if num not in known_numbers:
                break
        wt = rng.choice([0, 1, 2, 5, 0, 2, 3])
        out += enc_varint((num << 3) | wt)
        if wt == 0:
            out += enc_varint(rng.choice([0, 1, 300, (1 << 64) - 1, rng.getrandbits(40)]))
        elif wt == 1:
            out += bytes(rng.getrandbits(8) for _ in range(8))
        elif wt == 5:
            out += bytes(rng.getrandbits(8) for _ in range(4))
        elif wt == 2:
            payload = bytes(rng.getrandbits(8) for _ in range(rng.choice([0, 1, 3, 10])))
            out += enc_varint(len(payload)) + payload
        else:
            out += _gen_group_body(rng, 0) + enc_varint((num << 3) | 4)
    return bytes(out)


def mutate_in_place(schema, ci, m, rng):
    """change message m WITHOUT assigning to one of its own attributes (list append / dict store / assignment inside a nested
    message): the state changes behind Message.__setattr__'s back. Returns the kind of mutation or None when m has no such field."""
    c = schema.classes[ci]
    cands = [f for f in c.fields if f.card in ("repeated", "map") or (f.card == "plain" and f.elem.kind == "msg" and f.group is None)]
    rng.shuffle(cands)
    for f in cands:
        try:
            cur = getattr(m, f.name)
            if f.card == "repeated":
                cur.append(gen_elem(schema, f.elem, rng, 2))
                return "append:" + f.name
            if f.card == "map":
                cur[gen_scalar(f.key.pt, rng)] = gen_elem(schema, f.elem, rng, 2)
                return "dict-store:" + f.name
            inner = schema.classes[f.elem.ref]
            scal = [g for g in inner.fields if g.card == "plain" and g.elem.kind == "scalar" and g.group is None]
            if not scal:
                continue
            g = rng.choice(scal)
            setattr(cur, g.name, gen_scalar(g.elem.pt, rng))
            return "nested-assign:" + f.name
        except (AttributeError, Unmodellable):
            continue
    return None


def _gen_group_body(rng, depth):
    """contents of a (proto2) group, without its start / end tags: usually one varint field; sometimes fields of the other
    wire types and groups nested inside the group, up to three deep (seeded change C10-5: a group skipper that loses the
    start tag of a NESTED group from the raw bytes)"""
    body = bytearray(enc_varint((1 << 3) | 0) + enc_varint(rng.getrandbits(10)))
    if rng.random() < 0.5:
        for _ in range(rng.randint(1, 3)):
            inner = rng.choice([2, 7, 40, 5000])
            wt = rng.choice([0, 1, 2, 5, 3, 3]) if depth < 3 else rng.choice([0, 1, 2, 5])
            body += enc_varint((inner << 3) | wt)
            if wt == 0:
                body += enc_varint(rng.getrandbits(rng.choice([3, 20, 64])))
            elif wt == 1:
                body += bytes(rng.getrandbits(8) for _ in range(8))
            elif wt == 5:
                body += bytes(rng.getrandbits(8) for _ in range(4))
            elif wt == 2:
                payload = bytes(rng.getrandbits(8) for _ in range(rng.choice([0, 1, 5])))
                body += enc_varint(len(payload)) + payload
            else:
                body += _gen_group_body(rng, depth + 1) + enc_varint((inner << 3) | 4)
    return bytes(body)


# --------------------------------------------------------------------------------------
# replayable forms: a schema as JSON (spec / from_spec), the raw state of an object as a JSON tree
# (state_tree / rebuild), and a greedy shrinker over state trees
# --------------------------------------------------------------------------------------
def _elem_spec(e):
    return None if e is None else [e.kind, e.pt, e.ref]


def schema_spec(schema):
    return {"enums": schema.enums,
            "classes": [{"name": c.name, "ngroups": c.ngroups,
                         "fields": [[f.name, f.number, f.card, _elem_spec(f.elem), _elem_spec(f.key), f.group] for f in c.fields]}
                        for c in schema.classes]}


def schema_from_spec(spec):
    def el(x):
        return None if x is None else Elem(x[0], x[1], x[2])
    classes = [Cls(c["name"], [Field(n, num, card, el(e), key=el(k), group=g) for n, num, card, e, k, g in c["fields"]], c["ngroups"])
               for c in spec["classes"]]
    return Schema(classes, [[tuple(m) for m in en] for en in spec["enums"]])


def state_tree(schema, v):
    """JSON-able tree of the raw state (exact: floats as bit patterns, bytes as hex)"""
    if v is bp.PLACEHOLDER:
        return {"t": "ph"}
    if v is None:
        return {"t": "none"}
    if isinstance(v, bool):
        return {"t": "bool", "v": v}
    if isinstance(v, bp.Enum):
        return {"t": "enum", "e": schema.pyenums.index(type(v)), "v": int(v)}
    if isinstance(v, int):
        return {"t": "int", "v": int(v)}
    if isinstance(v, float):
        return {"t": "float", "v": f64_bits(v)}
    if isinstance(v, str):
        return {"t": "str", "v": v.encode("utf-8", "surrogatepass").hex()}
    if isinstance(v, (bytes, bytearray)):
        return {"t": "bytes", "v": bytes(v).hex()}
    if isinstance(v, datetime):
        return {"t": "dt", "v": us_of_datetime(v), "off": int(v.utcoffset().total_seconds() // 60)}
    if isinstance(v, timedelta):
        return {"t": "td", "v": us_of_timedelta(v)}
    if isinstance(v, list):
        return {"t": "list", "v": [state_tree(schema, x) for x in v]}
    if isinstance(v, dict):
        return {"t": "dict", "v": [[state_tree(schema, k), state_tree(schema, x)] for k, x in v.items()]}
    if isinstance(v, bp.Message):
        ci = schema.index_of[type(v)] - NBUILTIN
        c = schema.classes[ci]
        return {"t": "msg", "c": ci,
                "raw": [state_tree(schema, object.__getattribute__(v, f.name)) for f in c.fields],
                "sow": bool(object.__getattribute__(v, "_serialized_on_wire")),
                "unk": bytes(object.__getattribute__(v, "_unknown_fields")).hex(),
                "cur": dict(object.__getattribute__(v, "_group_current"))}
    raise Unmodellable(type(v))


def rebuild(schema, t):
    """the real object / value with exactly that raw state"""
    k = t["t"]
    if k == "ph":
        return bp.PLACEHOLDER
    if k == "none":
        return None
    if k in ("bool", "int"):
        return t["v"]
    if k == "enum":
        return schema.pyenums[t["e"]].try_value(t["v"])
    if k == "float":
        return struct.unpack("<d", struct.pack("<Q", t["v"]))[0]
    if k == "str":
        return bytes.fromhex(t["v"]).decode("utf-8", "surrogatepass")
    if k == "bytes":
        return bytes.fromhex(t["v"])
    if k == "dt":
        return (EPOCH + timedelta(microseconds=t["v"])).astimezone(timezone(timedelta(minutes=t.get("off", 0))))
    if k == "td":
        return timedelta(microseconds=t["v"])
    if k == "list":
        return [rebuild(schema, x) for x in t["v"]]
    if k == "dict":
        return {rebuild(schema, a): rebuild(schema, b) for a, b in t["v"]}
    if k == "msg":
        c = schema.classes[t["c"]]
        m = c.py()
        for f, r in zip(c.fields, t["raw"]):
            object.__setattr__(m, f.name, rebuild(schema, r))
        m.__dict__["_serialized_on_wire"] = t["sow"]
        m.__dict__["_unknown_fields"] = bytes.fromhex(t["unk"])
        m.__dict__["_group_current"] = dict(t["cur"])
        return m
    raise ValueError(k)


def shrink_tree(schema, tree, still_fails, budget=200):
    """greedy delta-debugging on a message state tree: reset attributes to PLACEHOLDER / None, shorten containers,
    recurse into nested messages; keeps a candidate whenever still_fails(candidate) is true"""
    import copy as _copy
    calls = [0]

    def ok(t):
        calls[0] += 1
        if calls[0] > budget:
            return False
        try:
            return bool(still_fails(t))
        except Exception:
            return False

    def cands(t, path=()):
        # yields (description, mutator) pairs; mutator edits a deep copy in place
        if t["t"] == "msg":
            c = schema.classes[t["c"]]
            for i, r in enumerate(t["raw"]):
                if r["t"] not in ("ph", "none"):
                    yield path + (("raw", i),), ({"t": "none"} if c.fields[i].card == "optional" else {"t": "ph"})
                yield from cands(r, path + (("raw", i),))
            if t["unk"]:
                yield path + (("unk",),), ""
        elif t["t"] == "list":
            for i in range(len(t["v"])):
                yield path + (("del", i),), None
            for i, x in enumerate(t["v"]):
                yield from cands(x, path + (("v", i),))
        elif t["t"] == "dict":
            for i in range(len(t["v"])):
                yield path + (("del", i),), None
            for i, (a, b) in enumerate(t["v"]):
                yield from cands(b, path + (("v", i), ("kv", 1)))

    def apply(t, path, new):
        t = _copy.deepcopy(t)
        cur = t
        for step in path[:-1]:
            if step[0] == "raw":
                cur = cur["raw"][step[1]]
            elif step[0] == "v":
                cur = cur["v"][step[1]]
            elif step[0] == "kv":
                cur = cur[step[1]]
        last = path[-1]
        if last[0] == "raw":
            cur["raw"][last[1]] = new
        elif last[0] == "unk":
            cur["unk"] = ""
        elif last[0] == "del":
            del cur["v"][last[1]]
        return t

    changed = True
    while changed and calls[0] <= budget:
        changed = False
        for path, new in list(cands(tree)):
            try:
                cand = apply(tree, path, new)
            except Exception:
                continue
            if ok(cand):
                tree = cand
                changed = True
                break
    return tree
