#!/venv/bin/python
"""C16 source-translation tie: translate the CURRENT source text of the varint primitives of
${VERIF_REPO:-/repo}/src/betterproto/__init__.py into Gallina (coq/gen/C16Src.v), mechanically, with Python's `ast`.

The output is proved extensionally equal to the hand-written model (coq/Proofs/C16Src*.v, coq/Properties/C16Src.v).
The translator is FAIL-CLOSED: anything outside the subset below is rejected with a message naming the construct
(exit status 3).  Two parts are translated independently: "varint" (the five functions) and "zigzag" (two expressions);
a rejected part leaves NO definition in coq/gen/C16Src.v, only `src_<part>_translated := false`, so its proof file
cannot compile against stale or guessed definitions; an unreadable / unparsable source leaves a file that does not compile.  A rejection is NOT a verdict about the property: harness/props/c16.py records "source-translation tie
did not hold" and the sampled correspondence + oracles decide.

    gen_c16_src.py             translate and (re)write coq/gen/C16Src.v (only when the content changed)
    gen_c16_src.py --dry-run   translate, print the verdict, write nothing (used by the check to report the reason)
    gen_c16_src.py --print     translate and print the Gallina text to stdout, write nothing
    gen_c16_src.py --selftest  run the translator on small synthetic functions: each construct outside the subset must be
                               rejected with the expected message, the in-subset ones accepted (writes nothing)

ACCEPTED PYTHON SUBSET  (target vocabulary: coq/Model/C16SrcLib.v; Python int = Z, bytes = list byte)
-----------------------------------------------------------------------------------------------------------------
Module level (checked, never executed):
  * the functions ROOTS below and every module-level function they call (no recursion), each defined exactly once at
    top level, not decorated, not async, positional parameters only, no defaults, and never re-bound anywhere at module
    level; `BytesIO` bound by `from io import BytesIO`, `count` by `from itertools import count`, `math` by
    `import math`; the builtins used (len, int, ValueError, EOFError ...) not shadowed at module level.
  * exception classes: ValueError EOFError OverflowError TypeError KeyError AttributeError, or a module-level class
    with a single such base (transitively) and a body of docstring / pass only.  Only the CLASS is kept
    (Err EValue / EEof / ...); message arguments must be string literals or f-strings over plain names and are dropped.
Parameters: annotated `int`, `bytes`, "SupportsWrite[bytes]" (writable stream = the bytes written so far) or
  "SupportsRead[bytes]" (readable stream = the bytes not yet consumed).  A function with stream parameters returns its
  Python result paired with the final value of each stream parameter; on an exception the stream state is dropped.
Statements:
  * `x = e`, `x, y = e` (e a tuple-valued call), `x op= e`; a variable never changes its type.
  * `if / elif / else`.  Either one side always ends in return / raise (the rest of the block continues the other side)
    or both sides fall through, in which case neither may contain `return`.
  * `while c:` (no else / break / continue) -> a fuelled recursive function over the tuple of ALL variables bound at loop
    entry; variables first bound inside the body are local to one iteration.  `while True:` and
    `for x in count(<int literal>, <int literal>):` -> the same without a fall-through exit (x joins the loop state and
    may not be assigned in the body).  Out of fuel = Err EFuel (proved unreachable in Proofs/C16Src.v).
  * `return e`, `return e1, e2`, falling off the end (returns None = tt), `raise E(msg)`, `raise E`, `pass`, docstrings;
    E an exception class, a conditional expression over classes `(E1 if c else E2)`, or a variable assigned one
    (`cls = E1 if c else E2; raise cls(msg)`); classes are values of type errkind and can only be assigned and raised.
  * `with BytesIO() as s:` (fresh writable stream) / `with BytesIO(e) as s:` (fresh readable stream over bytes e);
    s is out of scope after the block (closing is not modelled).
  * effectful calls, ONLY as a whole statement or as the whole right-hand side of an assignment, streams passed as plain
    names: `s.write(e)`, `s.read(<non-negative int literal>)`, `s.getvalue()` (only a `with BytesIO()` stream),
    `s.seek(e)` (only as the first operation on a `with BytesIO(e)` stream), `f(args)` for a translated function f.
Expressions (pure; the ones that can raise are hoisted into the error monad in evaluation order):
  * int literals, bytes literals, names, `True`/`False` only as a `while` test
  * `+ - * & | ^`, unary `- ~`, `<< >>` (by a non-negative literal: Z.shiftl/Z.shiftr; otherwise py_lshift / py_rshift,
    which raise ValueError on a negative count), `// %` by a non-zero literal, `**` with a non-negative literal exponent,
    bytes `+` bytes
  * one comparison `< <= > >= == !=` between ints, `==`/`!=` between bytes; `not`, `and`, `or` (operands without
    hoisted operations); `a if c else b` (likewise); truthiness of int / bytes in tests
  * `len(b)`, `int(i)`, `i.bit_length()`, `i.to_bytes(<n literal>, "little")` (OverflowError outside 0..256^n-1),
    `int.from_bytes(b, "little")` / `byteorder="little"`, `math.ceil(i / <positive literal>)` (exact ceiling; the float
    division is assumed exact, see the evidence's assumptions)
Everything else is REJECTED: other statements (try, assert, del, global, nested def, class, match, for over anything
else, break, continue, ...), subscripts, slices, attribute access, comprehensions, lambdas, floats, strings as values,
chained comparisons, keyword / star arguments, calls of anything not listed.
"""
import ast
import os
import sys

REPO = os.environ.get("VERIF_REPO", "/repo")
SRC_REL = os.path.join("src", "betterproto", "__init__.py")
OUT = os.path.join(os.path.dirname(os.path.abspath(__file__)), "..", "coq", "gen", "C16Src.v")

ROOTS = ["dump_varint", "encode_varint", "size_varint", "load_varint", "decode_varint"]
# expression fragments: (Gallina name, enclosing function, how to find the expression)
FRAGMENTS = ["zigzag", "unzigzag"]

BUILTIN_EXC = {"ValueError": "EValue", "EOFError": "EEof", "OverflowError": "EOverflow", "TypeError": "EType",
               "KeyError": "EKey", "AttributeError": "EAttribute"}
COQ_TYPE = {"int": "Z", "bytes": "list byte", "bool": "bool", "none": "unit", "wstream": "list byte", "rstream": "list byte",
            "exc": "errkind"}


class Reject(Exception):
    pass


def where(node):
    return f"line {getattr(node, 'lineno', '?')}"


def reject(node, what):
    raise Reject(f"{where(node)}: {what}")


def coq_type(t):
    if isinstance(t, tuple):
        return "(" + " * ".join(coq_type(x) for x in t[1]) + ")"
    return COQ_TYPE[t]


def mangle(name):
    return "v_" + name


def tuple_term(items):
    return items[0] if len(items) == 1 else "(" + ", ".join(items) + ")"


def int_literal(e):
    """value of an int literal (optionally negated), else None"""
    if isinstance(e, ast.Constant) and type(e.value) is int:
        return e.value
    if isinstance(e, ast.UnaryOp) and isinstance(e.op, ast.USub) and isinstance(e.operand, ast.Constant) and type(e.operand.value) is int:
        return -e.operand.value
    return None


def zlit(n):
    return str(n) if n >= 0 else f"({n})"


def wrap_binds(binds, body):
    for pat, m in reversed(binds):
        body = f"bind ({m}) (fun {pat} =>\n{body})"
    return body


class FuncInfo:
    def __init__(self, name):
        self.name = name
        self.params = []        # [(python name, type)]
        self.streams = []       # python names of stream parameters, in order
        self.ret = None         # python-level return type
        self.uses_fuel = False
        self.text = ""

    @property
    def coq_name(self):
        return "src_" + self.name

    def result_type(self):
        """type of the value inside `result`: the Python result, paired with the final stream parameters"""
        ts = [self.ret] + [dict(self.params)[s] for s in self.streams]
        return ts[0] if len(ts) == 1 else ("tuple", ts)


class Translator:
    def __init__(self, source):
        self.tree = ast.parse(source)
        self.funcs = {}
        self.classes = {}
        self.done = {}          # name -> FuncInfo
        self.order = []
        self.in_progress = []
        self.index_module()

    # ------------------------------------------------------------------ module-level checks
    def index_module(self):
        bound = {}
        self.imports = {}
        for node in self.tree.body:
            if isinstance(node, (ast.FunctionDef, ast.AsyncFunctionDef)):
                bound.setdefault(node.name, []).append(node)
                if isinstance(node, ast.FunctionDef):
                    self.funcs.setdefault(node.name, []).append(node)
            elif isinstance(node, ast.ClassDef):
                bound.setdefault(node.name, []).append(node)
                self.classes.setdefault(node.name, []).append(node)
            elif isinstance(node, ast.Import):
                for a in node.names:
                    nm = a.asname or a.name.split(".")[0]
                    bound.setdefault(nm, []).append(node)
                    self.imports[nm] = ("import", a.name, a.asname)
            elif isinstance(node, ast.ImportFrom):
                for a in node.names:
                    nm = a.asname or a.name
                    bound.setdefault(nm, []).append(node)
                    self.imports[nm] = ("from", node.module, a.name, node.level)
            else:
                # any other module-level statement (assignments, if / try blocks ...): every name it stores, defines or imports
                for sub in ast.walk(node):
                    if isinstance(sub, ast.Name) and isinstance(sub.ctx, (ast.Store, ast.Del)):
                        bound.setdefault(sub.id, []).append(sub)
                    elif isinstance(sub, (ast.FunctionDef, ast.AsyncFunctionDef, ast.ClassDef)):
                        bound.setdefault(sub.name, []).append(sub)
                    elif isinstance(sub, (ast.Import, ast.ImportFrom)):
                        for a in sub.names:
                            bound.setdefault(a.asname or a.name.split(".")[0], []).append(sub)
        self.bound = bound
        # functions may also be re-bound from inside other functions through `global`
        for sub in ast.walk(self.tree):
            if isinstance(sub, ast.Global):
                for nm in sub.names:
                    bound.setdefault(nm, []).append(sub)

    def require_unshadowed(self, node, name):
        if name in self.bound:
            reject(node, f"builtin `{name}` is re-bound at module level")

    def require_import(self, node, name, kind):
        want = {"BytesIO": ("from", "io", "BytesIO", 0), "count": ("from", "itertools", "count", 0), "math": ("import", "math", None)}[name]
        if self.imports.get(name) != want or len(self.bound.get(name, [])) != 1:
            reject(node, f"name `{name}` is not bound exactly once by the expected top-level import ({' '.join(str(x) for x in want)})")

    def exc_kind(self, node):
        if not isinstance(node, ast.Name):
            reject(node, f"exception class expression {ast.dump(node)[:80]} is not a plain name")
        seen = []
        name = node.id
        while True:
            if name in seen:
                reject(node, f"cyclic exception class `{name}`")
            seen.append(name)
            if name in BUILTIN_EXC and name not in self.bound:
                return BUILTIN_EXC[name]
            defs = self.classes.get(name, [])
            if len(defs) != 1 or len(self.bound.get(name, [])) != 1:
                reject(node, f"exception class `{name}` is not a known builtin or a module-level class defined exactly once")
            c = defs[0]
            if c.decorator_list or c.keywords or len(c.bases) != 1 or not isinstance(c.bases[0], ast.Name):
                reject(c, f"exception class `{name}` must have exactly one named base, no decorators / keywords")
            for st in c.body:
                if isinstance(st, ast.Pass) or (isinstance(st, ast.Expr) and isinstance(st.value, ast.Constant) and isinstance(st.value.value, str)):
                    continue
                reject(st, f"exception class `{name}` has a body other than docstring / pass")
            name = c.bases[0].id

    # ------------------------------------------------------------------ functions
    def param_type(self, arg):
        a = arg.annotation
        if a is None:
            reject(arg, f"parameter `{arg.arg}` has no annotation")
        txt = a.value if isinstance(a, ast.Constant) and isinstance(a.value, str) else ast.unparse(a)
        txt = txt.replace(" ", "")
        table = {"int": "int", "bytes": "bytes", "SupportsWrite[bytes]": "wstream", "SupportsRead[bytes]": "rstream"}
        if txt not in table:
            reject(arg, f"parameter annotation `{txt}` of `{arg.arg}`")
        return table[txt]

    def function(self, name, at):
        if name in self.done:
            return self.done[name]
        if name in self.in_progress:
            reject(at, f"recursive call of `{name}`")
        defs = self.funcs.get(name, [])
        if len(defs) != 1 or len(self.bound.get(name, [])) != 1:
            reject(at, f"function `{name}` is not defined exactly once at module level (or is re-bound)")
        fd = defs[0]
        if fd.decorator_list:
            reject(fd, f"decorated function `{name}`")
        a = fd.args
        if a.posonlyargs or a.vararg or a.kwonlyargs or a.kw_defaults or a.kwarg or a.defaults:
            reject(fd, f"function `{name}` has non-plain parameters (defaults / * / ** / keyword-only / positional-only)")
        info = FuncInfo(name)
        info.params = [(x.arg, self.param_type(x)) for x in a.args]
        if len({p for p, _ in info.params}) != len(info.params):
            reject(fd, "duplicate parameter names")
        info.streams = [p for p, t in info.params if t in ("wstream", "rstream")]
        self.in_progress.append(name)
        ft = FuncTranslator(self, info, fd)
        ft.run()
        self.in_progress.pop()
        self.done[name] = info
        self.order.append(info)
        return info


class FuncTranslator:
    """two passes over the body: the first finds the return type and whether fuel is needed, the second emits"""

    def __init__(self, mod, info, fd):
        self.mod = mod
        self.info = info
        self.fd = fd

    def run(self):
        info = self.info
        self.ret = None
        for self.final in (False, True):
            self.loops = []
            self.nloops = 0
            self.ntmp = 0
            self.local_w = set()      # `with BytesIO()` streams (getvalue allowed)
            env = {p: t for p, t in info.params}
            self.fresh = set()        # `with BytesIO(e)` streams on which nothing has been done yet (seek allowed)
            self.ret_wrap = lambda t: f"Ok ({t})"
            body = self.block(self.fd.body, env, self.fall_off_end)
            if self.ret is None:
                reject(self.fd, f"function `{info.name}` has no path that returns")
            info.ret = self.ret
        self.check_return_annotation()
        fuel = "(fuel : nat) " if info.uses_fuel else ""
        params = " ".join(f"({mangle(p)} : {coq_type(t)})" for p, t in info.params)
        text = "".join(self.loops)
        text += (f"Definition {info.coq_name} {fuel}{params}\n  : result ({coq_type(info.result_type())}) :=\n{body}.\n")
        info.text = text

    def check_return_annotation(self):
        r = self.fd.returns
        if r is None:
            return
        txt = (r.value if isinstance(r, ast.Constant) and isinstance(r.value, str) else ast.unparse(r)).replace(" ", "")

        def show(t):
            if isinstance(t, tuple):
                return "Tuple[" + ",".join(show(x) for x in t[1]) + "]"
            return {"none": "None"}.get(t, t)
        if txt != show(self.ret):
            reject(self.fd, f"return annotation `{txt}` of `{self.info.name}` differs from the inferred type `{show(self.ret)}`")

    # ------------------------------------------------------------------ helpers
    def tmp(self):
        self.ntmp += 1
        return f"t{self.ntmp}"

    def set_ret(self, node, t):
        if self.ret is None:
            self.ret = t
        elif self.ret != t:
            reject(node, f"return types differ: {self.ret} and {t}")

    def result_term(self, val, env):
        items = [val] + [mangle(s) for s in self.info.streams]
        for s in self.info.streams:
            if s not in env:
                reject(self.fd, f"stream parameter `{s}` out of scope at a return")
        return tuple_term(items)

    def fall_off_end(self, env):
        self.set_ret(self.fd, "none")
        return self.ret_wrap(self.result_term("tt", env))

    def lookup(self, node, env):
        if node.id not in env:
            reject(node, f"name `{node.id}` is not a variable that is definitely bound here")
        return env[node.id]

    def bind_var(self, node, env, name, t):
        if name in env and env[name] != t:
            reject(node, f"variable `{name}` changes type from {env[name]} to {t}")
        if name in self.loop_vars:
            reject(node, f"assignment to the `for` variable `{name}` inside its loop")
        env = dict(env)
        env[name] = t
        return env

    loop_vars = ()

    # ------------------------------------------------------------------ termination analysis
    def terminates(self, stmts):
        for i, s in enumerate(stmts):
            if self.stmt_terminates(s):
                if i + 1 < len(stmts):
                    reject(stmts[i + 1], "unreachable statement after return / raise / endless loop")
                return True
        return False

    def stmt_terminates(self, s):
        if isinstance(s, (ast.Return, ast.Raise)):
            return True
        if isinstance(s, ast.If):
            return self.terminates(s.body) and self.terminates(s.orelse)
        if isinstance(s, ast.With):
            return self.terminates(s.body)
        if isinstance(s, ast.For):
            return True     # only `for x in count(..)` without break is accepted
        if isinstance(s, ast.While):
            return isinstance(s.test, ast.Constant) and s.test.value is True
        return False

    @staticmethod
    def contains_return(stmts):
        return any(isinstance(n, ast.Return) for s in stmts for n in ast.walk(s))

    @staticmethod
    def assigned_names(stmts, env):
        """names (re)bound somewhere in stmts: assignment targets, and streams touched by a method call or passed to a call"""
        out = []
        for s in stmts:
            for n in ast.walk(s):
                if isinstance(n, ast.Name) and isinstance(n.ctx, ast.Store) and n.id not in out:
                    out.append(n.id)
                if isinstance(n, ast.Call):
                    cands = list(n.args)
                    if isinstance(n.func, ast.Attribute):
                        cands.append(n.func.value)
                    for a in cands:
                        if isinstance(a, ast.Name) and env.get(a.id) in ("wstream", "rstream") and a.id not in out:
                            out.append(a.id)
        return out

    # ------------------------------------------------------------------ statements
    def block(self, stmts, env, k):
        if not stmts:
            return k(env)
        s, rest = stmts[0], stmts[1:]
        cont = lambda e: self.block(rest, e, k)    # noqa: E731
        if isinstance(s, ast.Pass):
            return cont(env)
        if isinstance(s, ast.Expr):
            if isinstance(s.value, ast.Constant) and isinstance(s.value.value, str):
                return cont(env)                   # docstring
            if isinstance(s.value, ast.Call):
                return self.effect_call(s.value, env, None, cont, s)
            reject(s, f"expression statement {type(s.value).__name__}")
        if isinstance(s, ast.Assign):
            if len(s.targets) != 1:
                reject(s, "chained assignment")
            return self.assign(s, s.targets[0], s.value, env, cont)
        if isinstance(s, ast.AugAssign):
            if not isinstance(s.target, ast.Name):
                reject(s, "augmented assignment to something other than a name")
            load = ast.copy_location(ast.Name(id=s.target.id, ctx=ast.Load()), s.target)
            val = ast.copy_location(ast.BinOp(left=load, op=s.op, right=s.value), s)
            return self.assign(s, s.target, val, env, cont)
        if isinstance(s, ast.Return):
            if rest:
                reject(rest[0], "unreachable statement after return")
            return self.do_return(s, env)
        if isinstance(s, ast.Raise):
            if rest:
                reject(rest[0], "unreachable statement after raise")
            return self.do_raise(s, env)
        if isinstance(s, ast.If):
            return self.do_if(s, rest, env, k)
        if isinstance(s, ast.While):
            return self.do_loop(s, rest, env, k)
        if isinstance(s, ast.For):
            return self.do_loop(s, rest, env, k)
        if isinstance(s, ast.With):
            return self.do_with(s, env, cont)
        reject(s, f"statement `{type(s).__name__}`")

    def assign(self, s, target, value, env, cont):
        if isinstance(value, ast.Call) and self.is_effectful(value, env):
            return self.effect_call(value, env, target, cont, s)
        if not isinstance(target, ast.Name):
            reject(s, "assignment target other than a name (tuple targets only for tuple-valued calls)")
        binds, term, t = self.expr(value, env)
        if t not in ("int", "bytes", "bool", "exc"):
            reject(s, f"assignment of a value of type {t}")
        env2 = self.bind_var(s, env, target.id, t)
        return wrap_binds(binds, f"let {mangle(target.id)} := {term} in\n{cont(env2)}")

    def do_return(self, s, env):
        if s.value is None:
            self.set_ret(s, "none")
            return self.ret_wrap(self.result_term("tt", env))
        if isinstance(s.value, ast.Tuple):
            binds, terms, types = [], [], []
            for e in s.value.elts:
                b, tm, t = self.expr(e, env)
                if t not in ("int", "bytes", "bool"):
                    reject(s, f"tuple component of type {t}")
                binds += b
                terms.append(tm)
                types.append(t)
            self.set_ret(s, ("tuple", types))
            return wrap_binds(binds, self.ret_wrap(self.result_term("(" + ", ".join(terms) + ")", env)))
        if isinstance(s.value, ast.Call) and self.is_effectful(s.value, env):
            name = "ret"
            tgt = ast.copy_location(ast.Name(id="@ret", ctx=ast.Store()), s)

            def after(env2):
                self.set_ret(s, env2["@ret"])
                return self.ret_wrap(self.result_term(mangle("@ret").replace("@", "_"), env2))
            return self.effect_call(s.value, env, tgt, after, s)
        binds, term, t = self.expr(s.value, env)
        if t not in ("int", "bytes", "bool"):
            reject(s, f"return of a value of type {t}")
        self.set_ret(s, t)
        return wrap_binds(binds, self.ret_wrap(self.result_term(term, env)))

    def do_raise(self, s, env):
        if s.exc is None or s.cause is not None:
            reject(s, "bare `raise` / `raise ... from ...`")
        e = s.exc
        if isinstance(e, ast.Name) and e.id not in env:
            return f"Err {self.mod.exc_kind(e)}"
        if not isinstance(e, ast.Call) or e.keywords:
            reject(s, "raise of something other than ExceptionClass(message...)")
        for a in e.args:
            ok = isinstance(a, ast.Constant) and isinstance(a.value, str)
            if isinstance(a, ast.JoinedStr):
                ok = all((isinstance(v, ast.Constant) and isinstance(v.value, str)) or
                         (isinstance(v, ast.FormattedValue) and isinstance(v.value, ast.Name) and v.format_spec is None
                          and (self.lookup(v.value, env) in ("int", "bytes", "bool")))
                         for v in a.values)
            if not ok:
                reject(a, "exception argument other than a string literal / f-string over plain variables")
        binds, term, t = self.expr(e.func, env)
        if t != "exc":
            reject(s, f"raise of a call of something that is not an exception class ({t})")
        if binds:
            reject(s, "raising operation inside an exception class expression")
        return f"Err {term}"

    def do_if(self, s, rest, env, k):
        binds, c = self.cond(s.test, env)
        ta, tb = self.terminates(s.body), self.terminates(s.orelse)
        if ta or tb:
            # the rest of the block continues the side that falls through (both sides may also end)
            a = self.block(s.body, env, (lambda e: reject(s, "internal: fall-through of a terminating branch")) if ta
                           else (lambda e: self.block(rest, e, k)))
            if ta and tb and rest:
                reject(rest[0], "unreachable statement after an if whose branches both end")
            b = self.block(s.orelse, env, (lambda e: reject(s, "internal: fall-through of a terminating branch")) if tb
                           else (lambda e: self.block(rest, e, k)))
            return wrap_binds(binds, f"if {c}\nthen {a}\nelse {b}")
        if self.contains_return(s.body) or self.contains_return(s.orelse):
            reject(s, "if statement whose branches both may fall through and one of which contains `return`")
        # join: the variables (re)bound on either side and bound on both exits
        out = {}

        def grab(which):
            def kk(e):
                out[which] = e
                return "@JOIN@"
            return kk
        a = self.block(s.body, env, grab("a"))
        b = self.block(s.orelse, env, grab("b"))
        if "a" not in out or "b" not in out:
            reject(s, "internal: a branch of a joining if did not fall through")
        ea, eb = out["a"], out["b"]
        names = self.assigned_names(s.body, env) + self.assigned_names(s.orelse, env)
        joined = []
        for n in names:
            if n in joined or n not in ea or n not in eb:
                continue
            if ea[n] != eb[n]:
                reject(s, f"variable `{n}` has different types after the two branches")
            joined.append(n)
        env2 = dict(env)
        for n in joined:
            env2[n] = ea[n]
        # a variable bound before the `if` stays; one bound on one side only is not definitely bound afterwards
        if not joined:
            reject(s, "if statement without effect on any variable")
        tup = tuple_term([mangle(n) for n in joined])
        a = a.replace("@JOIN@", f"Ok {tup}")
        b = b.replace("@JOIN@", f"Ok {tup}")
        pat = mangle(joined[0]) if len(joined) == 1 else "'" + tup
        # local streams keep their static flags conservatively
        self.fresh -= set(joined)
        return wrap_binds(binds, f"bind (if {c}\nthen {a}\nelse {b}) (fun {pat} =>\n{self.block(rest, env2, k)})")

    def do_with(self, s, env, cont):
        if len(s.items) != 1 or s.items[0].optional_vars is None or not isinstance(s.items[0].optional_vars, ast.Name):
            reject(s, "`with` other than `with BytesIO(...) as name`")
        ce, name = s.items[0].context_expr, s.items[0].optional_vars.id
        if not (isinstance(ce, ast.Call) and isinstance(ce.func, ast.Name) and ce.func.id == "BytesIO" and not ce.keywords and len(ce.args) <= 1):
            reject(s, "`with` context other than BytesIO() / BytesIO(bytes)")
        self.mod.require_import(ce, "BytesIO", "from")
        if name in env:
            reject(s, f"`with` re-binds the variable `{name}`")
        if ce.args:
            binds, term, t = self.expr(ce.args[0], env)
            if t != "bytes":
                reject(ce, f"BytesIO() over a value of type {t}")
            env2 = self.bind_var(s, env, name, "rstream")
            self.fresh.add(name)
        else:
            binds, term = [], "[]"
            env2 = self.bind_var(s, env, name, "wstream")
            self.local_w.add(name)

        def after(e):
            e = dict(e)
            e.pop(name, None)
            self.fresh.discard(name)
            self.local_w.discard(name)
            return cont(e)
        return wrap_binds(binds, f"let {mangle(name)} := {term} in\n{self.block(s.body, env2, after)}")

    # ------------------------------------------------------------------ loops
    def do_loop(self, s, rest, env, k):
        if s.orelse:
            reject(s, "loop with an else clause")
        for n in ast.walk(s):
            if isinstance(n, (ast.Break, ast.Continue)):
                reject(n, f"`{type(n).__name__.lower()}`")
        info = self.info
        info.uses_fuel = True
        self.nloops += 1
        lname = f"{info.coq_name}_loop{self.nloops}"
        state = list(env)
        env_in = dict(env)
        step = None
        pre = ""
        if isinstance(s, ast.For):
            it = s.iter
            if not (isinstance(s.target, ast.Name) and isinstance(it, ast.Call) and isinstance(it.func, ast.Name) and it.func.id == "count"
                    and not it.keywords and len(it.args) == 2 and all(int_literal(a) is not None for a in it.args)):
                reject(s, "`for` other than `for name in count(<int literal>, <int literal>)`")
            self.mod.require_import(it, "count", "from")
            var = s.target.id
            start, step = int_literal(it.args[0]), int_literal(it.args[1])
            env_in = self.bind_var(s, env, var, "int")
            if var not in state:
                state.append(var)
            pre = f"let {mangle(var)} := {zlit(start)} in\n"
            endless = True
            test = None
        else:
            endless = isinstance(s.test, ast.Constant) and s.test.value is True
            test = None if endless else s.test
        if endless and rest:
            reject(rest[0], "unreachable statement after an endless loop")
        if not state:
            reject(s, "loop without any variable in scope")
        S = "(" + " * ".join(coq_type(env_in[v]) for v in state) + ")" if len(state) > 1 else coq_type(env_in[state[0]])
        st_tuple = lambda: tuple_term([mangle(v) for v in state])     # noqa: E731
        R = coq_type(info.result_type()) if self.final else "_"
        # body: return inside an endless loop yields the function result directly; inside a `while c` loop it is tagged
        saved = (self.ret_wrap, self.loop_vars, set(self.fresh))
        outer_wrap = self.ret_wrap
        self.ret_wrap = (lambda t: f"Ok ({t})") if endless else (lambda t: f"Ok (Return ({t}))")
        if isinstance(s, ast.For):
            self.loop_vars = tuple(self.loop_vars) + (s.target.id,)
        self.fresh = set()       # no seek inside loops

        def again(e):
            for v in state:
                if e.get(v) != env_in[v]:
                    reject(s, f"loop variable `{v}` is not bound with the same type at the end of the body")
            items = [mangle(v) for v in state]
            if step is not None:
                i = state.index(s.target.id)
                items[i] = f"{items[i]} + {zlit(step)}"
            return f"{lname} fuel' {tuple_term(items)}"
        body = self.block(s.body, env_in, again)
        self.ret_wrap, self.loop_vars, self.fresh = saved
        self.fresh -= set(state)
        pat = mangle(state[0]) if len(state) == 1 else "'" + st_tuple()
        if endless:
            rtype = f"result ({R})"
            inner = body
        else:
            rtype = f"result (flow ({S}) ({R}))"
            binds, c = self.cond(test, env_in)
            inner = wrap_binds(binds, f"if {c}\nthen {body}\nelse Ok (Fall {st_tuple()})")
        self.loops.append(
            f"Fixpoint {lname} (fuel : nat) (st : {S})\n  : {rtype} :=\n"
            f"match fuel with\n| O => Err EFuel\n| S fuel' =>\nlet {pat} := st in\n{inner}\nend.\n\n")
        call = f"{lname} fuel {st_tuple()}"
        if endless:
            if outer_wrap("@") == "Ok (@)":
                return pre + call
            r = self.tmp()
            return pre + f"bind ({call}) (fun {r} =>\n{outer_wrap(r)})"
        env_out = {v: env_in[v] for v in state}
        r = self.tmp()
        return pre + (f"bind ({call}) (fun fl =>\nmatch fl with\n| Fall {st_tuple()} =>\n{self.block(rest, env_out, k)}\n"
                      f"| Return {r} => {outer_wrap(r)}\nend)")

    # ------------------------------------------------------------------ effectful calls
    def is_effectful(self, call, env):
        f = call.func
        if isinstance(f, ast.Attribute) and isinstance(f.value, ast.Name) and env.get(f.value.id) in ("wstream", "rstream"):
            return True
        if isinstance(f, ast.Name) and f.id in self.mod.funcs and f.id not in env:
            return True
        return False

    def effect_call(self, call, env, target, cont, s):
        """call as a whole statement (target None) or as the whole right-hand side of `target = call`"""
        if call.keywords or any(isinstance(a, ast.Starred) for a in call.args):
            reject(call, "keyword / star arguments")
        f = call.func

        def bind_result(env, t, tmpname):
            """bind the Python-level result named tmpname (a Gallina variable) to the target"""
            if target is None:
                return env, ""
            if isinstance(target, ast.Name):
                if t not in ("int", "bytes", "bool") and not (target.id == "@ret"):
                    reject(s, f"assignment of a value of type {t}")
                if target.id == "@ret":
                    e2 = dict(env)
                    e2["@ret"] = t
                    return e2, f"let v__ret := {tmpname} in\n"
                return self.bind_var(s, env, target.id, t), f"let {mangle(target.id)} := {tmpname} in\n"
            if isinstance(target, ast.Tuple) and all(isinstance(x, ast.Name) for x in target.elts):
                if not (isinstance(t, tuple) and len(t[1]) == len(target.elts)):
                    reject(s, f"tuple assignment from a value of type {t}")
                if len({x.id for x in target.elts}) != len(target.elts):
                    reject(s, "repeated name in a tuple target")
                for x, tx in zip(target.elts, t[1]):
                    env = self.bind_var(s, env, x.id, tx)
                return env, f"let '({', '.join(mangle(x.id) for x in target.elts)}) := {tmpname} in\n"
            reject(s, "assignment target other than a name / tuple of names")

        if isinstance(f, ast.Attribute) and isinstance(f.value, ast.Name) and env.get(f.value.id) in ("wstream", "rstream"):
            sname, st = f.value.id, env[f.value.id]
            if sname in self.loop_vars:
                reject(call, "stream used as a `for` variable")
            sv = mangle(sname)
            was_fresh = sname in self.fresh
            self.fresh.discard(sname)
            if f.attr == "write" and st == "wstream" and len(call.args) == 1:
                binds, term, t = self.expr(call.args[0], env)
                if t != "bytes":
                    reject(call, f"write() of a value of type {t}")
                if target is not None:
                    reject(call, "the result of write() is used")
                return wrap_binds(binds, f"let {sv} := py_write {sv} {term} in\n{cont(env)}")
            if f.attr == "read" and st == "rstream" and len(call.args) == 1:
                n = int_literal(call.args[0])
                if n is None or n < 0:
                    reject(call, "read() with an argument other than a non-negative int literal")
                r = self.tmp()
                env2, bt = bind_result(env, "bytes", r)
                return f"let '({r}, {sv}) := py_read {sv} {n}%nat in\n{bt}{cont(env2)}"
            if f.attr == "getvalue" and st == "wstream" and sname in self.local_w and not call.args:
                r = self.tmp()
                env2, bt = bind_result(env, "bytes", r)
                if target is None:
                    reject(call, "getvalue() as a statement")
                return f"let {r} := {sv} in\n{bt}{cont(env2)}"
            if f.attr == "seek" and st == "rstream" and len(call.args) == 1:
                if not was_fresh:
                    reject(call, "seek() other than as the first operation on a `with BytesIO(bytes)` stream")
                if target is not None:
                    reject(call, "the result of seek() is used")
                binds, term, t = self.expr(call.args[0], env)
                if t != "int":
                    reject(call, f"seek() to a value of type {t}")
                return wrap_binds(binds, f"bind (py_seek_fresh {sv} {term}) (fun {sv} =>\n{cont(env)})")
            reject(call, f"stream method `{f.attr}` (on a {st}) with {len(call.args)} argument(s)")
        if isinstance(f, ast.Name) and f.id in self.mod.funcs and f.id not in env:
            callee = self.mod.function(f.id, call)
            if len(call.args) != len(callee.params):
                reject(call, f"call of `{f.id}` with {len(call.args)} arguments")
            binds, terms, outs = [], [], []
            for a, (pn, pt) in zip(call.args, callee.params):
                if pt in ("wstream", "rstream"):
                    if not (isinstance(a, ast.Name) and env.get(a.id) == pt):
                        reject(a, f"stream argument of `{f.id}` is not a plain name of a {pt}")
                    if a.id in outs:
                        reject(a, "the same stream passed twice")
                    self.fresh.discard(a.id)
                    outs.append(a.id)
                    terms.append(mangle(a.id))
                else:
                    b, tm, t = self.expr(a, env)
                    if t != pt:
                        reject(a, f"argument of type {t} for parameter `{pn}` : {pt} of `{f.id}`")
                    binds += b
                    terms.append(f"({tm})")
            if callee.uses_fuel:
                self.info.uses_fuel = True
            r = self.tmp()
            env2, bt = bind_result(env, callee.ret, r)
            if target is not None and callee.ret == "none":
                reject(s, f"the None result of `{f.id}` is used")
            pat = r if not outs else "'(" + ", ".join([r] + [mangle(o) for o in outs]) + ")"
            fuel = " fuel" if callee.uses_fuel else ""
            return wrap_binds(binds, f"bind ({callee.coq_name}{fuel} {' '.join(terms)}) (fun {pat} =>\n{bt}{cont(env2)})")
        reject(call, f"call of `{ast.unparse(f)}` as a statement")

    # ------------------------------------------------------------------ expressions
    def cond(self, e, env):
        """truth value of e in a test: (binds, Gallina bool)"""
        if isinstance(e, ast.UnaryOp) and isinstance(e.op, ast.Not):
            b, c = self.cond(e.operand, env)
            return b, f"negb ({c})"
        binds, term, t = self.expr(e, env)
        if t == "bool":
            return binds, term
        if t == "int":
            return binds, f"py_truthy_int ({term})"
        if t == "bytes":
            return binds, f"py_truthy_bytes ({term})"
        reject(e, f"truth value of a {t}")

    def pure(self, e, env, what):
        binds, term, t = self.expr(e, env)
        if binds:
            reject(e, f"operation that can raise inside {what}")
        return term, t

    def expr(self, e, env):
        """(binds, term, type); binds = [(pattern, monadic term)] hoisted in evaluation order"""
        if isinstance(e, ast.Constant):
            if type(e.value) is int:
                return [], zlit(e.value), "int"
            if type(e.value) is bytes:
                return [], "[" + "; ".join("x%02x" % c for c in e.value) + "]", "bytes"
            reject(e, f"literal {e.value!r}")
        if isinstance(e, ast.Name):
            if e.id not in env and (e.id in BUILTIN_EXC or e.id in self.mod.classes):
                return [], self.mod.exc_kind(e), "exc"       # an exception CLASS used as a value (only to be raised)
            t = self.lookup(e, env)
            if t not in ("int", "bytes", "bool", "exc"):
                reject(e, f"use of the {t} `{e.id}` as a value")
            return [], mangle(e.id), t
        if isinstance(e, ast.UnaryOp):
            if isinstance(e.op, ast.Not):
                b, c = self.cond(e.operand, env)
                return b, f"negb ({c})", "bool"
            b, tm, t = self.expr(e.operand, env)
            if t != "int":
                reject(e, f"unary operator on a {t}")
            if isinstance(e.op, ast.USub):
                return b, f"(- ({tm}))", "int"
            if isinstance(e.op, ast.Invert):
                return b, f"(Z.lnot ({tm}))", "int"
            reject(e, f"unary operator {type(e.op).__name__}")
        if isinstance(e, ast.BinOp):
            return self.binop(e, env)
        if isinstance(e, ast.Compare):
            if len(e.ops) != 1:
                reject(e, "chained comparison")
            b1, l, tl = self.expr(e.left, env)
            b2, r, tr = self.expr(e.comparators[0], env)
            op = type(e.ops[0]).__name__
            if tl == tr == "int":
                table = {"Lt": "({} <? {})", "LtE": "({} <=? {})", "Gt": "({} >? {})", "GtE": "({} >=? {})",
                         "Eq": "({} =? {})", "NotEq": "(negb ({} =? {}))"}
                if op not in table:
                    reject(e, f"comparison {op}")
                return b1 + b2, table[op].format(l, r), "bool"
            if tl == tr == "bytes" and op in ("Eq", "NotEq"):
                c = f"(bytes_eqb {l} {r})"
                return b1 + b2, c if op == "Eq" else f"(negb {c})", "bool"
            reject(e, f"comparison {op} between {tl} and {tr}")
        if isinstance(e, ast.BoolOp):
            terms = []
            for v in e.values:
                tm, t = self.pure(v, env, "and / or")
                if t != "bool":
                    reject(v, f"and / or over a {t} (only comparisons and `not`)")
                terms.append(tm)
            op = "&&" if isinstance(e.op, ast.And) else "||"
            return [], "(" + f" {op} ".join(terms) + ")", "bool"
        if isinstance(e, ast.IfExp):
            bc, c = self.cond(e.test, env)
            a, ta = self.pure(e.body, env, "a conditional expression")
            b, tb = self.pure(e.orelse, env, "a conditional expression")
            if ta != tb:
                reject(e, f"conditional expression with branches of type {ta} and {tb}")
            return bc, f"(if {c} then {a} else {b})", ta
        if isinstance(e, ast.Call):
            return self.call_expr(e, env)
        reject(e, f"expression `{type(e).__name__}`")

    def binop(self, e, env):
        op = type(e.op).__name__
        if op == "Div":
            reject(e, "true division `/` outside math.ceil(int / literal)")
        b1, l, tl = self.expr(e.left, env)
        b2, r, tr = self.expr(e.right, env)
        if tl == tr == "bytes" and op == "Add":
            return b1 + b2, f"({l} ++ {r})", "bytes"
        if not (tl == tr == "int"):
            reject(e, f"operator {op} between {tl} and {tr}")
        simple = {"Add": "({} + {})", "Sub": "({} - {})", "Mult": "({} * {})", "BitAnd": "(Z.land {} {})",
                  "BitOr": "(Z.lor {} {})", "BitXor": "(Z.lxor {} {})"}
        if op in simple:
            return b1 + b2, simple[op].format(l, r), "int"
        lit = int_literal(e.right)
        if op in ("LShift", "RShift"):
            if lit is not None and lit >= 0:
                return b1 + b2, f"(Z.{'shiftl' if op == 'LShift' else 'shiftr'} {l} {lit})", "int"
            t = self.tmp()
            return b1 + b2 + [(t, f"{'py_lshift' if op == 'LShift' else 'py_rshift'} {l} {r}")], t, "int"
        if op in ("FloorDiv", "Mod"):
            if lit is None or lit == 0:
                reject(e, f"{op} by something other than a non-zero int literal")
            return b1 + b2, (f"(py_floordiv {l} {zlit(lit)})" if op == "FloorDiv" else f"(Z.modulo {l} {zlit(lit)})"), "int"
        if op == "Pow":
            if lit is None or lit < 0:
                reject(e, "`**` with an exponent other than a non-negative int literal")
            return b1 + b2, f"(py_pow {l} {lit})", "int"
        reject(e, f"operator {op}")

    def call_expr(self, e, env):
        if e.keywords and not (isinstance(e.func, ast.Attribute) and e.func.attr == "from_bytes"):
            reject(e, "keyword arguments")
        if any(isinstance(a, ast.Starred) for a in e.args):
            reject(e, "star arguments")
        f = e.func
        if self.is_effectful(e, env):
            reject(e, f"effectful call `{ast.unparse(f)}` inside an expression (allowed only as a whole statement / right-hand side)")
        if isinstance(f, ast.Name) and f.id not in env:
            if f.id == "len" and len(e.args) == 1:
                self.mod.require_unshadowed(e, "len")
                b, tm, t = self.expr(e.args[0], env)
                if t != "bytes":
                    reject(e, f"len() of a {t}")
                return b, f"(py_len {tm})", "int"
            if f.id == "int" and len(e.args) == 1:
                self.mod.require_unshadowed(e, "int")
                b, tm, t = self.expr(e.args[0], env)
                if t != "int":
                    reject(e, f"int() of a {t}")
                return b, tm, "int"
        if isinstance(f, ast.Attribute):
            v = f.value
            # int.from_bytes(b, "little") / int.from_bytes(b, byteorder="little")
            if isinstance(v, ast.Name) and v.id == "int" and "int" not in env and f.attr == "from_bytes":
                self.mod.require_unshadowed(e, "int")
                order = None
                if len(e.args) == 2 and not e.keywords:
                    order = e.args[1]
                elif len(e.args) == 1 and len(e.keywords) == 1 and e.keywords[0].arg == "byteorder":
                    order = e.keywords[0].value
                if not (isinstance(order, ast.Constant) and order.value == "little"):
                    reject(e, "int.from_bytes other than (bytes, \"little\") / (bytes, byteorder=\"little\")")
                b, tm, t = self.expr(e.args[0], env)
                if t != "bytes":
                    reject(e, f"int.from_bytes of a {t}")
                return b, f"(py_from_bytes_le {tm})", "int"
            # math.ceil(a / <positive literal>)
            if isinstance(v, ast.Name) and v.id == "math" and "math" not in env and f.attr == "ceil" and len(e.args) == 1:
                self.mod.require_import(e, "math", "import")
                a = e.args[0]
                if not (isinstance(a, ast.BinOp) and isinstance(a.op, ast.Div) and (int_literal(a.right) or 0) > 0):
                    reject(e, "math.ceil of something other than `int expression / positive int literal`")
                b, tm, t = self.expr(a.left, env)
                if t != "int":
                    reject(e, f"math.ceil(x / n) with x a {t}")
                return b, f"(py_ceil_div {tm} {int_literal(a.right)})", "int"
            # methods of an int-valued expression
            if f.attr == "bit_length" and not e.args:
                b, tm, t = self.expr(v, env)
                if t != "int":
                    reject(e, f"bit_length() of a {t}")
                return b, f"(py_bit_length {tm})", "int"
            if f.attr == "to_bytes" and len(e.args) == 2:
                n = int_literal(e.args[0])
                if n is None or n < 0 or not (isinstance(e.args[1], ast.Constant) and e.args[1].value == "little"):
                    reject(e, "to_bytes other than (<non-negative int literal>, \"little\")")
                b, tm, t = self.expr(v, env)
                if t != "int":
                    reject(e, f"to_bytes() of a {t}")
                r = self.tmp()
                return b + [(r, f"py_to_bytes_le {tm} {n}%nat")], r, "bytes"
        reject(e, f"call of `{ast.unparse(f)}`")


# ----------------------------------------------------------------------------------------------- fragments (zig-zag)
def find_fragments(mod):
    """The two zig-zag expressions sit inside the big dispatch functions _preprocess_single / _postprocess_single, which
    are outside the subset.  Located structurally, each as THE expression guarded by a test `<x> in (TYPE_SINT32, TYPE_SINT64)`:
      _preprocess_single : `return encode_varint(<expr over value>)`     -> src_zigzag
      _postprocess_single: `value = <expr over value>`                   -> src_unzigzag
    Returns Gallina text, or raises Reject."""
    out = []

    def sint_test(t):
        return (isinstance(t, ast.Compare) and len(t.ops) == 1 and isinstance(t.ops[0], ast.In) and isinstance(t.comparators[0], ast.Tuple)
                and [getattr(x, "id", None) for x in t.comparators[0].elts] == ["TYPE_SINT32", "TYPE_SINT64"])

    def branches(fn):
        return [n for n in ast.walk(fn) if isinstance(n, ast.If) and sint_test(n.test)]

    class Dummy:
        name = "fragment"
        params = [("value", "int")]
        streams = []
        coq_name = "src_fragment"
        uses_fuel = False

        def result_type(self):
            return "int"

    def translate(e, gname):
        ft = FuncTranslator(mod, Dummy(), None)
        ft.ntmp = 0
        ft.fresh, ft.local_w = set(), set()
        binds, term, t = ft.expr(e, {"value": "int"})
        if t != "int":
            reject(e, f"{gname}: expression of type {t}")
        return f"Definition {gname} (v_value : Z) : result Z :=\n{wrap_binds(binds, f'Ok ({term})')}.\n"

    pre = mod.funcs.get("_preprocess_single", [])
    if len(pre) != 1:
        raise Reject("_preprocess_single is not defined exactly once at module level")
    bs = branches(pre[0])
    if len(bs) != 1 or len(bs[0].body) != 1 or not isinstance(bs[0].body[0], ast.Return):
        raise Reject("_preprocess_single: no unique `in (TYPE_SINT32, TYPE_SINT64)` branch consisting of one return")
    r = bs[0].body[0].value
    if not (isinstance(r, ast.Call) and isinstance(r.func, ast.Name) and r.func.id == "encode_varint" and len(r.args) == 1 and not r.keywords):
        raise Reject("_preprocess_single: the sint branch is not `return encode_varint(<expr>)`")
    out.append(translate(r.args[0], "src_zigzag"))
    # _postprocess_single is a method of Message
    post = [n for c in mod.tree.body if isinstance(c, ast.ClassDef) and c.name == "Message" for n in c.body
            if isinstance(n, ast.FunctionDef) and n.name == "_postprocess_single"]
    if len(post) != 1:
        raise Reject("Message._postprocess_single is not defined exactly once")
    bs = branches(post[0])
    if len(bs) != 1 or len(bs[0].body) != 1 or not isinstance(bs[0].body[0], ast.Assign):
        raise Reject("_postprocess_single: no unique `in (TYPE_SINT32, TYPE_SINT64)` branch consisting of one assignment")
    a = bs[0].body[0]
    if not (len(a.targets) == 1 and isinstance(a.targets[0], ast.Name) and a.targets[0].id == "value"):
        raise Reject("_postprocess_single: the sint branch is not `value = <expr>`")
    out.append(translate(a.value, "src_unzigzag"))
    return "\n".join(out)


# ----------------------------------------------------------------------------------------------- self-test
SELFTEST_HEAD = "import math\nfrom io import BytesIO\nfrom itertools import count\n"
# (function to translate, source, substring expected in the rejection | None = must be accepted)
SELFTEST = [
    ("f", "def f(x: int) -> int:\n    return x + 1\n", None),
    ("f", "def f(x: int) -> int:\n    y = x >> 1\n    while y:\n        y = y - 1\n    return y\n", None),
    ("f", "def f(s: 'SupportsRead[bytes]') -> bytes:\n    b = s.read(2)\n    return b\n", None),
    ("f", "def f(x: int) -> int:\n    try:\n        return x\n    except ValueError:\n        return 0\n", "statement `Try`"),
    ("f", "def f(x: int) -> int:\n    while x:\n        x -= 1\n        break\n    return x\n", "`break`"),
    ("f", "def f(b: bytes) -> int:\n    return b[0]\n", "expression `Subscript`"),
    ("f", "def f(x: int) -> int:\n    return 1 + f(x)\n", "effectful call `f` inside an expression"),
    ("f", "def f(x: int) -> int:\n    y = f(x)\n    return y\n", "recursive call of `f`"),
    ("f", "def f(x) -> int:\n    return 1\n", "has no annotation"),
    ("f", "def f(x: float) -> int:\n    return 1\n", "parameter annotation `float`"),
    ("f", "def f(x: int) -> int:\n    return 0 < x < 3\n", "chained comparison"),
    ("f", "def f(x: int) -> bytes:\n    return x.to_bytes(1, byteorder='little')\n", "keyword arguments"),
    ("f", "def f(x: int) -> int:\n    return x / 2\n", "true division"),
    ("f", "def f(x: int) -> int:\n    return x // 0\n", "non-zero int literal"),
    ("f", "def f(x: int) -> int:\n    if x:\n        y = 1\n    return y\n", "if statement without effect|not a variable that is definitely bound"),
    ("f", "def f(x: int) -> int:\n    for i in range(3):\n        x += i\n    return x\n", "`for` other than"),
    ("f", "def f(x: int) -> int:\n    return x\n    x = 1\n", "unreachable statement"),
    ("f", "def f(x: int) -> int:\n    if x:\n        return 1\n    else:\n        return b''\n", "return types differ"),
    ("f", "def f(x: int) -> bytes:\n    return x\n", "return annotation"),
    ("f", "def f(x: int) -> int:\n    x = b''\n    return 1\n", "changes type"),
    ("f", "def f(x: int) -> int:\n    raise Exception('no')\n", "not a variable that is definitely bound"),
    ("f", "def f(x: int = 0) -> int:\n    return x\n", "non-plain parameters"),
    ("f", "import functools\n@functools.cache\ndef f(x: int) -> int:\n    return x\n", "decorated function"),
    ("f", "def f(x: int) -> int:\n    return x\nf = None\n", "not defined exactly once"),
    ("f", "def len(x):\n    return 0\ndef f(b: bytes) -> int:\n    return len(b)\n", "has no annotation|re-bound"),
    ("f", "def f(s: 'SupportsRead[bytes]') -> int:\n    s.read(1)\n    s.seek(0)\n    return 1\n", "seek() other than as the first operation"),
    ("f", "def f(s: 'SupportsWrite[bytes]') -> bytes:\n    return s.getvalue()\n", "stream method `getvalue`"),
    ("f", "def f(x: int) -> int:\n    return (lambda y: y)(x)\n", "call of `lambda"),
    ("f", "def f(x: int) -> int:\n    return 1.5\n", "literal 1.5"),
    ("f", "def f(x: int) -> int:\n    global G\n    return x\n", "statement `Global`"),
    ("f", "def f(x: int) -> int:\n    return x << x\n", None),       # checked shift: py_lshift
    ("f", "def f(x: int) -> int:\n    return x if x else (x << x)\n", "operation that can raise inside a conditional expression"),
]


def selftest():
    import re
    bad = 0
    for root, src, want in SELFTEST:
        try:
            Translator(SELFTEST_HEAD + src).function(root, ast.parse(""))
            got = None
        except Reject as ex:
            got = str(ex)
        ok = (got is None) if want is None else (got is not None and any(w in got for w in want.split("|")))
        if not ok:
            bad += 1
            print(f"SELFTEST-FAIL: expected {want!r}, got {got!r} for\n{src}")
    print(f"selftest: {len(SELFTEST) - bad}/{len(SELFTEST)} snippets behaved as expected")
    return 1 if bad else 0


# ----------------------------------------------------------------------------------------------- driver
def generate():
    """Returns (Gallina text, {"varint": None | reason, "zigzag": None | reason}).  The two parts are translated
    independently; a rejected part leaves NO definition behind (so its proof file cannot compile against stale or
    guessed definitions) and the flag src_<part>_translated = false."""
    path = os.path.join(REPO, SRC_REL)
    with open(path, encoding="utf-8") as f:
        source = f.read()
    verdict = {"varint": None, "zigzag": None}
    mod = Translator(source)
    out = ["(* GENERATED by harness/gen_c16_src.py from the source text of " + SRC_REL.replace(os.sep, "/") + ". Do not edit.",
           "   Mechanical translation (accepted subset: see the generator). *)",
           "From BP Require Import Base.Prelude Model.C16SrcLib.", ""]

    def note(ex):
        return str(ex).replace("*", "x").replace("(", "[").replace(")", "]")[:600]
    try:
        for r in ROOTS:
            mod.function(r, mod.tree)
        for info in mod.order:
            out.append(f"(* ---- {info.name} ---- *)")
            out.append(info.text)
        out.append("Definition src_varint_translated : bool := true.\n")
    except Reject as ex:
        verdict["varint"] = str(ex)
        out.append("(* varint primitives NOT translated - REJECTED: %s *)" % note(ex))
        out.append("Definition src_varint_translated : bool := false.\n")
    try:
        frag = find_fragments(Translator(source))
        out.append("(* ---- zig-zag expressions of _preprocess_single / _postprocess_single ---- *)")
        out.append(frag)
        out.append("Definition src_zigzag_translated : bool := true.")
    except Reject as ex:
        verdict["zigzag"] = str(ex)
        out.append("(* zig-zag expressions NOT translated - REJECTED: %s *)" % note(ex))
        out.append("Definition src_zigzag_translated : bool := false.")
    return "\n".join(out) + "\n", verdict


def report(verdict):
    for part, why in verdict.items():
        print(f"C16SRC-TRANSLATION-{'OK' if why is None else 'REJECTED'}: {part}" + ("" if why is None else f": {why}"))


def main():
    mode = sys.argv[1] if len(sys.argv) > 1 else ""
    if mode == "--selftest":
        return selftest()
    text, verdict = generate()
    if mode == "--print":
        print(text, end="")
    elif mode != "--dry-run":
        os.makedirs(os.path.dirname(OUT), exist_ok=True)
        old = None
        if os.path.exists(OUT):
            with open(OUT) as f:
                old = f.read()
        if old != text:
            with open(OUT + ".tmp", "w") as f:
                f.write(text)
            os.replace(OUT + ".tmp", OUT)
            print("C16Src.v regenerated")
        else:
            print("C16Src.v unchanged")
    if mode != "--print":
        report(verdict)
    return 3 if any(v is not None for v in verdict.values()) else 0


if __name__ == "__main__":
    try:
        sys.exit(main())
    except Exception as e:  # fail closed: a stale translation must not survive a source that cannot even be read / parsed
        msg = f"{type(e).__name__}: {e}"
        if not (len(sys.argv) > 1 and sys.argv[1] in ("--dry-run", "--print", "--selftest")):
            text = ("(* gen_c16_src.py: source-translation ERROR %s *)\nDefinition translation_failed : False := I.\n"
                    % msg.replace("*", "x").replace("(", "[").replace(")", "]")[:600])
            old = open(OUT).read() if os.path.exists(OUT) else None
            if old != text:
                os.makedirs(os.path.dirname(OUT), exist_ok=True)
                with open(OUT, "w") as f:
                    f.write(text)
        print(f"C16SRC-TRANSLATION-REJECTED: varint: {msg}")
        print(f"C16SRC-TRANSLATION-REJECTED: zigzag: {msg}")
        sys.exit(3)
