"""Spec-level wire tools, independent of betterproto's codec: a record-level reader/writer of the
protobuf wire format and the re-encoders / fault injectors the decode-side checks share
(C01 C02 C08 C10 C17).  A record is (number, wire_type, payload): payload int for varints,
bytes for fixed32/fixed64/length-delimited, list of records for a group."""
from .msggen import enc_varint


class WireError(Exception):
    pass


def read_varint(bs, i):
    shift = val = 0
    start = i
    while True:
        if i >= len(bs):
            raise WireError("eof in varint")
        if i - start >= 10:
            raise WireError("varint too long")
        b = bs[i]
        i += 1
        val |= (b & 0x7F) << shift
        shift += 7
        if not b & 0x80:
            return val, i


def read_records(bs, i=0, end_group=None):
    """the spec's reading of a byte string as a list of records; raises WireError when malformed"""
    out = []
    while i < len(bs):
        tag, i = read_varint(bs, i)
        num, wt = tag >> 3, tag & 7
        if num == 0:
            raise WireError("field number 0")
        if wt == 0:
            v, i = read_varint(bs, i)
            out.append((num, 0, v))
        elif wt == 1:
            if i + 8 > len(bs):
                raise WireError("eof in fixed64")
            out.append((num, 1, bs[i:i + 8]))
            i += 8
        elif wt == 5:
            if i + 4 > len(bs):
                raise WireError("eof in fixed32")
            out.append((num, 5, bs[i:i + 4]))
            i += 4
        elif wt == 2:
            n, i = read_varint(bs, i)
            if i + n > len(bs):
                raise WireError("eof in length-delimited")
            out.append((num, 2, bs[i:i + n]))
            i += n
        elif wt == 3:
            inner, i = read_records(bs, i, end_group=num)
            out.append((num, 3, inner))
        elif wt == 4:
            if end_group == num:
                return out, i
            raise WireError("unmatched end group")
        else:
            raise WireError("wire type %d" % wt)
    if end_group is not None:
        raise WireError("eof in group")
    return (out, i) if end_group is not None else out


def pad_varint(n, pad):
    """a non-minimal encoding of n with `pad` extra bytes (total length <= 10)"""
    b = bytearray(enc_varint(n))
    if pad <= 0 or len(b) + pad > 10:
        return bytes(b)
    b[-1] |= 0x80
    b += bytes([0x80] * (pad - 1)) + b"\x00"
    return bytes(b)


def write_record(rec, rng=None, pad=False):
    num, wt, payload = rec
    p = (lambda n: pad_varint(n, rng.choice([0, 0, 1, 2, 4]))) if (pad and rng) else enc_varint
    tag = p((num << 3) | wt)
    if wt == 0:
        return tag + p(payload)
    if wt in (1, 5):
        return tag + payload
    if wt == 2:
        return tag + p(len(payload)) + payload
    if wt == 3:
        return tag + b"".join(write_record(r, rng, pad) for r in payload) + enc_varint((num << 3) | 4)
    raise ValueError(rec)


def write_records(recs, rng=None, pad=False):
    return b"".join(write_record(r, rng, pad) for r in recs)


VARINT_PACKED = {"enum", "bool", "int32", "int64", "uint32", "uint64", "sint32", "sint64"}
FIXED32_PACKED = {"float", "fixed32", "sfixed32"}
FIXED64_PACKED = {"double", "fixed64", "sfixed64"}


def split_packed(payload, pt):
    """elements of a packed payload as records' payloads (wire type, value)"""
    if pt in VARINT_PACKED:
        out, i = [], 0
        while i < len(payload):
            v, i = read_varint(payload, i)
            out.append((0, v))
        return out
    w = 4 if pt in FIXED32_PACKED else 8
    if len(payload) % w:
        raise WireError("ragged packed payload")
    return [((5 if w == 4 else 1), payload[i:i + w]) for i in range(0, len(payload), w)]


def reencode(recs, cls, rng):
    """one legal alternative encoding of the same message (C02's list): packed <-> unpacked, chunk split,
    stable permutation across different field numbers, varint padding, duplicated singular scalars
    (an earlier, different value first), interleaved unknown fields. `cls` is the msggen.Cls (to know which
    numbers are packable repeated fields / singular scalars). Returns (bytes, set of transformation names)."""
    from . import msggen
    by_num = {f.number: f for f in cls.fields}
    used = set()
    out = []
    for num, wt, payload in recs:
        f = by_num.get(num)
        packable = f is not None and f.card == "repeated" and f.elem.kind in ("scalar", "enum") and f.elem.pt not in ("string", "bytes")
        if packable and wt == 2:
            items = split_packed(payload, f.elem.pt)
            r = rng.random()
            if r < 0.35 and items:
                used.add("unpack")
                out.extend((num, w, v) for w, v in items)
                continue
            if r < 0.7 and len(items) >= 2:
                used.add("chunk-split")
                k = rng.randint(1, len(items) - 1)
                for part in (items[:k], items[k:]):
                    out.append((num, 2, b"".join(enc_varint(v) if w == 0 else v for w, v in part)))
                continue
            if r < 0.8 and items:
                used.add("mixed-packed-unpacked")
                k = rng.randint(0, len(items) - 1)
                for j, (w, v) in enumerate(items):
                    if j == k:
                        out.append((num, w, v))
                    else:
                        out.append((num, 2, enc_varint(v) if w == 0 else v))
                continue
            if r < 0.95 and items and f.elem.pt in VARINT_PACKED:
                # still packed, but the ELEMENTS are non-minimal varints (seeded change C02-2: a one-byte-per-element
                # fast path for packed bool reads 81 00 as [True, False])
                used.add("packed-element-padding")
                out.append((num, 2, b"".join(pad_varint(v, rng.choice([0, 1, 1, 2, 4])) for _, v in items)))
                continue
        if f is not None and f.card == "map" and wt == 2 and rng.random() < 0.5:
            # a map entry is a message {key = 1; value = 2}: its two fields may come in either order, and either may be missing
            # (default) - the reference writes key then value, other writers need not (seeded change C02-6: a fast path that takes
            # the first part for the key)
            try:
                ent = read_records(payload)
                if len(ent) == 2 and {r[0] for r in ent} == {1, 2}:
                    used.add("map-entry-value-first")
                    out.append((num, 2, write_records([ent[1], ent[0]])))
                    continue
            except WireError:
                pass
        if f is not None and f.card in ("plain", "optional") and f.group is None and f.elem.kind == "scalar" \
                and wt in (0, 1, 5) and rng.random() < 0.25:
            used.add("duplicate-singular")
            other = rng.getrandbits(7) if wt == 0 else bytes(rng.getrandbits(8) for _ in range(len(payload)))
            out.append((num, wt, other))
        out.append((num, wt, payload))
    if rng.random() < 0.5 and len(out) > 1:
        # permutation that keeps the relative order of records with the same field number
        # (and of members of the same oneof group, which interact)
        used.add("permute")
        key = {}
        for f in cls.fields:
            key[f.number] = ("g", f.group) if f.group is not None else ("n", f.number)
        buckets = {}
        for r in out:
            buckets.setdefault(key.get(r[0], ("n", r[0])), []).append(r)
        order = [key.get(r[0], ("n", r[0])) for r in out]
        rng.shuffle(order)
        out = [buckets[k].pop(0) for k in order]
    if rng.random() < 0.4:
        used.add("unknown-interleaved")
        known = set(by_num)
        for _ in range(rng.randint(1, 3)):
            unk = read_records(msggen.gen_unknown(rng, known, n=1))
            out[rng.randint(0, len(out)):0] = unk
    pad = rng.random() < 0.4
    if pad:
        used.add("varint-padding")
    return write_records(out, rng, pad), used


def faults(bs, rng, budget=40):
    """malformed variants of a valid encoding: truncations, tag/length corruption, wire-type substitution"""
    out = []
    cuts = list(range(len(bs))) if len(bs) <= budget else sorted(rng.sample(range(len(bs)), budget))
    for k in cuts:
        out.append(("truncate", bs[:k]))
    try:
        recs = read_records(bs)
    except WireError:
        recs = []
    # positions of tags and lengths
    pos, i = [], 0
    for num, wt, payload in recs:
        pos.append(i)
        i += len(write_record((num, wt, payload)))
    for p in pos[:budget // 2]:
        for wt in range(8):
            b = bytearray(bs)
            b[p] = (b[p] & 0xF8) | wt
            if bytes(b) != bs:
                out.append(("wiretype-subst", bytes(b)))
    for _ in range(min(budget // 2, len(bs))):
        b = bytearray(bs)
        p = rng.randrange(len(bs))
        b[p] = rng.choice([0, 0x80, 0xFF, b[p] ^ (1 << rng.randrange(8))])
        out.append(("corrupt-byte", bytes(b)))
    return out
