"""Grammar-based .proto generator for C03 (translation validation of the protoc plugin).

A *schema* is a small set of .proto files (1-3) in related packages (same / child / parent / cousin /
none), with nested messages and enums, all 15 scalar kinds, enums with negative and aliased numbers,
maps over every legal key kind, oneofs, proto3 optional, repeated, recursive and mutually recursive
messages, well-known types (Timestamp, Duration, the nine wrappers, Any, Empty, Struct, FieldMask),
keyword / builtin-colliding / oddly-cased field names and comments of every placement.

The MAIN stream stays clear of the open known-finding classes of known_findings/C03.json (so that
they cannot mask other failures); `witnesses()` exercises each of those classes on purpose, and
`regressions()` holds the inputs of defects for which a fix is proposed (F12).

Everything random is drawn from the `random.Random` passed in.  The generator only produces text:
what the schema *means* is always read back from the FileDescriptorSet protoc emits for that text.
"""
import keyword

SCALARS = ["double", "float", "int32", "int64", "uint32", "uint64", "sint32", "sint64",
           "fixed32", "fixed64", "sfixed32", "sfixed64", "bool", "string", "bytes"]
MAP_KEYS = ["int32", "int64", "uint32", "uint64", "sint32", "sint64", "fixed32", "fixed64",
            "sfixed32", "sfixed64", "bool", "string"]
WRAPPERS = ["DoubleValue", "FloatValue", "Int64Value", "UInt64Value", "Int32Value", "UInt32Value",
            "BoolValue", "StringValue", "BytesValue"]
WKT_FILES = {"Timestamp": "timestamp", "Duration": "duration", "Any": "any", "Empty": "empty",
             "Struct": "struct", "Value": "struct", "ListValue": "struct", "FieldMask": "field_mask"}
for _w in WRAPPERS:
    WKT_FILES[_w] = "wrappers"

MSG_NAMES = ["Foo", "Bar", "Baz", "Qux", "Item", "Node", "Tree", "Leaf", "HTTPRequest", "UserV2", "Outer",
             "Inner", "Config", "A", "Ab", "Data", "Type", "Entry", "FooEntry", "Value", "Msg1", "Request",
             "Response", "XMLDoc", "Point3D", "Test", "Object", "Message", "Enum", "Field", "Any", "Empty",
             "Timestamp", "Color", "State", "Kind", "Shape", "Pair", "Result", "Account", "IOError"]
NESTED_LOWER = ["inner", "detail", "leaf_node", "part2"]          # legal below an Upper-initial message
ENUM_NAMES = ["Color", "State", "Kind", "Mode", "Level", "Status", "Flag", "Choice", "Option", "Suit", "E", "Dir"]
VALUE_WORDS = ["UNKNOWN", "UNSPECIFIED", "ZERO", "NONE", "RED", "GREEN", "BLUE", "ON", "OFF", "A", "B", "C",
               "FIRST", "SECOND", "THIRD", "LOW", "HIGH", "OK", "ERROR", "X1", "X2", "True_", "class", "from",
               "MAX_VALUE", "min_value", "MixedCase", "lower", "DEFAULT", "PENDING", "DONE"]
FIELD_PLAIN = ["id", "name", "value", "count", "data", "items", "title", "flag", "amount", "ratio", "payload",
               "child", "children", "parent", "next", "prev", "left", "right", "meta", "tags", "labels", "key",
               "values", "created_at", "updated_at", "size", "offset", "limit", "total", "kind", "state", "x",
               "y", "z", "a1", "b2", "long_field_name_with_many_parts", "f"]
FIELD_CASING = ["camelCase", "PascalCase", "mixed_Case", "URL", "HTTPStatus", "userID", "x_y_z", "with_1_digit",
                "address_line_1", "trailing_", "double__underscore", "UPPER_SNAKE", "a_B_c", "v2Beta"]
# Python keywords and soft keywords / constants (all legal proto identifiers)
FIELD_KEYWORDS = sorted(set(keyword.kwlist) | {"match", "case", "type", "print", "exec", "self", "cls"})
# builtin names: functions, types, exceptions
FIELD_BUILTINS = ["int", "float", "bool", "str", "bytes", "list", "dict", "set", "tuple", "object", "type", "id",
                  "len", "map", "filter", "range", "input", "property", "super", "vars", "hash", "format", "min",
                  "max", "sum", "all", "any", "open", "iter", "next", "complex", "bytearray", "memoryview",
                  "frozenset", "Exception", "ValueError", "print", "repr", "ascii", "bin", "callable"]
BUILTIN_TYPE_NAMES = {"int", "float", "bool", "str", "bytes"}      # the names type annotations use
COMMENT_TEXTS = ["a comment", "Leading comment.", "two words", "with 'single' quotes", 'a "quoted" word inside',
                 "unicode: caf\u00e9 \u2603 \u4e2d\u6587", "punctuation: <>&%$#@!~`^*()[]{};:,.?/|+=-_",
                 "a rather long comment line that goes beyond the seventy-nine column limit of a docstring one-liner",
                 "tabs\tinside", "trailing spaces   ", "ends with a colon:", "percent %s %d {braces} {{double}}",
                 "x", "TODO(someone): fix", "http://example.com/a?b=c&d=e", "\u00e9", "{% jinja %} {{ expr }}"]
FIELD_NUMBERS = [1, 2, 3, 4, 5, 6, 7, 8, 9, 10, 11, 12, 13, 14, 15, 16, 17, 100, 127, 128, 2047, 2048, 16383, 16384,
                 18999, 20000, 65535, 1 << 20, (1 << 29) - 1]
PACKAGES = ["", "alpha", "alpha.beta", "alpha.beta.gamma", "alpha.delta", "omega", "a1.b_2", "v1", "x.v1",
            "pkg_with_underscore", "deep.er.an.deep.er"]


class Field:
    def __init__(self, name, number, typ, label="", oneof=None, mapkv=None, comments=None):
        self.name, self.number, self.typ, self.label, self.oneof, self.mapkv = name, number, typ, label, oneof, mapkv
        self.comments = comments or {}


class Enum:
    def __init__(self, name, values, alias=False, comments=None, vcomments=None):
        self.name, self.values, self.alias = name, values, alias
        self.comments = comments or {}
        self.vcomments = vcomments or {}


class Msg:
    def __init__(self, name):
        self.name = name
        self.fields, self.nested, self.enums, self.oneofs = [], [], [], []
        self.comments = {}


class File:
    def __init__(self, name, package):
        self.name, self.package = name, package
        self.messages, self.enums, self.imports = [], [], []
        self.header_comment = None


class Schema:
    def __init__(self, label, files, tags=()):
        self.label = label
        self.files = files                  # {file name: text}
        self.tags = list(tags)              # e.g. the known-finding class a witness is built for


# ------------------------------------------------------------------------------------------ rendering
def render_comment(c, indent):
    """c: dict with optional keys detached (list of str), leading (str), block (bool)"""
    out = []
    pad = " " * indent
    for d in c.get("detached", []):
        out += [f"{pad}// {l}" for l in d.split("\n")] + [""]
    if c.get("leading") is not None:
        lines = c["leading"].split("\n")
        if c.get("block"):
            out.append(f"{pad}/* " + ("\n" + pad + " * ").join(lines) + " */")
        else:
            out += [f"{pad}//{'' if c.get('nospace') else ' '}{l}" for l in lines]
    return out


def render_field(f, indent):
    pad = " " * indent
    out = render_comment(f.comments, indent)
    if f.mapkv:
        decl = f"map<{f.mapkv[0]}, {f.mapkv[1]}> {f.name} = {f.number};"
    else:
        decl = f"{f.label + ' ' if f.label else ''}{f.typ} {f.name} = {f.number};"
    if f.comments.get("trailing") is not None:
        decl += " // " + f.comments["trailing"]
    out.append(pad + decl)
    return out


def render_enum(e, indent):
    pad = " " * indent
    out = render_comment(e.comments, indent)
    out.append(f"{pad}enum {e.name} {{")
    if e.alias:
        out.append(f"{pad}  option allow_alias = true;")
    for n, v in e.values:
        out += render_comment(e.vcomments.get(n, {}), indent + 2)
        line = f"{pad}  {n} = {v};"
        if e.vcomments.get(n, {}).get("trailing") is not None:
            line += " // " + e.vcomments[n]["trailing"]
        out.append(line)
    out.append(pad + "}")
    return out


def render_msg(m, indent):
    pad = " " * indent
    out = render_comment(m.comments, indent)
    out.append(f"{pad}message {m.name} {{")
    for e in m.enums:
        out += render_enum(e, indent + 2)
    for n in m.nested:
        out += render_msg(n, indent + 2)
    done = set()
    for f in m.fields:
        if f.oneof is None:
            out += render_field(f, indent + 2)
        elif f.oneof not in done:
            done.add(f.oneof)
            out.append(f"{pad}  oneof {f.oneof} {{")
            for g in m.fields:
                if g.oneof == f.oneof:
                    out += render_field(g, indent + 4)
            out.append(f"{pad}  }}")
    out.append(pad + "}")
    return out


def render_file(f):
    out = []
    if f.header_comment:
        out += [f"// {l}" for l in f.header_comment.split("\n")] + [""]
    out.append('syntax = "proto3";')
    if f.package:
        out.append(f"package {f.package};")
    for i in f.imports:
        out.append(f'import "{i}";')
    out.append("")
    for e in f.enums:
        out += render_enum(e, 0) + [""]
    for m in f.messages:
        out += render_msg(m, 0) + [""]
    return "\n".join(out) + "\n"


# ------------------------------------------------------------------------------------------ generation
class Gen:
    def __init__(self, rng, api_names, depth=3):
        self.rng = rng
        self.api = set(api_names)           # attribute names of betterproto.Message (K9): avoided in the main stream
        self.depth = depth

    # -- names
    def camel(self):
        r = self.rng
        syll = ["Al", "Be", "Ca", "Do", "El", "Fi", "Go", "Hu", "In", "Jo", "Ka", "Lo", "Mi", "No", "Op", "Pa", "Qu",
                "Ro", "Su", "Ti", "Um", "Va", "Wi", "Xe", "Yo", "Zu"]
        return "".join(r.choice(syll) for _ in range(r.randint(1, 3))) + r.choice(["", "", "", "2", "V1", "X"])

    def msg_name(self, taken, nested=False):
        r = self.rng
        for _ in range(50):
            if nested and r.random() < 0.08:
                n = r.choice(NESTED_LOWER)
            elif r.random() < 0.6:
                n = r.choice(MSG_NAMES)
            else:
                n = self.camel()
            key = "".join(c for c in n if c.isalnum()).lower()
            if key not in taken and n not in ("List", "Dict", "Optional"):
                taken.add(key)
                return n
        n = f"M{len(taken)}x"
        taken.add(n.lower())
        return n

    def field_name(self, taken, m_has):
        r = self.rng
        for _ in range(80):
            x = r.random()
            if x < 0.5:
                n = r.choice(FIELD_PLAIN)
            elif x < 0.65:
                n = r.choice(FIELD_CASING)
            elif x < 0.8:
                n = r.choice(FIELD_KEYWORDS)
            elif x < 0.93:
                n = r.choice(FIELD_BUILTINS)
            else:
                n = "f_" + self.camel().lower()
            key = "".join(c for c in n if c.isalnum()).lower()
            py = self.py_field_name(n)
            if key in taken or py in self.api or py in ("betterproto", "builtins", "datetime", "timedelta"):
                continue
            taken.add(key)
            return n
        n = f"fld{len(taken)}"
        taken.add(n)
        return n

    @staticmethod
    def py_field_name(n):
        from betterproto.compile.naming import pythonize_field_name
        return pythonize_field_name(n)

    def comment(self, p=0.3, allow_trailing=True):
        r = self.rng
        c = {}
        if r.random() < p:
            c["leading"] = r.choice(COMMENT_TEXTS) if r.random() < 0.8 else "\n".join(r.sample(COMMENT_TEXTS, 2))
            if r.random() < 0.2:
                c["block"] = True
            if r.random() < 0.1:
                c["nospace"] = True
        if r.random() < p / 3:
            c["detached"] = [r.choice(COMMENT_TEXTS)]
        if allow_trailing and r.random() < p / 2:
            c["trailing"] = r.choice(COMMENT_TEXTS).replace("\n", " ")
        return c

    # -- structure
    def enum(self, taken, prefix_style=None):
        r = self.rng
        for _ in range(30):
            name = r.choice(ENUM_NAMES) if r.random() < 0.7 else self.camel()
            key = name.lower()
            if key not in taken and name not in ("List", "Dict", "Optional"):
                taken.add(key)
                break
        else:
            name = f"En{len(taken)}"
            taken.add(name.lower())
        style = prefix_style if prefix_style is not None else r.choice(["none", "prefix", "mixed"])
        snake = "".join("_" + c if c.isupper() and i else c for i, c in enumerate(name)).upper()
        words = r.sample(VALUE_WORDS, r.randint(1, 6))
        values, used_names, used_nums = [], set(), set()
        alias = r.random() < 0.3
        for i, w in enumerate(words):
            n = w
            if style == "prefix" or (style == "mixed" and r.random() < 0.5):
                n = f"{snake}_{w}"
            vkey = "".join(c for c in n if c.isalnum()).lower()
            if n.lower() in used_names or vkey in taken:
                continue
            used_names.add(n.lower())
            taken.add(vkey)         # enum values live in the scope that encloses the enum
            if i == 0:
                num = 0
            elif alias and used_nums and r.random() < 0.4:
                num = r.choice(sorted(used_nums))
            else:
                num = r.choice([i, i, i * 10, -i, -(1 << 31), (1 << 31) - 1, r.randint(-1000, 1000)])
                if not alias:
                    while num in used_nums:
                        num = num + 1 if num < (1 << 31) - 1 else r.randint(-5000, 5000)
            used_nums.add(num)
            values.append((n, num))
        if not values:
            values = [(f"{snake}_V{len(taken)}", 0)]
            taken.add(values[0][0].replace("_", "").lower())
        if values[0][1] != 0:
            values[0] = (values[0][0], 0)
        has_alias = len({v for _, v in values}) < len(values)
        e = Enum(name, values, alias=has_alias, comments=self.comment(0.3, False))
        for n, _ in values:
            if r.random() < 0.2:
                e.vcomments[n] = self.comment(0.9)
        return e

    def message_tree(self, taken, depth, nested=False):
        r = self.rng
        m = Msg(self.msg_name(taken, nested))
        m.comments = self.comment(0.35, False)
        inner_taken = set()
        if depth > 0:
            for _ in range(r.choice([0, 0, 0, 1, 1, 2])):
                m.nested.append(self.message_tree(inner_taken, depth - 1, nested=True))
        for _ in range(r.choice([0, 0, 0, 1, 1, 2])):
            m.enums.append(self.enum(inner_taken))
        m.scope_taken = inner_taken
        return m

    def collect(self, pkg, msgs, enums, prefix=""):
        """fully-qualified names (leading dot) of all messages / enums"""
        out_m, out_e = [], []
        base = ("." + pkg if pkg else "") + prefix
        for e in enums:
            out_e.append(f"{base}.{e.name}")
        for m in msgs:
            out_m.append(f"{base}.{m.name}")
            mm, ee = self.collect(pkg, m.nested, m.enums, prefix + "." + m.name)
            out_m += mm
            out_e += ee
        return out_m, out_e

    def fill_fields(self, m, msg_refs, enum_refs, wkt, nfields=None):
        r = self.rng
        taken = set(getattr(m, "scope_taken", ()))     # fields share the scope of nested types and enum values
        n = nfields if nfields is not None else r.choice([0, 1, 2, 3, 3, 4, 5, 6, 8, 12])
        numbers = set()
        oneofs = []
        if n >= 2 and r.random() < 0.4:
            oneofs = []
            for i in range(r.choice([1, 1, 2])):
                o = r.choice(["kind", "choice", "payload_oneof", "value_oneof", "which", "type"]) + (str(i) if i else "")
                okey = "".join(c for c in o if c.isalnum()).lower()
                if okey not in taken:
                    taken.add(okey)          # a oneof shares the scope of the fields
                    oneofs.append(o)
        shadowed = set()        # builtin type names rebound by an earlier field of this class body (K15)
        for _ in range(n):
            name = self.field_name(taken, m)
            num = r.choice(FIELD_NUMBERS)
            while num in numbers:
                num = r.randint(1, 5000)
                if 19000 <= num <= 19999:
                    num = 1
            numbers.add(num)
            x = r.random()
            label, oneof, mapkv = "", None, None
            kind = r.random()
            if kind < 0.45 or not (msg_refs or enum_refs):
                typ = r.choice(SCALARS)
            elif kind < 0.6 and enum_refs:
                typ = r.choice(enum_refs)
            elif kind < 0.85 and msg_refs:
                typ = r.choice(msg_refs)
            else:
                w = r.choice(wkt)
                typ = ".google.protobuf." + w
            if x < 0.2:
                label = "repeated"
            elif x < 0.35:
                label = "optional"
            elif x < 0.5 and oneofs:
                oneof = r.choice(oneofs)
            elif x < 0.65:
                k = r.choice(MAP_KEYS)
                mapkv = (k, typ)
                typ = None
            # K15: a field called int/float/bool/str/bytes rebinds that name for the rest of the class body;
            # the plugin qualifies plain uses with `builtins.` but not the ones inside Optional[..] / Dict[..]
            # ... and `import builtins` is only emitted when some field has py_type == py_name (proposed fix
            # c03-builtins-import), so the main stream does not use a rebound type name again at all
            def uses_of(typ, mapkv):
                u = set()
                for t_ in ([typ] if typ else []) + (list(mapkv) if mapkv else []):
                    if py_of(t_):
                        u.add(py_of(t_))
                    elif t_.startswith(".google.protobuf.") and t_.rsplit(".", 1)[1] in WRAPPERS:
                        u.add(py_of_wrapper(t_.rsplit(".", 1)[1]))
                return u
            py = self.py_field_name(name)
            # (`name: annotation = value` binds the name before the annotation is evaluated: the field itself counts)
            if uses_of(typ, mapkv) & (shadowed | ({py} if py in BUILTIN_TYPE_NAMES else set())):
                free = [s_ for s_ in SCALARS if py_of(s_) not in shadowed]
                if not free:
                    continue
                label, oneof, mapkv, typ = "", None, None, r.choice(free)
            py = self.py_field_name(name)
            if py in BUILTIN_TYPE_NAMES:
                shadowed.add(py)
            m.fields.append(Field(name, num, typ, label, oneof, mapkv, self.comment(0.3)))
        # every declared oneof needs at least one member
        used = {f.oneof for f in m.fields if f.oneof}
        m.oneofs = [o for o in oneofs if o in used]

    def schema(self, idx):
        r = self.rng
        base_pkg = r.choice(PACKAGES)
        root = f"s{idx}"
        # unique package per schema so that many schemas can share one protoc call
        def mkpkg(p):
            return root + ("." + p if p else "")
        nfiles = r.choice([1, 1, 1, 2, 2, 3])
        rel = ["same", "child", "parent", "cousin", "other"]
        files = []
        pkgs = [base_pkg]
        for i in range(1, nfiles):
            how = r.choice(rel)
            if how == "same":
                pkgs.append(base_pkg)
            elif how == "child":
                pkgs.append((base_pkg + "." if base_pkg else "") + r.choice(["sub", "child.deep", "v2"]))
            elif how == "parent":
                pkgs.append(base_pkg.rsplit(".", 1)[0] if "." in base_pkg else "")
            elif how == "cousin":
                pkgs.append((base_pkg.rsplit(".", 1)[0] + "." if "." in base_pkg else "") + r.choice(["cousin", "other.branch"]))
            else:
                pkgs.append(r.choice(PACKAGES))
        taken_by_pkg = {}
        for i, p in enumerate(pkgs):
            f = File(f"{root}/f{i}.proto", mkpkg(p))
            taken = taken_by_pkg.setdefault(p, set())
            for _ in range(r.choice([1, 1, 2, 3, 4])):
                f.messages.append(self.message_tree(taken, r.randint(0, self.depth)))
            for _ in range(r.choice([0, 0, 1, 2])):
                f.enums.append(self.enum(taken))
            if r.random() < 0.3:
                f.header_comment = r.choice(COMMENT_TEXTS)
            files.append(f)
        wkt = ["Timestamp", "Duration"] + WRAPPERS + ["Any", "Empty", "Struct", "FieldMask", "Value", "ListValue"]
        # file i may import files j < i (no cycles)
        for i, f in enumerate(files):
            msg_refs, enum_refs = self.collect(f.package, f.messages, f.enums)
            for j in range(i):
                if r.random() < 0.7:
                    f.imports.append(files[j].name)
                    mm, ee = self.collect(files[j].package, files[j].messages, files[j].enums)
                    msg_refs += mm
                    enum_refs += ee
            used_wkt = set()

            def fill(m):
                self.fill_fields(m, msg_refs, enum_refs, wkt)
                for fld in m.fields:
                    for t in ([fld.typ] if fld.typ else []) + ([fld.mapkv[1]] if fld.mapkv else []):
                        if t.startswith(".google.protobuf."):
                            used_wkt.add(WKT_FILES[t.rsplit(".", 1)[1]])
                for n in m.nested:
                    fill(n)
            for m in f.messages:
                fill(m)
            for w in sorted(used_wkt):
                f.imports.append(f"google/protobuf/{w}.proto")
        self.dedupe_enum_members(files)
        return Schema(f"main-{idx}", {f.name: render_file(f) for f in files})

    @staticmethod
    def dedupe_enum_members(files):
        """K8: pythonize_enum_member_name strips the (flattened, upper-snake) enum name wherever it occurs in a
        member name (enum E: DONE -> "", MAX_VALUE -> ""), so distinct members can collapse; the main stream drops
        the later member of such a pair"""
        from betterproto.compile.naming import pythonize_enum_member_name

        def fix(e, path):
            flat = "".join("_" + x for x in path + [e.name])
            seen, keep = set(), []
            for n, v in e.values:
                py = pythonize_enum_member_name(n, flat)
                if py in seen:
                    continue
                seen.add(py)
                keep.append((n, v))
            e.values = keep
            e.alias = len({v for _, v in keep}) < len(keep)

        def walk(m, path):
            for e in m.enums:
                fix(e, path + [m.name])
            for n in m.nested:
                walk(n, path + [m.name])
        for f in files:
            for e in f.enums:
                fix(e, [])
            for m in f.messages:
                walk(m, [])


def py_of(t):
    if t in ("double", "float"):
        return "float"
    if t == "bool":
        return "bool"
    if t == "string":
        return "str"
    if t == "bytes":
        return "bytes"
    if t in SCALARS:
        return "int"
    return None


def py_of_wrapper(w):
    return {"DoubleValue": "float", "FloatValue": "float", "BoolValue": "bool", "StringValue": "str",
            "BytesValue": "bytes"}.get(w, "int")


# ------------------------------------------------------------------------------------------ systematic pass
def systematic(idx_base=0):
    """every (kind x cardinality) cell at least once, deterministically"""
    H = 'syntax = "proto3";\n'
    imp = "".join(f'import "google/protobuf/{w}.proto";\n' for w in
                  ["timestamp", "duration", "wrappers", "any", "empty", "struct", "field_mask"])
    out = []
    p = f"s{idx_base}.sysmat"
    lines = [H, f"package {p};\n", imp,
             "enum Color { option allow_alias = true; COLOR_UNSPECIFIED = 0; COLOR_RED = 1; ROUGE = 1; NEG = -1; "
             "MIN = -2147483648; MAX = 2147483647; }\n",
             "message Ref { int32 v = 1; message Deep { message Deeper { message Deepest { Color c = 1; Ref up = 2; } } } }\n"]
    n = 1
    body = []
    for s in SCALARS:
        body.append(f"  {s} s_{s} = {n};"); n += 1
        body.append(f"  repeated {s} r_{s} = {n};"); n += 1
        body.append(f"  optional {s} o_{s} = {n};"); n += 1
    for t, nm in [("Color", "enum"), ("Ref", "msg"), ("Ref.Deep.Deeper.Deepest", "deep"), ("Singular", "self")]:
        body.append(f"  {t} s_{nm} = {n};"); n += 1
        body.append(f"  repeated {t} r_{nm} = {n};"); n += 1
        body.append(f"  optional {t} o_{nm} = {n};"); n += 1
    lines.append("message Singular {\n" + "\n".join(body) + "\n}\n")
    body = []
    n = 1
    for k in MAP_KEYS:
        for v in ["int32", "string", "bytes", "double", "bool", "Color", "Ref", "Maps", "google.protobuf.Timestamp",
                  "google.protobuf.Int32Value", "google.protobuf.Duration", "sint64", "fixed32"]:
            body.append(f"  map<{k}, {v}> m_{k}_{v.replace('.', '_').lower()} = {n};"); n += 1
    for v in SCALARS:
        body.append(f"  map<string, {v}> mv_{v} = {n};"); n += 1
    lines.append("message Maps {\n" + "\n".join(body) + "\n}\n")
    body = ["  oneof first {"]
    n = 1
    for s in SCALARS:
        body.append(f"    {s} a_{s} = {n};"); n += 1
    body.append("  }\n  oneof second {")
    for t, nm in [("Color", "enum"), ("Ref", "msg"), ("OneOfs", "self"), ("google.protobuf.Timestamp", "ts"),
                  ("google.protobuf.Duration", "dur"), ("google.protobuf.BoolValue", "bv"), ("google.protobuf.Empty", "e")]:
        body.append(f"    {t} b_{nm} = {n};"); n += 1
    body.append("  }\n  int32 plain_between = 100;\n  oneof third { string only = 101; }")
    lines.append("message OneOfs {\n" + "\n".join(body) + "\n}\n")
    body = []
    n = 1
    for w in ["Timestamp", "Duration"] + WRAPPERS + ["Any", "Empty", "Struct", "Value", "ListValue", "FieldMask"]:
        body.append(f"  google.protobuf.{w} s_{w.lower()} = {n};"); n += 1
        body.append(f"  repeated google.protobuf.{w} r_{w.lower()} = {n};"); n += 1
        body.append(f"  optional google.protobuf.{w} o_{w.lower()} = {n};"); n += 1
        body.append(f"  map<string, google.protobuf.{w}> m_{w.lower()} = {n};"); n += 1
    lines.append("message WellKnown {\n" + "\n".join(body) + "\n}\n")
    lines.append("message MutualA { MutualB b = 1; repeated MutualA again = 2; map<string, MutualB> bs = 3; }\n"
                 "message MutualB { MutualA a = 1; optional MutualB self = 2; oneof x { MutualA via = 3; } }\n")
    out.append(Schema("systematic-0", {f"s{idx_base}/sysmat.proto": "".join(lines)}))
    # keyword / builtin field names, exhaustively
    p = f"s{idx_base + 1}.names"
    lines = [H, f"package {p};\n"]
    for gi, group in enumerate([FIELD_KEYWORDS, [b for b in FIELD_BUILTINS if b not in BUILTIN_TYPE_NAMES],
                                FIELD_CASING + FIELD_PLAIN]):
        body = [f"  {SCALARS[i % 15]} {nm} = {i + 1};" for i, nm in enumerate(group)]
        lines.append(f"message Names{gi} {{\n" + "\n".join(body) + "\n}\n")
    # builtin type names are fine as long as the annotation positions the plugin qualifies are the only later uses
    lines.append("message BuiltinTypes { int64 before = 1; double int = 2; string float = 3; bytes str = 4; bool bytes = 5;"
                 " Names0 bool = 6; repeated Names1 after = 7; }\n")
    out.append(Schema("systematic-1", {f"s{idx_base + 1}/names.proto": "".join(lines)}))
    # comments of every placement
    p = f"s{idx_base + 2}.comments"
    text = H + f"package {p};\n" + '''
// detached one

// detached two
// second line

// leading of Doc
// continues here
message Doc {
  // leading of field a
  int32 a = 1; // trailing of a
  /* block comment
   * over two lines */
  string b = 2;
  /** javadoc style */
  bool c = 3;

  // detached inside

  //no leading space
  bytes d = 4;
  int32 e = 5; /* trailing block */
  // comment on nested
  message Nested {
    // nested field
    int32 n = 1;
  }
  // comment on oneof
  oneof which {
    // member comment
    string s = 6;
  }
  // map comment
  map<string, int32> m = 7;
}
// enum comment
enum Level {
  // zero value
  LEVEL_ZERO = 0; // trailing zero
  /* block on value */
  LEVEL_ONE = 1;
}
// a comment whose only line is long enough to be wrapped into the multi-line docstring form by the plugin ........
message LongDoc { int32 x = 1; }
//
message EmptyComment { int32 x = 1; }
// say "hello" to 'everyone'
message Quotes { int32 x = 1; }
'''
    out.append(Schema("systematic-2", {f"s{idx_base + 2}/comments.proto": text}))
    return out


# ------------------------------------------------------------------------------------------ witnesses
def witnesses():
    """one schema per open known-finding class (and variants); tags = the class the harness expects"""
    H = 'syntax = "proto3";\n'
    W = []

    def w(label, cls, text, pkg="wp", extra=None):
        files = {f"{label}.proto": H + (f"package {pkg};\n" if pkg else "") + text}
        if extra:
            files.update(extra)
        W.append(Schema("witness-" + label, files, tags=[cls]))

    # K1: distinct messages, one Python class name
    w("k1_nested_vs_flat", "class_name_collision",
      "message Col { message Bar { int32 a = 1; } Bar b = 1; }\nmessage ColBar { string s = 1; }\n")
    w("k1_underscore", "class_name_collision", "message Foo_Bar { int32 a = 1; }\nmessage FooBar { string s = 1; }\n")
    w("k1_enum_vs_message", "class_name_collision", "message A { enum B { Z = 0; } B b = 1; }\nmessage AB { string s = 1; }\n")
    # K2: the package regex
    w("k2_lower_message", "package_regex", "message lower { message inner { int32 x = 1; } inner i = 1; }\n")
    w("k2_lower_toplevel_ref", "package_regex", "message holder { int32 x = 1; }\nmessage User { holder h = 1; }\n", pkg="")
    w("k2_upper_package", "package_regex", "message A { int32 x = 1; }\nmessage B { A a = 1; }\n", pkg="Cap.pkg")
    # K8: names collapse after pythonisation
    w("k8_fields", "member_name_collision", "message A { int32 list = 1; string List = 2; }\n")
    w("k8_fields_camel", "member_name_collision", "message A { int32 HTTPStatus = 1; string http_status = 2; }\n")
    w("k8_enum_members", "member_name_collision", "enum Ab { ZERO = 0; X_AB_C = 1; C = 2; }\nmessage M { Ab e = 1; }\n")
    # K9: a field rebinds a name the class body / the Message API needs
    w("k9_betterproto", "api_shadow", "message A { int32 betterproto = 1; string s = 2; }\n")
    w("k9_parse", "api_shadow", "message A { int32 parse = 1; string to_dict = 2; }\n")
    w("k9_datetime", "api_shadow",
      'import "google/protobuf/timestamp.proto";\nmessage A { google.protobuf.Timestamp datetime = 1; google.protobuf.Timestamp t2 = 2; }\n')
    # K11: no usable class name
    w("k11_underscore", "invalid_class_name", "message _ { int32 x = 1; }\n")
    w("k11_digit", "invalid_class_name", "message _1 { int32 x = 1; }\n")
    # K13: the is_map name heuristic
    w("k13_not_a_map", "map_heuristic",
      "message FooEntry { int32 x = 1; }\nmessage M { FooEntry foo = 1; map<string, int32> f_oo = 2; }\n")
    w("k13_wrong_entry", "map_heuristic", "message M { map<string, int32> foo = 1; map<int64, bytes> f_oo = 2; }\n")
    # K14: EnumValue taken for a wrapper
    w("k14_enumvalue", "enumvalue_wraps",
      'import "google/protobuf/type.proto";\nmessage M { google.protobuf.EnumValue ev = 1; }\n')
    # K15: builtin type name rebound, then used inside a generic annotation
    w("k15_dict", "builtin_shadow_generic", "message A { string str = 1; map<string, int32> m = 2; }\n")
    w("k15_wrapper", "builtin_shadow_generic",
      'import "google/protobuf/wrappers.proto";\nmessage A { int32 int = 1; google.protobuf.Int32Value w = 2; }\n')
    # K16: a class called like a typing import
    w("k16_list", "typing_name_shadow", "message List { repeated int32 xs = 1; }\nmessage B { repeated List ls = 1; }\n")
    w("k16_optional", "typing_name_shadow", "message Optional { int32 x = 1; }\nmessage C { optional int32 o = 2; }\n")
    # K34: a map whose value type is a wrapper: the class is generated as the schema says, and cannot be used
    w("k34_map_wrapper_value", "map_wrapper_value",
      'import "google/protobuf/wrappers.proto";\nmessage M { map<string, google.protobuf.Int32Value> mw = 1; }\n')
    # K17: a package segment that is a Python keyword
    w("k17_keyword_package", "keyword_package_segment", "message A { int32 x = 1; }\n", pkg="wk.lib",
      extra={"k17_user.proto": H + 'package wk.import.v1;\nimport "k17_keyword_package.proto";\nmessage U { wk.lib.A a = 1; }\n',
             "k17_user2.proto": H + 'package wk.other;\nimport "k17_user.proto";\nmessage V { wk.import.v1.U u = 1; }\n'})
    return W


def regressions():
    """inputs of defects for which a fix is proposed (F12: comment text pasted unescaped into a docstring)"""
    H = 'syntax = "proto3";\n'
    R = []
    cases = {
        "ends_with_quote": '// ends with a quote "\nmessage A { int32 x = 1; }\n',
        "triple_quote": '// has """ inside\nmessage A { int32 x = 1; }\n',
        "backslash_end": "// trailing backslash \\\nmessage A { int32 x = 1; }\n",
        "bad_escape_x": "// has \\x escape\nmessage A { int32 x = 1; }\n",
        "bad_escape_N": "// has \\N{nothing} escape\nmessage A { int32 x = 1; }\n",
        "unicode_escape": "// path C:\\users\\new\nmessage A { int32 x = 1; }\n",
        "field_quote": 'message A {\n  // the "value"\n  int32 x = 1;\n}\n',
        "field_trailing_quote": 'message A {\n  int32 x = 1; // trailing "\n}\n',
        "enum_value_quote": 'enum E {\n  // zero "\n  E_ZERO = 0;\n}\nmessage A { E e = 1; }\n',
        "enum_triple": '// """\nenum E { E_ZERO = 0; }\nmessage A { E e = 1; }\n',
        "multi_line_last_quote": '// first line\n// second "line"\nmessage A { int32 x = 1; }\n',
        "block_backslashes": "/* regex \\d+\\.\\w* */\nmessage A { int32 x = 1; }\n",
        "only_quote": '// "\nmessage A { int32 x = 1; }\n',
        "quote_then_backslash": '// "\\\nmessage A { int32 x = 1; }\n',
    }
    for k, text in {
        "plain": "message A { string int = 1; int32 x = 2; }\n",
        "repeated": "message A { bool float = 1; repeated double xs = 2; }\n",
        "optional": "message A { int32 str = 1; optional string s = 2; }\n",
        "oneof": "message A { int32 bytes = 1; oneof o { bytes b = 2; } }\n",
    }.items():
        R.append(Schema("regression-f15_" + k, {f"f15_{k}.proto": H + "package rq;\n" + text}, tags=["builtins_import"]))
    for k, text in cases.items():
        R.append(Schema("regression-f12_" + k, {f"f12_{k}.proto": H + "package rp;\n" + text}, tags=["docstring_escape"]))
    return R


# the .proto sources of the descriptors written out in coq/Proofs/PluginWitP.v (non-vacuity example and
# refutation witnesses); the harness checks that the stand-in naming functions used there agree with the
# real ones on every name of these schemas
_H = 'syntax = "proto3";\n'
COQ_WITNESS_SOURCES = {
 "D_ok": _H + 'package p.q;\nimport "google/protobuf/timestamp.proto";\nimport "google/protobuf/wrappers.proto";\nenum Color { RED = 0; NEG = -1; }\nmessage Outer {\n  message Inner { Outer back = 1; enum Kind { ZERO = 0; } Kind k = 2; }\n  map<string, Inner> by_name = 1;\n  oneof pick { int32 a = 2; Color c = 3; }\n  optional double od = 4;\n  repeated Inner rs = 5;\n  google.protobuf.Timestamp ts = 6;\n  google.protobuf.BoolValue bv = 7;\n  map<int64, Color> colors = 8;\n}\n',
 "D_k1": _H + 'package wp;\nmessage Col { message Bar { int32 a = 1; } Bar b = 1; }\nmessage ColBar { string s = 1; }\n',
 "D_k8": _H + 'package wp;\nmessage A { int32 list = 1; string List = 2; }\n',
 "D_k2": _H + 'package wp;\nmessage lower { message inner { int32 x = 1; } inner i = 1; }\n',
 "D_k13": _H + 'package wp;\nmessage FooEntry { int32 x = 1; }\nmessage M { FooEntry foo = 1; map<string, int32> f_oo = 2; }\n',
 # coq/Proofs/C03BridgeWit.v
 "D_map_wrapper": _H + 'package wb;\nimport "google/protobuf/wrappers.proto";\nmessage M { map<string, google.protobuf.Int32Value> mw = 1; }\n',
 "D_rep_wrapper": _H + 'package wb;\nimport "google/protobuf/wrappers.proto";\nmessage M { repeated google.protobuf.Int32Value rw = 1; }\n',
 "D_any": _H + 'package wb;\nimport "google/protobuf/any.proto";\nmessage M { google.protobuf.Any a = 1; }\n',
}
