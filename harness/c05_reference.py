"""C05 — the reference side: google.protobuf message classes (built in memory from a
FileDescriptorProto, the way protoc would describe the schema) and json_format for a
msggen Schema, plus the abstract message value `amsg` both implementations are mapped to.

amsg  (one entry per field of the class, declaration order):
  field without presence (implicit-presence scalar / enum)   leaf
  field with presence (optional, oneof member, wrapper, message, Timestamp, Duration)   None | leaf
  repeated   [leaf, ...]
  map        {"map": sorted [(leaf, leaf), ...]}
leaf:  ("i", n) | ("b", bool) | ("f", bits-of-binary64 | "nan") | ("s", str) | ("y", bytes) | ("e", number)
     | ("ts", seconds, nanos) | ("du", seconds, nanos) | ("msg", class index, [field values])
`float` (32-bit) fields are abstracted at float32 precision (the double nearest to the float32 nearest to the value).
"""
import os
import struct
from datetime import datetime, timedelta, timezone

import betterproto as bp
from google.protobuf import descriptor_pb2, descriptor_pool, json_format, message_factory
from google.protobuf import duration_pb2, timestamp_pb2, wrappers_pb2  # noqa: F401  (register the well-known files)

from . import msggen

EPOCH = msggen.EPOCH
T = descriptor_pb2.FieldDescriptorProto
WRAPPER_MSG = {"bool": "BoolValue", "bytes": "BytesValue", "double": "DoubleValue", "float": "FloatValue",
               "int32": "Int32Value", "int64": "Int64Value", "string": "StringValue", "uint32": "UInt32Value",
               "uint64": "UInt64Value"}
_counter = [0]


# ------------------------------------------------------------------------------------------
# protoc's name algorithms (descriptor.cc: ToJsonName, MapEntryName)
# ------------------------------------------------------------------------------------------
def protoc_json_name(name: str) -> str:
    out, cap = [], False
    for ch in name:
        if ch == "_":
            cap = True
        elif cap:
            out.append(ch.upper() if "a" <= ch <= "z" else ch)
            cap = False
        else:
            out.append(ch)
    return "".join(out)


def protoc_map_entry_name(name: str) -> str:
    out, cap = [], True
    for ch in name:
        if ch == "_":
            cap = True
        elif cap:
            out.append(ch.upper() if "a" <= ch <= "z" else ch)
            cap = False
        else:
            out.append(ch)
    return "".join(out) + "Entry"


# ------------------------------------------------------------------------------------------
# reference classes for a msggen.Schema
# ------------------------------------------------------------------------------------------
class RefSchema:
    """google.protobuf classes for `schema`. proto_names: {(class index, python field name): proto field name}
    for schemas whose proto names differ from the Python attribute names (the casing cases)."""

    def __init__(self, schema, proto_names=None, explicit_json_name=True):
        self.schema = schema
        self.proto_names = proto_names or {}
        _counter[0] += 1
        self.pkg = f"c05p{os.getpid()}n{_counter[0]}"
        fdp = descriptor_pb2.FileDescriptorProto(name=f"{self.pkg}.proto", package=self.pkg, syntax="proto3")
        fdp.dependency.extend(["google/protobuf/timestamp.proto", "google/protobuf/duration.proto",
                               "google/protobuf/wrappers.proto"])
        for i, members in enumerate(schema.enums):
            holder = fdp.message_type.add(name=f"EH{i}")
            en = holder.enum_type.add(name="E")
            if len({v for _, v in members}) != len(members):
                en.options.allow_alias = True
            for n, v in members:
                en.value.add(name=n, number=v)
        for ci, c in enumerate(schema.classes):
            m = fdp.message_type.add(name=c.name)
            used = sorted({f.group for f in c.fields if f.group is not None})
            oneof_index = {g: k for k, g in enumerate(used)}
            for g in used:
                m.oneof_decl.add(name=f"g{g}")
            for f in c.fields:
                pname = self.pname(ci, f)
                fd = m.field.add(name=pname, number=f.number)
                if explicit_json_name:
                    fd.json_name = protoc_json_name(pname)
                fd.label = T.LABEL_REPEATED if f.card in ("repeated", "map") else T.LABEL_OPTIONAL
                if f.card == "map":
                    ename = protoc_map_entry_name(pname)
                    e = m.nested_type.add(name=ename)
                    e.options.map_entry = True
                    k = e.field.add(name="key", number=1, label=T.LABEL_OPTIONAL, json_name="key")
                    self._set_type(k, f.key, None)
                    v = e.field.add(name="value", number=2, label=T.LABEL_OPTIONAL, json_name="value")
                    self._set_type(v, f.elem, None)
                    fd.type = T.TYPE_MESSAGE
                    fd.type_name = f".{self.pkg}.{c.name}.{ename}"
                else:
                    self._set_type(fd, f.elem, f.card)
                if f.group is not None:
                    fd.oneof_index = oneof_index[f.group]
            # proto3 optional = synthetic one-member oneof, declared after the real ones
            for fd, f in zip(m.field, c.fields):
                if f.card == "optional":
                    fd.proto3_optional = True
                    fd.oneof_index = len(m.oneof_decl)
                    m.oneof_decl.add(name="_" + fd.name)
        self.fdp = fdp
        pool = descriptor_pool.Default()
        pool.Add(fdp)
        self.cls = [message_factory.GetMessageClass(pool.FindMessageTypeByName(f"{self.pkg}.{c.name}"))
                    for c in schema.classes]

    def pname(self, ci, f):
        return self.proto_names.get((ci, f.name), f.name)

    def _set_type(self, fd, e, card):
        if card == "wrapper":
            fd.type = T.TYPE_MESSAGE
            fd.type_name = ".google.protobuf." + WRAPPER_MSG[e.pt]
        elif e.kind == "scalar":
            fd.type = getattr(T, "TYPE_" + e.pt.upper())
        elif e.kind == "enum":
            fd.type = T.TYPE_ENUM
            fd.type_name = f".{self.pkg}.EH{e.ref}.E"
        elif e.kind == "msg":
            fd.type = T.TYPE_MESSAGE
            fd.type_name = f".{self.pkg}.{self.schema.classes[e.ref].name}"
        elif e.kind == "datetime":
            fd.type = T.TYPE_MESSAGE
            fd.type_name = ".google.protobuf.Timestamp"
        elif e.kind == "timedelta":
            fd.type = T.TYPE_MESSAGE
            fd.type_name = ".google.protobuf.Duration"
        else:
            raise ValueError(e)

    # ---------------------------------------------------------------- amsg -> reference message
    def build(self, ci, a, into=None):
        r = into if into is not None else self.cls[ci]()
        c = self.schema.classes[ci]
        for f, v in zip(c.fields, a[2]):
            name = self.pname(ci, f)
            if f.card == "repeated":
                tgt = getattr(r, name)
                for x in v:
                    self._append(tgt, f.elem, x)
            elif f.card == "map":
                tgt = getattr(r, name)
                for k, x in v["map"]:
                    kk = k[1]
                    if f.elem.kind in ("msg", "datetime", "timedelta"):
                        self._fill(tgt[kk], f.elem, x)
                    else:
                        tgt[kk] = self._plain(x)
            elif v is None:
                continue
            elif f.card == "wrapper":
                w = getattr(r, name)
                w.SetInParent()
                w.value = self._plain(v)
            elif f.elem.kind in ("msg", "datetime", "timedelta"):
                sub = getattr(r, name)
                sub.SetInParent()
                self._fill(sub, f.elem, v)
            else:
                setattr(r, name, self._plain(v))
        return r

    @staticmethod
    def _plain(x):
        if x[0] == "f":
            return float("nan") if x[1] == "nan" else struct.unpack("<d", struct.pack("<Q", x[1]))[0]
        return x[1]

    def _fill(self, sub, e, x):
        if e.kind == "msg":
            self.build(x[1], x, into=sub)
        else:
            sub.seconds, sub.nanos = x[1], x[2]

    def _append(self, tgt, e, x):
        if e.kind in ("msg", "datetime", "timedelta"):
            self._fill(tgt.add(), e, x)
        else:
            tgt.append(self._plain(x))

    # ---------------------------------------------------------------- reference message -> amsg
    def abs(self, ci, r):
        c = self.schema.classes[ci]
        out = []
        for f in c.fields:
            name = self.pname(ci, f)
            if f.card == "repeated":
                out.append([self._leaf(f.elem, x) for x in getattr(r, name)])
            elif f.card == "map":
                m = getattr(r, name)
                out.append({"map": sorted(((self._leaf(f.key, k), self._leaf(f.elem, m[k])) for k in m), key=repr)})
            elif f.card == "wrapper":
                out.append(self._leaf(f.elem, getattr(r, name).value) if r.HasField(name) else None)
            elif f.card == "optional" or f.group is not None or f.elem.kind in ("msg", "datetime", "timedelta"):
                present = r.HasField(name)
                if f.group is not None and present != (r.WhichOneof(f"g{f.group}") == name):
                    raise AssertionError("HasField and WhichOneof disagree")
                out.append(self._leaf(f.elem, getattr(r, name)) if present else None)
            else:
                out.append(self._leaf(f.elem, getattr(r, name)))
        return ("msg", ci, out)

    def _leaf(self, e, x):
        if e.kind == "msg":
            return self.abs(e.ref, x)
        if e.kind == "datetime":
            return ("ts", x.seconds, x.nanos)
        if e.kind == "timedelta":
            return ("du", x.seconds, x.nanos)
        return leaf_scalar(e, x)

    # ---------------------------------------------------------------- json_format
    def to_json(self, ci, r, **kw):
        return json_format.MessageToJson(r, **kw)

    def parse(self, ci, text, **kw):
        return json_format.Parse(text, self.cls[ci](), **kw)


def f64_bits(x):
    return struct.unpack("<Q", struct.pack("<d", x))[0]


def leaf_scalar(e, x):
    if e.kind == "enum":
        return ("e", int(x))
    pt = e.pt
    if pt == "bool":
        return ("b", bool(x))
    if pt == "string":
        return ("s", x)
    if pt == "bytes":
        return ("y", bytes(x))
    if pt in ("float", "double"):
        x = float(x)
        if x != x:
            return ("f", "nan")
        if pt == "float":
            try:
                x = struct.unpack("<f", struct.pack("<f", x))[0]
            except OverflowError:
                x = float("inf") if x > 0 else float("-inf")
        return ("f", f64_bits(x))
    return ("i", int(x))


# ------------------------------------------------------------------------------------------
# betterproto message -> amsg  (reads the raw attributes: nothing is materialised)
# ------------------------------------------------------------------------------------------
class NotAbstractable(Exception):
    pass


def ts_leaf(dt):
    if not isinstance(dt, datetime):
        raise NotAbstractable(f"datetime field holds {type(dt).__name__}")
    if dt.tzinfo is None:
        raise NotAbstractable("naive datetime")
    us = msggen.us_of_datetime(dt)
    return ("ts", us // 10 ** 6, (us % 10 ** 6) * 1000)


def du_leaf(td):
    if not isinstance(td, timedelta):
        raise NotAbstractable(f"timedelta field holds {type(td).__name__}")
    us = msggen.us_of_timedelta(td)
    sign = -1 if us < 0 else 1
    s, u = divmod(abs(us), 10 ** 6)
    return ("du", sign * s, sign * u * 1000)


def bp_leaf(schema, e, v, card=None):
    if card == "wrapper":
        return bp_scalar(e, v)
    if e.kind == "msg":
        if not isinstance(v, bp.Message) or type(v) is not schema.classes[e.ref].py:
            raise NotAbstractable(f"message field holds {type(v).__name__}")
        return abs_bp(schema, e.ref, v)
    if e.kind == "datetime":
        return ts_leaf(v)
    if e.kind == "timedelta":
        return du_leaf(v)
    return bp_scalar(e, v)


def bp_scalar(e, v):
    """type-strict: a str left in an int64 field is a different message"""
    if e.kind == "enum":
        if isinstance(v, bool) or not isinstance(v, int):
            raise NotAbstractable(f"enum field holds {type(v).__name__} {v!r}")
        return ("e", int(v))
    pt = e.pt
    want = {"bool": bool, "string": str, "bytes": (bytes, bytearray), "float": (float, int), "double": (float, int)}.get(pt, int)
    if not isinstance(v, want) or (pt != "bool" and isinstance(v, bool)):
        raise NotAbstractable(f"{pt} field holds {type(v).__name__} {v!r}")
    return leaf_scalar(e, v)


def abs_bp(schema, ci, m):
    c = schema.classes[ci]
    gc = object.__getattribute__(m, "_group_current")
    out = []
    for f in c.fields:
        raw = object.__getattribute__(m, f.name)
        ph = raw is bp.PLACEHOLDER
        if f.group is not None:
            if gc.get(f"g{f.group}") != f.name:
                out.append(None)
            else:
                out.append(bp_leaf(schema, f.elem, msggen.default_of(schema, f) if ph else raw))
        elif f.card in ("optional", "wrapper"):
            out.append(None if (raw is None or ph) else bp_leaf(schema, f.elem, raw, f.card))
        elif f.card == "repeated":
            if not ph and not isinstance(raw, list):
                raise NotAbstractable(f"repeated field holds {type(raw).__name__}")
            out.append([] if ph else [bp_leaf(schema, f.elem, x) for x in raw])
        elif f.card == "map":
            if not ph and not isinstance(raw, dict):
                raise NotAbstractable(f"map field holds {type(raw).__name__}")
            out.append({"map": [] if ph else sorted(((bp_scalar(f.key, k), bp_leaf(schema, f.elem, x)) for k, x in raw.items()),
                                                     key=repr)})
        elif f.elem.kind == "msg":
            if ph:
                out.append(None)
            else:
                leaf = bp_leaf(schema, f.elem, raw)
                out.append(leaf if object.__getattribute__(raw, "_serialized_on_wire") else None)
        elif f.elem.kind == "datetime":
            out.append(None if ph or raw == EPOCH else ts_leaf(raw))
        elif f.elem.kind == "timedelta":
            out.append(None if ph or raw == timedelta(0) else du_leaf(raw))
        else:
            out.append(bp_leaf(schema, f.elem, msggen.default_of(schema, f) if ph else raw))
    return ("msg", ci, out)


# ------------------------------------------------------------------------------------------
# differences between two amsg of the same class, as (path, Field, what) — first differing leaves
# ------------------------------------------------------------------------------------------
def diff(schema, a, b, path=""):
    out = []
    c = schema.classes[a[1]]
    for f, x, y in zip(c.fields, a[2], b[2]):
        p = f"{path}{c.name}.{f.name}"
        if x == y:
            continue
        if (x is None) != (y is None):
            out.append((p, f, "presence: %s vs %s" % ("absent" if x is None else "present", "absent" if y is None else "present")))
        elif f.elem.kind == "msg" and f.card in ("plain", "optional") and x is not None:
            out.extend(diff(schema, x, y, p + "/"))
        elif f.elem.kind == "msg" and f.card == "repeated" and len(x) == len(y):
            for i, (u, v) in enumerate(zip(x, y)):
                if u != v:
                    out.extend(diff(schema, u, v, f"{p}[{i}]/"))
        else:
            out.append((p, f, f"value: {short(x)} vs {short(y)}"))
    return out


def short(x):
    s = repr(x)
    return s if len(s) < 200 else s[:200] + "..."
