#!/venv/bin/python
"""C17 source-translation tie: translate the CURRENT source text of the record reader `_load_field` (and its helper
`_read_exactly`, and the dataclass `ParsedField`) of ${VERIF_REPO:-/repo}/src/betterproto/__init__.py into Gallina
(coq/gen/C17Src.v), mechanically, with Python's `ast`.  Same contract as harness/gen_c16_src.py, whose translator classes
are imported as a library and EXTENDED here (gen_c16_src.py itself is not modified): the output is proved equal to the
hand-written model Model/Decode.load_field (coq/Proofs/C17Src*.v, coq/Properties/C17Src.v); the translator is FAIL-CLOSED:
anything outside the subset is rejected with a message naming the construct (exit status 3) and then NO definition is
left in coq/gen/C17Src.v, only `src17_reader_translated := false`, so the proof files cannot compile against stale or
guessed definitions.  A rejection is NOT a verdict about the property: harness/props/c17.py records "source-translation
tie did not hold" and the sampled correspondence + oracles decide.

    gen_c17_src.py             translate and (re)write coq/gen/C17Src.v and coq/gen/C17SrcBridge.v (only on change)
    gen_c17_src.py --dry-run   translate, print the verdict, write nothing
    gen_c17_src.py --print     translate and print the Gallina text of C17Src.v, write nothing
    gen_c17_src.py --selftest  synthetic snippets: constructs outside the subset must be rejected with the expected message

ACCEPTED PYTHON SUBSET = the subset documented at the top of harness/gen_c16_src.py, PLUS (target vocabulary:
coq/Model/C16SrcLib.v + coq/Model/C17SrcLib.v):
  * module-level int constants: a name bound EXACTLY once at module level, by `NAME = <int literal>`, read inside a
    function that has no local of that name -> the literal.
  * a dataclass: a module-level class defined exactly once, decorated exactly `@dataclasses.dataclass(frozen=True)` (with
    `import dataclasses` the only binding of that name), no bases / keywords, whose body is only annotated fields without
    defaults of type `int`, `bytes` or `Any` -> a Gallina Record `src_<Class>` with projections `<Class>_<field>` (emitted
    into gen/C17Src.v).  Construction `Class(a, b, f=c, ...)` (every field exactly once), field access `x.f` on a variable
    holding such a value or directly on the result of a call `f(...).fld` (as the whole right-hand side of an assignment);
    a function may be annotated to return it.  Equality / hashing / repr of dataclass values are not translated.
  * `x: Any = e` (Any bound once by `from typing import ... Any ...`): x may afterwards hold None, an int or a bytes
    value, its static type follows the control flow; where two branches of an `if` leave it with different types it
    becomes a `pyval` (VNone | VInt | VBytes) which can only be stored into an `Any` field of a dataclass.  `None` as a value
    only in such an assignment.
  * `stream.read(e)` with e any int expression -> py_read_n (a negative count reads everything left).
  * `break` inside `while True:` / `for .. in count(..)` (not inside a nested loop of another kind): the loop then falls
    through with the loop variables as they are at the `break`.  `continue` stays rejected.
  * DIRECT self-recursion `f(...)` as a whole statement / right-hand side: the function becomes a Fixpoint on its fuel
    (out of fuel = Err EFuel), the self call uses the predecessor fuel, loops of such a function are local fixpoints with
    their own counter started at the function's fuel.  The function must carry a return annotation.  Indirect recursion
    stays rejected.
  * the call `load_varint(stream)` is NOT re-translated: it becomes `src17_load_varint`, which gen/C17Src.v binds to
    `src_load_varint` of gen/C16Src.v when harness/gen_c16_src.py accepts the current source of load_varint (then
    gen/C17SrcBridge.v takes its equation from Proofs/C16Src.v), and otherwise to the hand-written model's
    `load_varint` up to err_class (then that one function is tied by the sampled correspondence only; recorded as
    `src17_varint_from_source = false`).  Its signature must still be `(stream: "SupportsRead[bytes]") -> Tuple[int, bytes]`.
Everything else is REJECTED, as in gen_c16_src.py.
"""
import ast
import importlib.util
import os
import sys

HERE = os.path.dirname(os.path.abspath(__file__))
_spec = importlib.util.spec_from_file_location("gen_c16_src", os.path.join(HERE, "gen_c16_src.py"))
g = importlib.util.module_from_spec(_spec)
_spec.loader.exec_module(g)

Reject, reject, mangle, tuple_term, wrap_binds, zlit, int_literal = (g.Reject, g.reject, g.mangle, g.tuple_term, g.wrap_binds,
                                                                    g.zlit, g.int_literal)

REPO = os.environ.get("VERIF_REPO", "/repo")
SRC_REL = g.SRC_REL
OUT = os.path.join(HERE, "..", "coq", "gen", "C17Src.v")
OUT_BRIDGE = os.path.join(HERE, "..", "coq", "gen", "C17SrcBridge.v")
ROOTS = ["_load_field"]
EXTERNAL = {"load_varint"}           # taken from gen/C16Src.v (or the model), see the header

# the imported library keeps its type table in a module global: extended in THIS process only
g.COQ_TYPE["any"] = "pyval"


def coq_type(t):
    return g.coq_type(t)


def is_dc(t):
    return isinstance(t, str) and t.startswith("dc:")


def inj(t, term):
    """a value of static type t stored where a `pyval` is expected"""
    if t == "int":
        return f"(VInt {term})"
    if t == "bytes":
        return f"(VBytes {term})"
    if t == "none":
        return "VNone"
    if t == "any":
        return term
    return None


def own_nodes(stmts):
    """nodes of a loop body that belong to THIS loop (nested loops are not entered)"""
    todo = list(stmts)
    while todo:
        n = todo.pop()
        yield n
        if isinstance(n, (ast.While, ast.For, ast.AsyncFor)):
            continue
        todo.extend(ast.iter_child_nodes(n))


def has_own_break(loop):
    return any(isinstance(n, ast.Break) for st in loop.body for n in own_nodes([st]))


class Translator17(g.Translator):
    def __init__(self, source):
        self.records = {}        # dataclass name -> [(field, type)]
        self.record_order = []
        super().__init__(source)
        self.consts = {}
        for node in self.tree.body:
            if isinstance(node, ast.Assign) and len(node.targets) == 1 and isinstance(node.targets[0], ast.Name):
                v = int_literal(node.value)
                if v is not None and type(v) is int:
                    self.consts[node.targets[0].id] = v

    def constant(self, node, name):
        if name not in self.consts or len(self.bound.get(name, [])) != 1:
            reject(node, f"name `{name}` is not a local variable nor a module-level int constant bound exactly once by `{name} = <int literal>`")
        return self.consts[name]

    def dataclass(self, node, name):
        if name in self.records:
            return self.records[name]
        defs = self.classes.get(name, [])
        if len(defs) != 1 or len(self.bound.get(name, [])) != 1:
            reject(node, f"class `{name}` is not defined exactly once at module level")
        c = defs[0]
        if c.bases or c.keywords or len(c.decorator_list) != 1:
            reject(c, f"class `{name}` is not a plain class with exactly one decorator")
        if ast.unparse(c.decorator_list[0]).replace(" ", "") != "dataclasses.dataclass(frozen=True)":
            reject(c, f"decorator `{ast.unparse(c.decorator_list[0])}` of class `{name}` (only dataclasses.dataclass(frozen=True))")
        if self.imports.get("dataclasses") != ("import", "dataclasses", None) or len(self.bound.get("dataclasses", [])) != 1:
            reject(c, "name `dataclasses` is not bound exactly once by `import dataclasses`")
        fields = []
        for st in c.body:
            if isinstance(st, ast.Expr) and isinstance(st.value, ast.Constant) and isinstance(st.value.value, str):
                continue
            if not (isinstance(st, ast.AnnAssign) and isinstance(st.target, ast.Name) and st.value is None and st.simple == 1):
                reject(st, f"dataclass `{name}` has a body statement other than `field: type` without default")
            txt = ast.unparse(st.annotation).replace(" ", "")
            if txt not in ("int", "bytes", "Any"):
                reject(st, f"dataclass field annotation `{txt}`")
            if txt == "Any":
                self.require_any(st)
            else:
                self.require_unshadowed(st, txt)
            fields.append((st.target.id, {"int": "int", "bytes": "bytes", "Any": "any"}[txt]))
        if not fields or len({f for f, _ in fields}) != len(fields):
            reject(c, f"dataclass `{name}` without fields / with repeated fields")
        self.records[name] = fields
        self.record_order.append(name)
        return fields

    def require_any(self, node):
        imp = self.imports.get("Any")
        if imp != ("from", "typing", "Any", 0) or len(self.bound.get("Any", [])) != 1:
            reject(node, "name `Any` is not bound exactly once by `from typing import Any`")

    def record_text(self, name):
        fs = self.records[name]
        body = "; ".join(f"{name}_{f} : {coq_type(t)}" for f, t in fs)
        return f"Record src_{name} : Type := mk_{name} {{ {body} }}.\n"

    # ------------------------------------------------------------------ functions
    def type_of_annotation(self, node, a, what):
        if a is None:
            reject(node, f"{what} has no annotation")
        txt = (a.value if isinstance(a, ast.Constant) and isinstance(a.value, str) else ast.unparse(a)).replace(" ", "")
        table = {"int": "int", "bytes": "bytes", "SupportsWrite[bytes]": "wstream", "SupportsRead[bytes]": "rstream"}
        if txt in table:
            return table[txt]
        if txt in self.classes and txt not in g.BUILTIN_EXC:
            self.dataclass(node, txt)
            g.COQ_TYPE["dc:" + txt] = "src_" + txt
            return "dc:" + txt
        reject(node, f"{what}: annotation `{txt}`")

    def param_type(self, arg):
        t = self.type_of_annotation(arg, arg.annotation, f"parameter `{arg.arg}`")
        if is_dc(t):
            reject(arg, f"parameter `{arg.arg}` of a dataclass type")
        return t

    def external(self, name, at):
        """load_varint: not re-translated (see the header); only its binding and signature are checked"""
        defs = self.funcs.get(name, [])
        if len(defs) != 1 or len(self.bound.get(name, [])) != 1:
            reject(at, f"function `{name}` is not defined exactly once at module level (or is re-bound)")
        fd = defs[0]
        a = fd.args
        sig_ok = (not fd.decorator_list and not (a.posonlyargs or a.vararg or a.kwonlyargs or a.kw_defaults or a.kwarg or a.defaults)
                  and len(a.args) == 1 and a.args[0].annotation is not None
                  and (a.args[0].annotation.value if isinstance(a.args[0].annotation, ast.Constant) else ast.unparse(a.args[0].annotation)).replace(" ", "") == "SupportsRead[bytes]"
                  and fd.returns is not None and ast.unparse(fd.returns).replace(" ", "") == "Tuple[int,bytes]")
        if not sig_ok:
            reject(fd, f"signature of `{name}` is not (stream: \"SupportsRead[bytes]\") -> Tuple[int, bytes]")
        info = g.FuncInfo(name)
        info.params = [(a.args[0].arg, "rstream")]
        info.streams = [a.args[0].arg]
        info.ret = ("tuple", ["int", "bytes"])
        info.uses_fuel = True
        info.recursive = False
        info.ext_name = "src17_" + name
        return info

    def function(self, name, at):
        if name in EXTERNAL:
            return self.external(name, at)
        if name in self.done:
            return self.done[name]
        if name in self.in_progress:
            reject(at, f"recursive call of `{name}` (only direct self-recursion is translated)")
        defs = self.funcs.get(name, [])
        if len(defs) != 1 or len(self.bound.get(name, [])) != 1:
            reject(at, f"function `{name}` is not defined exactly once at module level (or is re-bound)")
        fd = defs[0]
        if fd.decorator_list:
            reject(fd, f"decorated function `{name}`")
        a = fd.args
        if a.posonlyargs or a.vararg or a.kwonlyargs or a.kw_defaults or a.kwarg or a.defaults:
            reject(fd, f"function `{name}` has non-plain parameters (defaults / * / ** / keyword-only / positional-only)")
        info = g.FuncInfo(name)
        info.params = [(x.arg, self.param_type(x)) for x in a.args]
        if len({p for p, _ in info.params}) != len(info.params):
            reject(fd, "duplicate parameter names")
        info.streams = [p for p, t in info.params if t in ("wstream", "rstream")]
        self.in_progress.append(name)
        ft = FuncTranslator17(self, info, fd)
        ft.run()
        self.in_progress.pop()
        self.done[name] = info
        self.order.append(info)
        return info


class FuncTranslator17(g.FuncTranslator):
    def run(self):
        info = self.info
        fd = self.fd
        info.recursive = any(isinstance(n, ast.Call) and isinstance(n.func, ast.Name) and n.func.id == info.name for n in ast.walk(fd))
        self.declared_ret = None
        if fd.returns is not None:
            txt = (fd.returns.value if isinstance(fd.returns, ast.Constant) and isinstance(fd.returns.value, str)
                   else ast.unparse(fd.returns)).replace(" ", "")
            if txt in self.mod.classes and txt not in g.BUILTIN_EXC:
                self.declared_ret = self.mod.type_of_annotation(fd, fd.returns, f"return type of `{info.name}`")
            elif txt in ("int", "bytes"):
                self.declared_ret = txt
        if info.recursive:
            if self.declared_ret is None:
                reject(fd, f"recursive function `{info.name}` without a return annotation int / bytes / dataclass")
            info.ret = self.declared_ret
            info.uses_fuel = True
        self.used_names = {n.id for n in ast.walk(fd) if isinstance(n, ast.Name)} | {a.arg for a in fd.args.args}
        self.ret = None
        for self.final in (False, True):
            self.loops = []
            self.nloops = 0
            self.ntmp = 0
            self.ncall = 0
            self.local_w = set()
            self.any_vars = set()
            self.break_stack = []
            self.in_local_loop = 0
            env = {p: t for p, t in info.params}
            self.fresh = set()
            self.ret_wrap = lambda t: f"Ok ({t})"
            body = self.block(fd.body, env, self.fall_off_end)
            if self.ret is None:
                reject(fd, f"function `{info.name}` has no path that returns")
            info.ret = self.ret
        self.check_return_annotation()
        params = " ".join(f"({mangle(p)} : {coq_type(t)})" for p, t in info.params)
        text = "".join(self.loops)
        if info.recursive:
            text += (f"Fixpoint {info.coq_name} (fuel : nat) {params} {{struct fuel}}\n  : result ({coq_type(info.result_type())}) :=\n"
                     f"match fuel with\n| O => Err EFuel\n| S fuel' =>\n{body}\nend.\n")
        else:
            fuel = "(fuel : nat) " if info.uses_fuel else ""
            text += f"Definition {info.coq_name} {fuel}{params}\n  : result ({coq_type(info.result_type())}) :=\n{body}.\n"
        info.text = text

    def check_return_annotation(self):
        r = self.fd.returns
        if r is None:
            return
        txt = (r.value if isinstance(r, ast.Constant) and isinstance(r.value, str) else ast.unparse(r)).replace(" ", "")

        def show(t):
            if isinstance(t, tuple):
                return "Tuple[" + ",".join(show(x) for x in t[1]) + "]"
            if is_dc(t):
                return t[3:]
            return {"none": "None"}.get(t, t)
        if txt != show(self.ret):
            reject(self.fd, f"return annotation `{txt}` of `{self.info.name}` differs from the inferred type `{show(self.ret)}`")

    # ------------------------------------------------------------------ variables
    def bind_var(self, node, env, name, t):
        if name in self.any_vars and name in env and env[name] != t:
            if inj(t, "x") is None:
                reject(node, f"`Any` variable `{name}` receives a value of type {t}")
            if name in self.loop_vars:
                reject(node, f"assignment to the `for` variable `{name}` inside its loop")
            env = dict(env)
            env[name] = t
            return env
        return super().bind_var(node, env, name, t)

    # ------------------------------------------------------------------ termination analysis
    def stmt_terminates(self, s):
        if isinstance(s, ast.Break):
            return True
        if isinstance(s, ast.For):
            return not has_own_break(s)
        if isinstance(s, ast.While):
            return isinstance(s.test, ast.Constant) and s.test.value is True and not has_own_break(s)
        return super().stmt_terminates(s)

    @staticmethod
    def contains_return(stmts):
        return (any(isinstance(n, ast.Return) for s in stmts for n in ast.walk(s))
                or any(isinstance(n, ast.Break) for s in stmts for n in own_nodes([s])))

    # ------------------------------------------------------------------ statements
    def block(self, stmts, env, k):
        if stmts:
            s, rest = stmts[0], stmts[1:]
            if isinstance(s, ast.Break):
                if rest:
                    reject(rest[0], "unreachable statement after break")
                if not self.break_stack:
                    reject(s, "`break` outside a `while True` / `for .. in count(..)` loop translated with a fall-through exit")
                return self.break_stack[-1](s, env)
            if isinstance(s, ast.AnnAssign):
                if not (isinstance(s.target, ast.Name) and s.simple == 1 and s.value is not None
                        and isinstance(s.annotation, ast.Name) and s.annotation.id == "Any"):
                    reject(s, "annotated assignment other than `name: Any = value`")
                self.mod.require_any(s)
                if s.target.id in env or self.in_local_loop or self.break_stack:
                    reject(s, f"`{s.target.id}: Any` re-declares a variable / is inside a loop")
                self.any_vars.add(s.target.id)
                return self.assign(s, s.target, s.value, env, lambda e: self.block(rest, e, k))
        return super().block(stmts, env, k)

    def assign(self, s, target, value, env, cont):
        # x = f(...).field : the call first (into a fresh temporary), then the projection
        if isinstance(value, ast.Attribute) and isinstance(value.value, ast.Call) and self.is_effectful(value.value, env):
            self.ncall += 1
            tmp = f"_call{self.ncall}"
            if tmp in self.used_names:
                reject(s, f"the function uses the name `{tmp}` reserved for temporaries")
            tgt = ast.copy_location(ast.Name(id=tmp, ctx=ast.Store()), s)
            proj = ast.copy_location(ast.Attribute(value=ast.copy_location(ast.Name(id=tmp, ctx=ast.Load()), s), attr=value.attr, ctx=ast.Load()), s)

            def after(env2):
                def cont2(env3):
                    env3 = dict(env3)
                    env3.pop(tmp, None)
                    return cont(env3)
                return self.assign(s, target, proj, env2, cont2)
            return self.effect_call(value.value, env, tgt, after, s)
        if isinstance(value, ast.Call) and self.is_effectful(value, env):
            return self.effect_call(value, env, target, cont, s)
        if not isinstance(target, ast.Name):
            reject(s, "assignment target other than a name (tuple targets only for tuple-valued calls)")
        binds, term, t = self.expr(value, env)
        ok = ("int", "bytes", "bool", "exc") + (("none", "any") if target.id in self.any_vars else ())
        if t not in ok:
            reject(s, f"assignment of a value of type {t}")
        env2 = self.bind_var(s, env, target.id, t)
        return wrap_binds(binds, f"let {mangle(target.id)} := {term} in\n{cont(env2)}")

    def do_return(self, s, env):
        v = s.value
        if isinstance(v, ast.Call) and isinstance(v.func, ast.Name) and v.func.id not in env and v.func.id in self.mod.classes \
                and v.func.id not in g.BUILTIN_EXC and not self.is_effectful(v, env):
            binds, term, t = self.expr(v, env)
            if not is_dc(t):
                reject(s, f"return of a value of type {t}")
            self.set_ret(s, t)
            return wrap_binds(binds, self.ret_wrap(self.result_term(term, env)))
        if isinstance(v, ast.Name) and is_dc(env.get(v.id)):
            self.set_ret(s, env[v.id])
            return self.ret_wrap(self.result_term(mangle(v.id), env))
        return super().do_return(s, env)

    def do_if(self, s, rest, env, k):
        binds, c = self.cond(s.test, env)
        ta, tb = self.terminates(s.body), self.terminates(s.orelse)
        if ta or tb:
            a = self.block(s.body, env, (lambda e: reject(s, "internal: fall-through of a terminating branch")) if ta
                           else (lambda e: self.block(rest, e, k)))
            if ta and tb and rest:
                reject(rest[0], "unreachable statement after an if whose branches both end")
            b = self.block(s.orelse, env, (lambda e: reject(s, "internal: fall-through of a terminating branch")) if tb
                           else (lambda e: self.block(rest, e, k)))
            return wrap_binds(binds, f"if {c}\nthen {a}\nelse {b}")
        if self.contains_return(s.body) or self.contains_return(s.orelse):
            reject(s, "if statement whose branches both may fall through and one of which contains `return` / `break`")
        out = {}
        self.njoin = getattr(self, "njoin", 0) + 1
        tag = self.njoin

        def grab(which):
            def kk(e):
                if which in out:
                    reject(s, "internal: a branch of a joining if falls through twice")
                out[which] = e
                return f"@JOIN{tag}{which}@"
            return kk
        a = self.block(s.body, env, grab("a"))
        b = self.block(s.orelse, env, grab("b"))
        if "a" not in out or "b" not in out:
            reject(s, "internal: a branch of a joining if did not fall through")
        ea, eb = out["a"], out["b"]
        names = self.assigned_names(s.body, env) + self.assigned_names(s.orelse, env)
        joined, jtype = [], {}
        for n in names:
            if n in joined or n not in ea or n not in eb:
                continue
            if ea[n] != eb[n]:
                if n in self.any_vars and inj(ea[n], "x") is not None and inj(eb[n], "x") is not None:
                    jtype[n] = "any"
                else:
                    reject(s, f"variable `{n}` has different types after the two branches")
            else:
                jtype[n] = ea[n]
            joined.append(n)
        env2 = dict(env)
        # a variable bound on one side only is not definitely bound afterwards
        for n in set(list(ea) + list(eb)):
            if n not in joined and (n not in ea or n not in eb):
                env2.pop(n, None)
        for n in joined:
            env2[n] = jtype[n]
        if not joined:
            reject(s, "if statement without effect on any variable")

        def tup_of(e):
            return tuple_term([(inj(e[n], mangle(n)) if jtype[n] == "any" else mangle(n)) for n in joined])
        a = a.replace(f"@JOIN{tag}a@", f"Ok {tup_of(ea)}")
        b = b.replace(f"@JOIN{tag}b@", f"Ok {tup_of(eb)}")
        tup = tuple_term([mangle(n) for n in joined])
        pat = mangle(joined[0]) if len(joined) == 1 else "'" + tup
        self.fresh -= set(joined)
        return wrap_binds(binds, f"bind (if {c}\nthen {a}\nelse {b}) (fun {pat} =>\n{self.block(rest, env2, k)})")

    # ------------------------------------------------------------------ loops
    def calls_self(self, s):
        return any(isinstance(n, ast.Call) and isinstance(n.func, ast.Name) and n.func.id == self.info.name for n in ast.walk(s))

    def do_loop(self, s, rest, env, k):
        for n in ast.walk(s):
            if isinstance(n, ast.Continue):
                reject(n, "`continue`")
        brk = has_own_break(s)
        if not brk and not self.calls_self(s) and not self.in_local_loop and not self.break_stack \
                and not any(isinstance(n, ast.Break) for n in ast.walk(s)):
            return super().do_loop(s, rest, env, k)
        # a LOCAL fixpoint: needed when the body calls the enclosing function (guardedness) or leaves through `break`
        if s.orelse:
            reject(s, "loop with an else clause")
        info = self.info
        info.uses_fuel = True
        self.nloops += 1
        lname = f"{info.coq_name}_loop{self.nloops}"
        state = list(env)
        env_in = dict(env)
        step = None
        pre = ""
        if isinstance(s, ast.For):
            it = s.iter
            if not (isinstance(s.target, ast.Name) and isinstance(it, ast.Call) and isinstance(it.func, ast.Name) and it.func.id == "count"
                    and not it.keywords and len(it.args) == 2 and all(int_literal(a) is not None for a in it.args)):
                reject(s, "`for` other than `for name in count(<int literal>, <int literal>)`")
            self.mod.require_import(it, "count", "from")
            var = s.target.id
            start, step = int_literal(it.args[0]), int_literal(it.args[1])
            env_in = self.bind_var(s, env, var, "int")
            if var not in state:
                state.append(var)
            pre = f"let {mangle(var)} := {zlit(start)} in\n"
            endless = True
            test = None
        else:
            endless = isinstance(s.test, ast.Constant) and s.test.value is True
            test = None if endless else s.test
            if brk and not endless:
                reject(s, "`break` inside a `while <condition>` loop")
        direct = endless and not brk           # no fall-through exit: the loop's result is the function's result
        if direct and rest:
            reject(rest[0], "unreachable statement after an endless loop")
        if not state:
            reject(s, "loop without any variable in scope")
        for v in state:
            if env_in[v] in ("none",) or is_dc(env_in[v]):
                pass
        S = "(" + " * ".join(coq_type(env_in[v]) for v in state) + ")" if len(state) > 1 else coq_type(env_in[state[0]])
        st_tuple = lambda: tuple_term([mangle(v) for v in state])     # noqa: E731
        # a loop with a fall-through exit and no `return` inside never yields Return: its payload type is empty
        has_ret = any(isinstance(n, ast.Return) for n in ast.walk(s))
        R = (coq_type(info.result_type()) if self.final else "_") if (has_ret or direct) else "Empty_set"
        saved = (self.ret_wrap, self.loop_vars, set(self.fresh))
        outer_wrap = self.ret_wrap
        self.ret_wrap = (lambda t: f"Ok ({t})") if direct else (lambda t: f"Ok (Return ({t}))")
        if isinstance(s, ast.For):
            self.loop_vars = tuple(self.loop_vars) + (s.target.id,)
        self.fresh = set()

        def check_state(node, e, what):
            for v in state:
                if e.get(v) != env_in[v]:
                    reject(node, f"loop variable `{v}` is not bound with the same type {what}")

        def again(e):
            check_state(s, e, "at the end of the body")
            items = [mangle(v) for v in state]
            if step is not None:
                i = state.index(s.target.id)
                items[i] = f"{items[i]} + {zlit(step)}"
            return f"{lname} lfuel' {tuple_term(items)}"

        def on_break(node, e):
            check_state(node, e, "at a `break`")
            return f"Ok (Fall {st_tuple()})"
        self.break_stack.append(on_break if brk else (lambda node, e: reject(node, "`break` that belongs to no translated loop")))
        self.in_local_loop += 1
        body = self.block(s.body, env_in, again)
        self.in_local_loop -= 1
        self.break_stack.pop()
        self.ret_wrap, self.loop_vars, self.fresh = saved
        self.fresh -= set(state)
        pat = mangle(state[0]) if len(state) == 1 else "'" + st_tuple()
        if direct:
            rtype = f"result ({R})"
            inner = body
        else:
            rtype = f"result (flow ({S}) ({R}))"
            if test is None:
                inner = body
            else:
                binds, c = self.cond(test, env_in)
                inner = wrap_binds(binds, f"if {c}\nthen {body}\nelse Ok (Fall {st_tuple()})")
        fix = (f"(fix {lname} (lfuel : nat) (st : {S}) {{struct lfuel}}\n  : {rtype} :=\n"
               f"match lfuel with\n| O => Err EFuel\n| S lfuel' =>\nlet {pat} := st in\n{inner}\nend)")
        call = f"{fix} fuel {st_tuple()}"
        if direct:
            if outer_wrap("@") == "Ok (@)":
                return pre + call
            r = self.tmp()
            return pre + f"bind ({call}) (fun {r} =>\n{outer_wrap(r)})"
        env_out = {v: env_in[v] for v in state}
        r = self.tmp()
        return pre + (f"bind ({call}) (fun fl =>\nmatch fl with\n| Fall {st_tuple()} =>\n{self.block(rest, env_out, k)}\n"
                      f"| Return {r} => {outer_wrap(r) if has_ret else 'match ' + r + ' with end'}\nend)")

    # ------------------------------------------------------------------ effectful calls
    def bind_result(self, s, target, env, t, tmpname):
        if target is None:
            return env, ""
        if isinstance(target, ast.Name):
            temp = target.id.startswith("_call") and target.id not in self.used_names
            if target.id == "@ret":
                e2 = dict(env)
                e2["@ret"] = t
                return e2, f"let v__ret := {tmpname} in\n"
            if t not in ("int", "bytes", "bool") and not (temp and is_dc(t)):
                reject(s, f"assignment of a value of type {t}")
            return self.bind_var(s, env, target.id, t), f"let {mangle(target.id)} := {tmpname} in\n"
        if isinstance(target, ast.Tuple) and all(isinstance(x, ast.Name) for x in target.elts):
            if not (isinstance(t, tuple) and len(t[1]) == len(target.elts)):
                reject(s, f"tuple assignment from a value of type {t}")
            if len({x.id for x in target.elts}) != len(target.elts):
                reject(s, "repeated name in a tuple target")
            for x, tx in zip(target.elts, t[1]):
                env = self.bind_var(s, env, x.id, tx)
            return env, f"let '({', '.join(mangle(x.id) for x in target.elts)}) := {tmpname} in\n"
        reject(s, "assignment target other than a name / tuple of names")

    def effect_call(self, call, env, target, cont, s):
        if call.keywords or any(isinstance(a, ast.Starred) for a in call.args):
            reject(call, "keyword / star arguments")
        f = call.func
        # stream.read(<int expression>)
        if isinstance(f, ast.Attribute) and isinstance(f.value, ast.Name) and env.get(f.value.id) == "rstream" and f.attr == "read" \
                and len(call.args) == 1 and (int_literal(call.args[0]) is None):
            sname = f.value.id
            if sname in self.loop_vars:
                reject(call, "stream used as a `for` variable")
            self.fresh.discard(sname)
            sv = mangle(sname)
            binds, term, t = self.expr(call.args[0], env)
            if t != "int":
                reject(call, f"read() of a count of type {t}")
            r = self.tmp()
            env2, bt = self.bind_result(s, target, env, "bytes", r)
            return wrap_binds(binds, f"let '({r}, {sv}) := py_read_n {sv} ({term}) in\n{bt}{cont(env2)}")
        if isinstance(f, ast.Name) and f.id in self.mod.funcs and f.id not in env:
            if f.id == self.info.name:
                callee, cname, fuel = self.info, self.info.coq_name, " fuel'"
            else:
                callee = self.mod.function(f.id, call)
                cname = getattr(callee, "ext_name", None) or callee.coq_name
                fuel = " fuel" if callee.uses_fuel else ""
                if callee.uses_fuel:
                    self.info.uses_fuel = True
            if len(call.args) != len(callee.params):
                reject(call, f"call of `{f.id}` with {len(call.args)} arguments")
            binds, terms, outs = [], [], []
            for a, (pn, pt) in zip(call.args, callee.params):
                if pt in ("wstream", "rstream"):
                    if not (isinstance(a, ast.Name) and env.get(a.id) == pt):
                        reject(a, f"stream argument of `{f.id}` is not a plain name of a {pt}")
                    if a.id in outs:
                        reject(a, "the same stream passed twice")
                    self.fresh.discard(a.id)
                    outs.append(a.id)
                    terms.append(mangle(a.id))
                else:
                    b, tm, t = self.expr(a, env)
                    if t != pt:
                        reject(a, f"argument of type {t} for parameter `{pn}` : {pt} of `{f.id}`")
                    binds += b
                    terms.append(f"({tm})")
            if len(outs) != len(callee.streams):
                reject(call, "internal: stream parameters")
            r = self.tmp()
            if target is not None and callee.ret == "none":
                reject(s, f"the None result of `{f.id}` is used")
            if callee.ret is None:
                reject(call, f"internal: result type of `{f.id}` unknown")
            env2, bt = self.bind_result(s, target, env, callee.ret, r)
            pat = r if not outs else "'(" + ", ".join([r] + [mangle(o) for o in outs]) + ")"
            return wrap_binds(binds, f"bind ({cname}{fuel} {' '.join(terms)}) (fun {pat} =>\n{bt}{cont(env2)})")
        return super().effect_call(call, env, target, cont, s)

    # ------------------------------------------------------------------ expressions
    def expr(self, e, env):
        if isinstance(e, ast.Constant) and e.value is None:
            return [], "tt", "none"
        if isinstance(e, ast.Name):
            if e.id in env:
                t = env[e.id]
                if is_dc(t) or t == "none":
                    return [], (mangle(e.id) if is_dc(t) else "tt"), t
            elif e.id not in g.BUILTIN_EXC and e.id not in self.mod.classes:
                return [], zlit(self.mod.constant(e, e.id)), "int"
        if isinstance(e, ast.Attribute) and isinstance(e.value, ast.Name) and is_dc(env.get(e.value.id)):
            cname = env[e.value.id][3:]
            fields = dict(self.mod.records[cname])
            if e.attr not in fields:
                reject(e, f"`{cname}` has no field `{e.attr}`")
            if fields[e.attr] == "any":
                reject(e, f"read of the `Any` field `{e.attr}`")
            return [], f"({cname}_{e.attr} {mangle(e.value.id)})", fields[e.attr]
        return super().expr(e, env)

    def call_expr(self, e, env):
        f = e.func
        if isinstance(f, ast.Name) and f.id not in env and f.id in self.mod.classes and f.id not in g.BUILTIN_EXC \
                and f.id not in self.mod.funcs:
            fields = self.mod.dataclass(e, f.id)
            g.COQ_TYPE["dc:" + f.id] = "src_" + f.id
            if any(isinstance(a, ast.Starred) for a in e.args) or any(kw.arg is None for kw in e.keywords):
                reject(e, "star arguments")
            given = {}
            for (fn, _), a in zip(fields, e.args):
                given[fn] = a
            if len(e.args) > len(fields):
                reject(e, f"too many arguments for `{f.id}`")
            for kw in e.keywords:
                if kw.arg in given or kw.arg not in dict(fields):
                    reject(e, f"field `{kw.arg}` given twice / unknown in the construction of `{f.id}`")
                given[kw.arg] = kw.value
            if set(given) != {fn for fn, _ in fields}:
                reject(e, f"construction of `{f.id}` does not give every field exactly once")
            # evaluation order: positional arguments, then keywords in source order
            order = [fn for (fn, _), _ in zip(fields, e.args)] + [kw.arg for kw in e.keywords]
            binds, terms = [], {}
            for fn in order:
                ft = dict(fields)[fn]
                b, tm, t = self.expr_any(given[fn], env) if ft == "any" else self.expr(given[fn], env)
                if ft == "any":
                    tm = inj(t, tm)
                    if tm is None:
                        reject(given[fn], f"value of type {t} for the `Any` field `{fn}`")
                elif t != ft:
                    reject(given[fn], f"value of type {t} for the field `{fn}` : {ft}")
                binds += b
                terms[fn] = tm
            return binds, "(mk_" + f.id + " " + " ".join(f"({terms[fn]})" if not terms[fn].startswith("(") else terms[fn] for fn, _ in fields) + ")", "dc:" + f.id
        return super().call_expr(e, env)

    def expr_any(self, e, env):
        """an expression stored into an `Any` field: additionally a plain variable currently holding a pyval"""
        if isinstance(e, ast.Name) and env.get(e.id) == "any":
            return [], mangle(e.id), "any"
        return self.expr(e, env)


# ----------------------------------------------------------------------------------------------- self-test
SELFTEST_HEAD = ("import math\nimport dataclasses\nfrom io import BytesIO\nfrom itertools import count\nfrom typing import Any, Tuple\nK = 3\nKK = 1\nKK = 2\n"
                 "@dataclasses.dataclass(frozen=True)\nclass P:\n    n: int\n    v: Any\n    raw: bytes\n"
                 "@dataclasses.dataclass\nclass Q:\n    n: int\n"
                 "def load_varint(stream: 'SupportsRead[bytes]') -> Tuple[int, bytes]:\n    return 0, b''\n")
SELFTEST = [
    ("f", "def f(x: int) -> int:\n    return x + K\n", None),
    ("f", "def f(x: int) -> int:\n    return x + KK\n", "module-level int constant bound exactly once"),
    ("f", "def f(x: int) -> int:\n    return x + NOPE\n", "module-level int constant bound exactly once"),
    ("f", "def f(x: int) -> P:\n    return P(x, raw=b'', v=None)\n", None),
    ("f", "def f(x: int) -> P:\n    return P(x, raw=b'')\n", "does not give every field exactly once"),
    ("f", "def f(x: int) -> Q:\n    return Q(x)\n", "only dataclasses.dataclass(frozen=True)"),
    ("f", "def f(x: int) -> P:\n    d: Any = None\n    if x:\n        d = x\n    else:\n        d = b'a'\n    return P(n=x, v=d, raw=b'')\n", None),
    ("f", "def f(x: int) -> int:\n    d: Any = None\n    if x:\n        d = x\n    else:\n        d = b'a'\n    return d\n", "use of the any"),
    ("f", "def f(x: int) -> int:\n    d: int = 0\n    return d\n", "annotated assignment other than"),
    ("f", "def f(s: 'SupportsRead[bytes]', n: int) -> bytes:\n    b = s.read(n)\n    return b\n", None),
    ("f", "def f(s: 'SupportsRead[bytes]', n: int) -> bytes:\n    b = s.read(n, 1)\n    return b\n", "stream method `read`"),
    ("f", "def f(x: int) -> int:\n    while True:\n        x = x - 1\n        if x < 5:\n            break\n    return x\n", None),
    ("f", "def f(x: int) -> int:\n    while True:\n        x = x - 1\n        if x < 5:\n            continue\n        return x\n", "`continue`"),
    ("f", "def f(x: int) -> int:\n    while x:\n        x = x - 1\n        if x < 5:\n            break\n    return x\n", "`break` inside a `while <condition>` loop"),
    ("f", "def f(s: 'SupportsRead[bytes]', x: int) -> P:\n    if x < 0:\n        return P(x, None, b'')\n    r = f(s, x - 1).raw\n    return P(x, None, r)\n", None),
    ("f", "def f(s: 'SupportsRead[bytes]', x: int):\n    if x < 0:\n        return P(x, None, b'')\n    r = f(s, x - 1).raw\n    return P(x, None, r)\n", "without a return annotation"),
    ("f", "def h(x: int) -> int:\n    y = f(x)\n    return y\ndef f(x: int) -> int:\n    y = h(x)\n    return y\n", "only direct self-recursion"),
    ("f", "def f(x: int) -> int:\n    p = P(x, None, b'')\n    return p.n\n", "assignment of a value of type dc:P"),
    ("f", "def f(s: 'SupportsRead[bytes]') -> int:\n    v, r = load_varint(s)\n    return v\n", None),
    ("f", "def f(x: int) -> int:\n    try:\n        return x\n    except ValueError:\n        return 0\n", "statement `Try`"),
    ("f", "def f(b: bytes) -> int:\n    return b[0]\n", "expression `Subscript`"),
    ("f", "def f(x: int) -> int:\n    return {1: 2}[x]\n", "expression `Subscript`"),
    ("f", "def f(x: int) -> int:\n    return 1 if x in (1, 2) else 0\n", "expression `Tuple`|comparison In"),
]


def selftest():
    bad = 0
    for root, src, want in SELFTEST:
        try:
            Translator17(SELFTEST_HEAD + src).function(root, ast.parse(""))
            got = None
        except Reject as ex:
            got = str(ex)
        ok = (got is None) if want is None else (got is not None and any(w in got for w in want.split("|")))
        if not ok:
            bad += 1
            print(f"SELFTEST-FAIL: expected {want!r}, got {got!r} for\n{src}")
    print(f"selftest: {len(SELFTEST) - bad}/{len(SELFTEST)} snippets behaved as expected")
    return 1 if bad else 0


# ----------------------------------------------------------------------------------------------- driver
def note(ex):
    return str(ex).replace("*", "x").replace("(", "[").replace(")", "]")[:600]


def varint_from_source(source):
    """does harness/gen_c16_src.py accept the current source of the varint primitives (so that gen/C16Src.v defines
    src_load_varint and Proofs/C16Src.v is meant to compile)?"""
    try:
        m = g.Translator(source)
        for r in g.ROOTS:
            m.function(r, m.tree)
        return True
    except Reject:
        return False


def generate():
    """(text of C17Src.v, text of C17SrcBridge.v, {"reader": None | reason}, from_source)"""
    path = os.path.join(REPO, SRC_REL)
    with open(path, encoding="utf-8") as f:
        source = f.read()
    verdict = {"reader": None}
    # C17SRC_MODEL_VARINT=1 (set by the stage of harness/props/c17.py on a retry): use the model's load_varint although the
    # C16 translator accepts the source, for a tree on which Proofs/C16Src.v does not compile
    from_src = varint_from_source(source) and not os.environ.get("C17SRC_MODEL_VARINT")
    out = ["(* GENERATED by harness/gen_c17_src.py from the source text of " + SRC_REL.replace(os.sep, "/") + ". Do not edit.",
           "   Mechanical translation (accepted subset: see the generator and harness/gen_c16_src.py). *)",
           "From BP Require Import Base.Prelude Model.C16SrcLib Model.C17SrcLib."]
    bridge = ["(* GENERATED by harness/gen_c17_src.py. Do not edit.  The one equation the C17 source tie needs about load_varint. *)",
              "From BP Require Import Base.Prelude Model.Varint Model.C16SrcLib gen.C17Src."]
    if from_src:
        out += ["From BP Require gen.C16Src.", "",
                "(* load_varint: the translation of its current source by harness/gen_c16_src.py *)",
                "Definition src17_load_varint (fuel : nat) (s : list byte) : result ((Z * list byte) * list byte) :=",
                "  BP.gen.C16Src.src_load_varint fuel s.",
                "Definition src17_varint_from_source : bool := true.", ""]
        bridge += ["From BP Require Proofs.C16Src.", "",
                   "Lemma src17_load_varint_spec : forall s fuel, (10 < fuel)%nat -> src17_load_varint fuel s = err_class (load_varint s).",
                   "Proof. exact BP.Proofs.C16Src.src_load_is_model. Qed."]
    else:
        out += ["From BP Require Model.Varint.", "",
                "(* load_varint: harness/gen_c16_src.py rejects its current source; the hand-written model stands in for it *)",
                "Definition src17_load_varint (fuel : nat) (s : list byte) : result ((Z * list byte) * list byte) :=",
                "  err_class (BP.Model.Varint.load_varint s).",
                "Definition src17_varint_from_source : bool := false.", ""]
        bridge += ["", "Lemma src17_load_varint_spec : forall s fuel, (10 < fuel)%nat -> src17_load_varint fuel s = err_class (load_varint s).",
                   "Proof. reflexivity. Qed."]
    try:
        mod = Translator17(source)
        for r in ROOTS:
            mod.function(r, mod.tree)
        for name in mod.record_order:
            out.append(f"(* ---- dataclass {name} ---- *)")
            out.append(mod.record_text(name))
        for info in mod.order:
            out.append(f"(* ---- {info.name} ---- *)")
            out.append(info.text)
        out.append("Definition src17_reader_translated : bool := true.")
    except Reject as ex:
        verdict["reader"] = str(ex)
        out.append("(* _load_field NOT translated - REJECTED: %s *)" % note(ex))
        out.append("Definition src17_reader_translated : bool := false.")
    return "\n".join(out) + "\n", "\n".join(bridge) + "\n", verdict, from_src


def write_if_changed(path, text):
    old = None
    if os.path.exists(path):
        with open(path) as f:
            old = f.read()
    if old != text:
        os.makedirs(os.path.dirname(path), exist_ok=True)
        with open(path + ".tmp", "w") as f:
            f.write(text)
        os.replace(path + ".tmp", path)
        return True
    return False


def main():
    mode = sys.argv[1] if len(sys.argv) > 1 else ""
    if mode == "--selftest":
        return selftest()
    text, bridge, verdict, from_src = generate()
    if mode == "--print":
        print(text, end="")
    elif mode != "--dry-run":
        ch = write_if_changed(OUT, text)
        ch = write_if_changed(OUT_BRIDGE, bridge) or ch
        print("C17Src.v " + ("regenerated" if ch else "unchanged"))
    if mode != "--print":
        for part, why in verdict.items():
            print(f"C17SRC-TRANSLATION-{'OK' if why is None else 'REJECTED'}: {part}" + ("" if why is None else f": {why}"))
        print(f"C17SRC-VARINT-FROM-SOURCE: {'yes' if from_src else 'no'}")
    return 3 if any(v is not None for v in verdict.values()) else 0


if __name__ == "__main__":
    try:
        sys.exit(main())
    except Exception as e:  # fail closed: a stale translation must not survive a source that cannot even be read / parsed
        msg = f"{type(e).__name__}: {e}"
        if not (len(sys.argv) > 1 and sys.argv[1] in ("--dry-run", "--print", "--selftest")):
            text = ("(* gen_c17_src.py: source-translation ERROR %s *)\nDefinition translation_failed : False := I.\n" % note(msg))
            write_if_changed(OUT, text)
        print(f"C17SRC-TRANSLATION-REJECTED: reader: {msg}")
        sys.exit(3)
