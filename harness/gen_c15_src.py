#!/venv/bin/python
"""C15 source-translation tie: translate the CURRENT source text of the Timestamp / Duration conversions
    datetime_default_gen  DATETIME_ZERO
    _Timestamp.from_datetime  _Timestamp.to_datetime  _Timestamp.timestamp_to_json
    _Duration.from_timedelta  _Duration.to_timedelta  _Duration.delta_to_json
of ${VERIF_REPO:-/repo}/src/betterproto/__init__.py into Gallina (coq/gen/C15Src.v), mechanically, with Python's `ast`.

The output is proved extensionally equal to the hand-written model (Model/Time.v from_datetime / to_datetime /
timestamp_to_json / from_timedelta / to_timedelta / delta_to_json) in coq/Proofs/C15Src.v; coq/Properties/C15Src.v states
it and restates the headline theorems of Properties/C15.v over the translated functions.

This script is an EXTENSION of harness/gen_c16_src.py, which it imports as a library and does not modify: the statement /
expression translation, the typing discipline, the error monad, the if-join and the fail-closed behaviour are the ones
documented at the top of that file.

    gen_c15_src.py             translate and (re)write coq/gen/C15Src.v (only when the content changed)
    gen_c15_src.py --dry-run   translate, print the verdict, write nothing
    gen_c15_src.py --print     translate and print the Gallina text, write nothing
    gen_c15_src.py --selftest  constructs outside the subset must be rejected with the expected message (writes nothing)

A rejection is NOT a verdict about the property: harness/props/c15.py records "source-translation tie did not hold" and
the sampled correspondence + oracles decide.  Three parts are translated independently: "convert" (datetime_default_gen,
DATETIME_ZERO and the four conversion methods), "dur_json" (delta_to_json) and "ts_json" (timestamp_to_json).  A rejected
part leaves NO definition in coq/gen/C15Src.v, only `src_c15_<part>_translated := false`; an unreadable / unparsable source
leaves a file that does not compile.

ADDITIONS TO THE ACCEPTED SUBSET  (target vocabulary: coq/Model/C15SrcLib.v; static types datetime, timedelta, naive_s,
str, ifloat, msg2 as documented there)
-----------------------------------------------------------------------------------------------------------------
Module level (checked, never executed):
  * `datetime`, `timedelta`, `timezone` bound exactly once by the top-level `from datetime import ...`
  * a class `_Timestamp(Timestamp)` / `_Duration(Duration)` defined exactly once at module level, undecorated, with exactly
    that one base, the base bound exactly once by `from .lib.google.protobuf import ...`; the first two fields of the
    bundled class (lib/std/google/protobuf/__init__.py) must be `seconds`, `nanos` in this order (positional cls(a, b))
  * METHODS of such a class, defined exactly once in it: `@classmethod` (first parameter `cls`), `@staticmethod`, or
    undecorated (first parameter `self`: translated as the two int parameters self.seconds, self.nanos)
  * `NAME = f()` at module level, bound exactly once, f a translated module-level function without parameters
    -> `src_NAME : result T` (evaluated once at import; every use binds it)
Parameters: annotated `int`, `bytes`, `datetime` (AWARE, see the library), `timedelta`.  A keyword-only parameter whose
  name starts with `_` and whose default is `timedelta(microseconds=<int literal>)` is a LOCAL CONSTANT bound to its
  default at the start of the function (no call in the module may pass it by keyword: checked).
Statements:
  * `a, b = divmod(x, <constant int expression != 0>)`
  * `return cls(e1, e2)` in a classmethod (-> msg2, return annotation = the class name)
Expressions:
  * str literals; `a if c else b` over them; f-strings made of text, `{s}` (s : str), `{i}` (i : int -> py_str_of_int),
    `{i:0<k>d}` (i : int -> py_format_0d; i : ifloat -> py_format_d_float, which raises ValueError)
  * integer-valued float literals (1e3 ...): `int * literal`, `ifloat % literal`, `ifloat // literal` (literal > 0),
    `ifloat == <int literal>`, `int(ifloat)`
  * `abs(i)`; `datetime(y, m, d, tzinfo=timezone.utc)`; `timedelta(seconds=.., microseconds=..)` (either or both, pure int
    arguments); `td // td`; `dt - dt`; `dt + td`; `td.days` / `.seconds` / `.microseconds`; `self.seconds` / `self.nanos`;
    `dt.tzinfo is not None`; `dt.astimezone(timezone.utc)`; `dt.microsecond`; `dt.replace(microsecond=0, tzinfo=None)`;
    `<naive_s>.isoformat()`
Everything else is REJECTED, naming the construct.
"""
import ast
import os
import re
import sys

sys.path.insert(0, os.path.dirname(os.path.abspath(__file__)))
import gen_c16_src as g  # noqa: E402  (library: never modified)
from gen_c16_src import Reject, reject, mangle, wrap_binds, int_literal, zlit  # noqa: E402

REPO = os.environ.get("VERIF_REPO", "/repo")
SRC_REL = g.SRC_REL
LIB_REL = os.path.join("src", "betterproto", "lib", "std", "google", "protobuf", "__init__.py")
OUT = os.path.join(os.path.dirname(os.path.abspath(__file__)), "..", "coq", "gen", "C15Src.v")

# in-memory extension of the library's table with NEW keys only (nothing existing is changed)
g.COQ_TYPE = dict(g.COQ_TYPE, datetime="datetime", timedelta="Z", naive_s="Z", str="list byte", ifloat="Z", msg2="(Z * Z)")

VALUE_TYPES = ("int", "bytes", "bool", "exc", "datetime", "timedelta", "naive_s", "str", "ifloat")
CLASS_BASE = {"_Timestamp": "Timestamp", "_Duration": "Duration"}

# (part, [(class or None, function name)])
PARTS = [
    ("convert", [(None, "datetime_default_gen"), ("_Timestamp", "from_datetime"), ("_Timestamp", "to_datetime"),
                 ("_Duration", "from_timedelta"), ("_Duration", "to_timedelta")]),
    ("dur_json", [("_Duration", "delta_to_json")]),
    ("ts_json", [("_Timestamp", "timestamp_to_json")]),
]


def const_int(e):
    """value of a constant int expression (literals under + - * ** and unary -), else None"""
    lit = int_literal(e)
    if lit is not None:
        return lit
    if isinstance(e, ast.BinOp) and isinstance(e.op, (ast.Add, ast.Sub, ast.Mult, ast.Pow)):
        a, b = const_int(e.left), const_int(e.right)
        if a is None or b is None:
            return None
        if isinstance(e.op, ast.Pow):
            return a ** b if 0 <= b <= 64 else None
        return a + b if isinstance(e.op, ast.Add) else a - b if isinstance(e.op, ast.Sub) else a * b
    return None


def float_literal(e):
    """integer value of an integer-valued float literal below 2**53, else None"""
    if isinstance(e, ast.Constant) and type(e.value) is float and e.value.is_integer() and abs(e.value) < 2 ** 53:
        return int(e.value)
    return None


def str_bytes(s):
    return "[" + "; ".join("x%02x" % c for c in s.encode("utf-8")) + "]"


def cat(parts):
    """right-nested concatenation, the shape the model writes: a ++ (b ++ (c ++ d))"""
    if not parts:
        return "[]"
    out = parts[-1]
    for p in reversed(parts[:-1]):
        out = f"({p} ++ {out})"
    return out


class Translator15(g.Translator):
    def __init__(self, source, lib_source=None):
        self.lib_source = lib_source
        super().__init__(source)
        self.consts_done = {}     # module constant -> (coq text, type)
        self.const_order = []

    def index_module(self):
        super().index_module()
        self.mod_assigns = {}
        for node in self.tree.body:
            if isinstance(node, ast.Assign) and len(node.targets) == 1 and isinstance(node.targets[0], ast.Name):
                self.mod_assigns.setdefault(node.targets[0].id, []).append(node)
        self.kw_passed = set()
        for sub in ast.walk(self.tree):
            if isinstance(sub, ast.Call):
                for k in sub.keywords:
                    self.kw_passed.add(k.arg)      # None for **kwargs

    def require_import(self, node, name, kind):
        if name in ("datetime", "timedelta", "timezone"):
            if self.imports.get(name) != ("from", "datetime", name, 0) or len(self.bound.get(name, [])) != 1:
                reject(node, f"name `{name}` is not bound exactly once by the top-level `from datetime import {name}`")
            return
        return super().require_import(node, name, kind)

    def class_def(self, cname, at):
        defs = self.classes.get(cname, [])
        if cname not in CLASS_BASE or len(defs) != 1 or len(self.bound.get(cname, [])) != 1:
            reject(at, f"class `{cname}` is not defined exactly once at module level")
        c = defs[0]
        base = CLASS_BASE[cname]
        if c.decorator_list or c.keywords or len(c.bases) != 1 or not (isinstance(c.bases[0], ast.Name) and c.bases[0].id == base):
            reject(c, f"class `{cname}` is decorated / has keywords / has bases other than ({base})")
        if self.imports.get(base) != ("from", "lib.google.protobuf", base, 1) or len(self.bound.get(base, [])) != 1:
            reject(c, f"base class `{base}` is not bound exactly once by `from .lib.google.protobuf import {base}`")
        # positional order of the fields of the bundled class
        if self.lib_source is not None:
            ldefs = [n for n in ast.parse(self.lib_source).body if isinstance(n, ast.ClassDef) and n.name == base]
            if len(ldefs) != 1:
                reject(c, f"bundled class `{base}` is not defined exactly once in {LIB_REL}")
            fields = [s.target.id for s in ldefs[0].body if isinstance(s, ast.AnnAssign) and isinstance(s.target, ast.Name)]
            anns = [ast.unparse(s.annotation) for s in ldefs[0].body if isinstance(s, ast.AnnAssign) and isinstance(s.target, ast.Name)]
            if fields[:2] != ["seconds", "nanos"] or len(fields) != 2 or anns != ["int", "int"]:
                reject(c, f"bundled class `{base}` does not have exactly the fields seconds : int, nanos : int in this order")
        return c

    def param_type15(self, arg):
        a = arg.annotation
        if a is None:
            reject(arg, f"parameter `{arg.arg}` has no annotation")
        txt = (a.value if isinstance(a, ast.Constant) and isinstance(a.value, str) else ast.unparse(a)).replace(" ", "")
        if txt in ("datetime", "timedelta"):
            self.require_import(arg, txt, "from")
            return txt
        if txt in ("int", "bytes"):
            return txt
        reject(arg, f"parameter annotation `{txt}` of `{arg.arg}`")

    def function(self, name, at):
        return self.unit(None, name, at)

    def unit(self, cname, name, at):
        """a module-level function (cname None) or a method of one of the two classes"""
        key = name if cname is None else f"{cname}.{name}"
        if key in self.done:
            return self.done[key]
        if key in self.in_progress:
            reject(at, f"recursive call of `{key}`")
        kind = "function"
        if cname is None:
            defs = self.funcs.get(name, [])
            if len(defs) != 1 or len(self.bound.get(name, [])) != 1:
                reject(at, f"function `{name}` is not defined exactly once at module level (or is re-bound)")
            fd = defs[0]
            if fd.decorator_list:
                reject(fd, f"decorated function `{name}`")
        else:
            c = self.class_def(cname, at)
            defs = [n for n in c.body if isinstance(n, (ast.FunctionDef, ast.AsyncFunctionDef)) and n.name == name]
            stores = [n for s in c.body for n in ast.walk(s) if isinstance(n, ast.Name) and isinstance(n.ctx, ast.Store) and n.id == name
                      and not any(n in ast.walk(f) for f in c.body if isinstance(f, (ast.FunctionDef, ast.AsyncFunctionDef)))]
            if len(defs) != 1 or not isinstance(defs[0], ast.FunctionDef) or stores:
                reject(c, f"method `{key}` is not defined exactly once in its class (or is re-bound there)")
            fd = defs[0]
            decs = [d.id if isinstance(d, ast.Name) else ast.unparse(d) for d in fd.decorator_list]
            if decs == ["classmethod"]:
                kind = "classmethod"
            elif decs == ["staticmethod"]:
                kind = "staticmethod"
            elif decs == []:
                kind = "method"
            else:
                reject(fd, f"method `{key}` decorated with {decs}")
            for d in decs:
                self.require_unshadowed(fd, d)
        a = fd.args
        if a.posonlyargs or a.vararg or a.kwarg or a.defaults:
            reject(fd, f"function `{key}` has non-plain parameters (positional defaults / * / ** / positional-only)")
        info = g.FuncInfo(name)
        info.kind, info.cname = kind, cname
        args = list(a.args)
        if kind == "classmethod":
            if not args or args[0].arg != "cls" or args[0].annotation is not None:
                reject(fd, f"classmethod `{key}` whose first parameter is not a plain `cls`")
            args = args[1:]
        if kind == "method":
            if not args or args[0].arg != "self" or args[0].annotation is not None:
                reject(fd, f"method `{key}` whose first parameter is not a plain `self`")
            args = args[1:]
            info.params = [("self__seconds", "int"), ("self__nanos", "int")]
        info.params = info.params + [(x.arg, self.param_type15(x)) for x in args]
        info.local_consts = []         # keyword-only `_name: timedelta = timedelta(microseconds=k)`
        for x, d in zip(a.kwonlyargs, a.kw_defaults):
            t = self.param_type15(x)
            ok = (d is not None and x.arg.startswith("_") and t == "timedelta" and isinstance(d, ast.Call) and isinstance(d.func, ast.Name)
                  and d.func.id == "timedelta" and not d.args and len(d.keywords) == 1 and d.keywords[0].arg == "microseconds"
                  and int_literal(d.keywords[0].value) is not None)
            if not ok:
                reject(x, f"keyword-only parameter `{x.arg}` other than `_name: timedelta = timedelta(microseconds=<int literal>)`")
            if x.arg in self.kw_passed:
                reject(x, f"the private keyword-only parameter `{x.arg}` is passed by some call in the module")
            self.require_import(x, "timedelta", "from")
            info.local_consts.append((x.arg, t, f"py_timedelta_s_us 0 {zlit(int_literal(d.keywords[0].value))}"))
        names = [p for p, _ in info.params] + [p for p, _, _ in info.local_consts]
        if len(set(names)) != len(names) or "cls" in names or "self" in names:
            reject(fd, "duplicate / reserved parameter names")
        info.streams = []
        self.in_progress.append(key)
        ft = FuncTranslator15(self, info, fd)
        ft.run()
        self.in_progress.pop()
        self.done[key] = info
        self.order.append(info)
        return info

    def module_const(self, node, name):
        """NAME = f() at module level -> src_NAME : result T"""
        if name in self.consts_done:
            return self.consts_done[name][1]
        defs = self.mod_assigns.get(name, [])
        if len(defs) != 1 or len(self.bound.get(name, [])) != 1:
            reject(node, f"name `{name}` is not a variable that is definitely bound here, nor a module-level constant bound exactly once")
        v = defs[0].value
        if not (isinstance(v, ast.Call) and isinstance(v.func, ast.Name) and not v.args and not v.keywords and v.func.id in self.funcs):
            reject(defs[0], f"module-level constant `{name}` is not bound by a call `f()` of a module-level function")
        callee = self.unit(None, v.func.id, defs[0])
        if callee.params or callee.uses_fuel or callee.ret not in VALUE_TYPES:
            reject(defs[0], f"module-level constant `{name}`: `{v.func.id}` has parameters / loops / an unsupported result")
        text = f"Definition src_{name} : result ({g.coq_type(callee.ret)}) := {callee.coq_name}.\n"
        self.consts_done[name] = (text, callee.ret)
        self.const_order.append((name, len(self.order)))
        return callee.ret


class FuncTranslator15(g.FuncTranslator):
    def run(self):
        info = self.info
        self.ret = None
        for self.final in (False, True):
            self.loops = []
            self.nloops = 0
            self.ntmp = 0
            self.local_w = set()
            self.fresh = set()
            env = {p: t for p, t in info.params}
            pre = []
            for p, t, term in info.local_consts:
                env[p] = t
                pre.append((mangle(p), term))
            self.ret_wrap = lambda t: f"Ok ({t})"
            body = wrap_binds(pre, self.block(self.fd.body, env, self.fall_off_end))
            if self.ret is None:
                reject(self.fd, f"function `{info.name}` has no path that returns")
            info.ret = self.ret
        self.check_return_annotation()
        if info.uses_fuel:
            reject(self.fd, "loops are not expected in these functions")
        params = " ".join(f"({mangle(p)} : {g.coq_type(t)})" for p, t in info.params)
        info.text = ("".join(self.loops) + f"Definition {info.coq_name} {params}\n  : result ({g.coq_type(info.result_type())}) :=\n{body}.\n")

    def check_return_annotation(self):
        r = self.fd.returns
        if r is None:
            return
        txt = (r.value if isinstance(r, ast.Constant) and isinstance(r.value, str) else ast.unparse(r)).replace(" ", "")
        want = {"int": "int", "bytes": "bytes", "bool": "bool", "none": "None", "str": "str", "datetime": "datetime",
                "timedelta": "timedelta", "msg2": self.info.cname}.get(self.ret if not isinstance(self.ret, tuple) else "?")
        if want is None or txt != want:
            reject(self.fd, f"return annotation `{txt}` of `{self.info.name}` differs from the inferred type `{self.ret}`")

    # ------------------------------------------------------------------ statements
    def assign(self, s, target, value, env, cont):
        # a, b = divmod(x, <non-zero constant>)
        if isinstance(target, ast.Tuple) and isinstance(value, ast.Call) and isinstance(value.func, ast.Name) and value.func.id == "divmod" \
                and "divmod" not in env:
            self.mod.require_unshadowed(value, "divmod")
            if value.keywords or len(value.args) != 2 or len(target.elts) != 2 or not all(isinstance(x, ast.Name) for x in target.elts) \
                    or target.elts[0].id == target.elts[1].id:
                reject(s, "divmod other than `a, b = divmod(x, y)`")
            c = const_int(value.args[1])
            if c is None or c == 0:
                reject(s, "divmod by something other than a non-zero constant int expression")
            b1, x, tx = self.expr(value.args[0], env)
            b2, y, ty = self.expr(value.args[1], env)
            if tx != "int" or ty != "int" or b2:
                reject(s, f"divmod of {tx} and {ty}")
            env2 = self.bind_var(s, env, target.elts[0].id, "int")
            env2 = self.bind_var(s, env2, target.elts[1].id, "int")
            return wrap_binds(b1, f"let '({mangle(target.elts[0].id)}, {mangle(target.elts[1].id)}) := py_divmod {x} {y} in\n{cont(env2)}")
        if isinstance(value, ast.Call) and self.is_effectful(value, env):
            return self.effect_call(value, env, target, cont, s)
        if not isinstance(target, ast.Name):
            reject(s, "assignment target other than a name (tuple targets only for divmod)")
        if target.id in ("cls", "self"):
            reject(s, f"assignment to `{target.id}`")
        binds, term, t = self.expr(value, env)
        if t not in VALUE_TYPES:
            reject(s, f"assignment of a value of type {t}")
        env2 = self.bind_var(s, env, target.id, t)
        return wrap_binds(binds, f"let {mangle(target.id)} := {term} in\n{cont(env2)}")

    def do_return(self, s, env):
        v = s.value
        if isinstance(v, ast.Call) and isinstance(v.func, ast.Name) and v.func.id == "cls" and "cls" not in env:
            if self.info.kind != "classmethod":
                reject(s, "`cls(...)` outside a classmethod")
            if v.keywords or len(v.args) != 2:
                reject(s, "`cls(...)` other than cls(<seconds>, <nanos>)")
            binds, terms = [], []
            for a in v.args:
                b, tm, t = self.expr(a, env)
                if t != "int":
                    reject(a, f"argument of type {t} for a field of `cls`")
                binds += b
                terms.append(f"({tm})")
            self.set_ret(s, "msg2")
            return wrap_binds(binds, self.ret_wrap(self.result_term(f"py_msg2 {' '.join(terms)}", env)))
        if v is not None and not isinstance(v, ast.Tuple) and not (isinstance(v, ast.Call) and self.is_effectful(v, env)):
            binds, term, t = self.expr(v, env)
            if t not in ("int", "bytes", "bool", "str", "datetime", "timedelta"):
                reject(s, f"return of a value of type {t}")
            self.set_ret(s, t)
            return wrap_binds(binds, self.ret_wrap(self.result_term(term, env)))
        return super().do_return(s, env)

    def is_effectful(self, call, env):
        f = call.func
        if isinstance(f, ast.Name) and f.id in ("datetime", "timedelta"):
            return False
        return super().is_effectful(call, env)

    def effect_call(self, call, env, target, cont, s):
        f = call.func
        if isinstance(f, ast.Name) and f.id in self.mod.funcs and f.id not in env:
            reject(call, f"call of the module-level function `{f.id}` inside a translated function (only `NAME = f()` at module level)")
        return super().effect_call(call, env, target, cont, s)

    # ------------------------------------------------------------------ expressions
    def is_utc(self, e, env):
        ok = isinstance(e, ast.Attribute) and e.attr == "utc" and isinstance(e.value, ast.Name) and e.value.id == "timezone" and "timezone" not in env
        if ok:
            self.mod.require_import(e, "timezone", "from")
        return ok

    def fstring(self, e, env):
        binds, parts = [], []
        for v in e.values:
            if isinstance(v, ast.Constant) and isinstance(v.value, str):
                if v.value:
                    parts.append(str_bytes(v.value))
                continue
            if not isinstance(v, ast.FormattedValue) or v.conversion != -1:
                reject(v, "f-string part with a conversion (!r / !s / !a)")
            b, tm, t = self.expr(v.value, env)
            if v.format_spec is None:
                if t == "str":
                    parts.append(tm)
                elif t == "int":
                    parts.append(f"(py_str_of_int {tm})")
                else:
                    reject(v, f"f-string part of type {t} without a format")
                binds += b
                continue
            fs = v.format_spec
            if not (isinstance(fs, ast.JoinedStr) and len(fs.values) == 1 and isinstance(fs.values[0], ast.Constant)
                    and isinstance(fs.values[0].value, str) and re.fullmatch(r"0[1-9][0-9]?d", fs.values[0].value)):
                reject(v, "format specification other than `0<width>d`")
            k = int(fs.values[0].value[1:-1])
            binds += b
            if t == "int":
                parts.append(f"(py_format_0d {k}%nat {tm})")
            elif t == "ifloat":
                r = self.tmp()
                binds.append((r, f"py_format_d_float {k}%nat {tm}"))
                parts.append(r)
            else:
                reject(v, f"format `0{k}d` of a {t}")
        return binds, cat(parts), "str"

    def expr(self, e, env):
        if isinstance(e, ast.Constant):
            if type(e.value) is str:
                return [], str_bytes(e.value), "str"
            if type(e.value) is float:
                fl = float_literal(e)
                if fl is None:
                    reject(e, f"float literal {e.value!r} that is not integer-valued below 2**53")
                return [], zlit(fl), "ifloat"
        if isinstance(e, ast.JoinedStr):
            return self.fstring(e, env)
        if isinstance(e, ast.Name):
            if e.id in env and env[e.id] in ("datetime", "timedelta", "naive_s", "str", "ifloat"):
                return [], mangle(e.id), env[e.id]
            if e.id not in env and e.id in self.mod.mod_assigns and e.id not in g.BUILTIN_EXC and e.id not in self.mod.classes:
                t = self.mod.module_const(e, e.id)
                r = self.tmp()
                return [(r, f"src_{e.id}")], r, t
        if isinstance(e, ast.Attribute) and isinstance(e.value, ast.Name):
            nm = e.value.id
            if nm == "self" and "self" not in env and self.info.kind == "method":
                if e.attr not in ("seconds", "nanos"):
                    reject(e, f"attribute `self.{e.attr}`")
                return [], mangle("self__" + e.attr), "int"
            if env.get(nm) == "timedelta":
                if e.attr not in ("days", "seconds", "microseconds"):
                    reject(e, f"attribute `.{e.attr}` of a timedelta")
                return [], f"(py_td_{e.attr} {mangle(nm)})", "int"
            if env.get(nm) == "datetime":
                if e.attr != "microsecond":
                    reject(e, f"attribute `.{e.attr}` of a datetime (outside `dt.tzinfo is not None`)")
                return [], f"(py_dt_microsecond {mangle(nm)})", "int"
        if isinstance(e, ast.Attribute):
            reject(e, f"attribute access `{ast.unparse(e)}`")
        if isinstance(e, ast.Compare) and len(e.ops) == 1:
            op, left, right = e.ops[0], e.left, e.comparators[0]
            if isinstance(op, (ast.Is, ast.IsNot)):
                ok = (isinstance(op, ast.IsNot) and isinstance(right, ast.Constant) and right.value is None and isinstance(left, ast.Attribute)
                      and left.attr == "tzinfo" and isinstance(left.value, ast.Name) and env.get(left.value.id) == "datetime")
                if not ok:
                    reject(e, "`is` / `is not` other than `<datetime>.tzinfo is not None`")
                return [], f"(py_dt_tzinfo_is_not_none {mangle(left.value.id)})", "bool"
            if isinstance(op, (ast.Eq, ast.NotEq)):
                bl, l, tl = self.expr(left, env)
                if tl == "ifloat":
                    n = int_literal(right)
                    if n is None:
                        n = float_literal(right)
                    if n is None:
                        reject(e, "comparison of a float with something other than an int / integer-valued float literal")
                    c = f"({l} =? {zlit(n)})"
                    return bl, c if isinstance(op, ast.Eq) else f"(negb {c})", "bool"
                if tl in ("datetime", "timedelta", "naive_s", "str"):
                    reject(e, f"comparison of a {tl}")
        if isinstance(e, ast.IfExp):
            bc, c = self.cond(e.test, env)
            a, ta = self.pure(e.body, env, "a conditional expression")
            b, tb = self.pure(e.orelse, env, "a conditional expression")
            if ta != tb or ta not in VALUE_TYPES:
                reject(e, f"conditional expression with branches of type {ta} and {tb}")
            return bc, f"(if {c} then {a} else {b})", ta
        return super().expr(e, env)

    def binop(self, e, env):
        op = type(e.op).__name__
        if op == "Div":
            return super().binop(e, env)
        save = self.ntmp
        b1, l, tl = self.expr(e.left, env)
        b2, r, tr = self.expr(e.right, env)
        new = {"datetime", "timedelta", "naive_s", "str", "ifloat"}
        if tl not in new and tr not in new:
            self.ntmp = save
            return super().binop(e, env)
        if tl == tr == "timedelta" and op == "FloorDiv":
            t = self.tmp()
            return b1 + b2 + [(t, f"py_td_floordiv_td {l} {r}")], t, "int"
        if tl == tr == "datetime" and op == "Sub":
            return b1 + b2, f"(py_dt_sub {l} {r})", "timedelta"
        if tl == "datetime" and tr == "timedelta" and op == "Add":
            t = self.tmp()
            return b1 + b2 + [(t, f"py_dt_add {l} {r}")], t, "datetime"
        if tl == "int" and tr == "ifloat" and op == "Mult" and float_literal(e.right) is not None:
            return b1 + b2, f"(py_int_mul_float {l} {r})", "ifloat"
        if tl == "ifloat" and tr == "ifloat" and op in ("Mod", "FloorDiv") and (float_literal(e.right) or 0) > 0:
            return b1 + b2, f"({'py_float_mod' if op == 'Mod' else 'py_float_floordiv'} {l} {r})", "ifloat"
        reject(e, f"operator {op} between {tl} and {tr}")

    def int_kw(self, call, env, allowed):
        """keyword arguments of a constructor call, all pure ints: {name: term}"""
        if call.args or any(k.arg not in allowed for k in call.keywords) or len({k.arg for k in call.keywords}) != len(call.keywords) or not call.keywords:
            reject(call, f"`{ast.unparse(call.func)}(...)` other than with keyword arguments among {', '.join(allowed)}")
        out = {}
        for k in call.keywords:
            tm, t = self.pure(k.value, env, f"an argument of `{ast.unparse(call.func)}(...)`")
            if t != "int":
                reject(k.value, f"argument `{k.arg}` of type {t}")
            out[k.arg] = tm
        return out

    def call_expr(self, e, env):
        f = e.func
        if any(isinstance(a, ast.Starred) for a in e.args) or any(k.arg is None for k in e.keywords):
            reject(e, "star arguments")
        if isinstance(f, ast.Name) and f.id not in env:
            if f.id == "timedelta":
                self.mod.require_import(e, "timedelta", "from")
                kw = self.int_kw(e, env, ("seconds", "microseconds"))
                t = self.tmp()
                return [(t, f"py_timedelta_s_us ({kw.get('seconds', '0')}) ({kw.get('microseconds', '0')})")], t, "timedelta"
            if f.id == "datetime":
                self.mod.require_import(e, "datetime", "from")
                if len(e.args) != 3 or len(e.keywords) != 1 or e.keywords[0].arg != "tzinfo" or not self.is_utc(e.keywords[0].value, env):
                    reject(e, "`datetime(...)` other than datetime(<y>, <m>, <d>, tzinfo=timezone.utc)")
                terms = []
                for a in e.args:
                    tm, t = self.pure(a, env, "an argument of `datetime(...)`")
                    if t != "int":
                        reject(a, f"argument of type {t} of `datetime(...)`")
                    terms.append(f"({tm})")
                t = self.tmp()
                return [(t, f"py_datetime_ymd_utc {' '.join(terms)}")], t, "datetime"
            if f.id == "abs" and len(e.args) == 1 and not e.keywords:
                self.mod.require_unshadowed(e, "abs")
                b, tm, t = self.expr(e.args[0], env)
                if t != "int":
                    reject(e, f"abs() of a {t}")
                return b, f"(py_abs {tm})", "int"
            if f.id == "int" and len(e.args) == 1 and not e.keywords:
                save = self.ntmp
                b, tm, t = self.expr(e.args[0], env)
                if t == "ifloat":
                    self.mod.require_unshadowed(e, "int")
                    return b, f"(py_int_of_float {tm})", "int"
                self.ntmp = save
        if isinstance(f, ast.Attribute) and isinstance(f.value, ast.Name) and env.get(f.value.id) in ("datetime", "naive_s", "timedelta", "str", "ifloat"):
            v, tv = mangle(f.value.id), env[f.value.id]
            if tv == "datetime" and f.attr == "astimezone":
                if len(e.args) != 1 or e.keywords or not self.is_utc(e.args[0], env):
                    reject(e, "astimezone other than .astimezone(timezone.utc)")
                t = self.tmp()
                return [(t, f"py_dt_astimezone_utc {v}")], t, "datetime"
            if tv == "datetime" and f.attr == "replace":
                kws = {k.arg: k.value for k in e.keywords}
                ok = (not e.args and len(e.keywords) == 2 and set(kws) == {"microsecond", "tzinfo"} and int_literal(kws["microsecond"]) == 0
                      and isinstance(kws["tzinfo"], ast.Constant) and kws["tzinfo"].value is None)
                if not ok:
                    reject(e, "replace other than .replace(microsecond=0, tzinfo=None)")
                return [], f"(py_dt_replace_us0_naive {v})", "naive_s"
            if tv == "naive_s" and f.attr == "isoformat":
                if e.args or e.keywords:
                    reject(e, "isoformat() with arguments")
                return [], f"(py_isoformat_naive_s {v})", "str"
            reject(e, f"method `.{f.attr}` of a {tv}")
        return super().call_expr(e, env)


# ----------------------------------------------------------------------------------------------- self-test
SELFTEST_HEAD = ("import math\nfrom datetime import (datetime, timedelta, timezone)\nfrom io import BytesIO\nfrom itertools import count\n"
                 "def gen0() -> datetime:\n    return datetime(1970, 1, 1, tzinfo=timezone.utc)\nZERO = gen0()\nTWICE = gen0()\nTWICE = gen0()\n"
                 "from .lib.google.protobuf import (Duration, Timestamp)\n")
SELFTEST_LIB = ("class Timestamp(betterproto.Message):\n    seconds: int = betterproto.int64_field(1)\n    nanos: int = betterproto.int32_field(2)\n"
                "class Duration(betterproto.Message):\n    seconds: int = betterproto.int64_field(1)\n    nanos: int = betterproto.int32_field(2)\n")


def _cls(name, body):
    return f"class {name}({CLASS_BASE[name]}):\n" + "".join("    " + l + "\n" for l in body.strip("\n").split("\n"))


# (class, function, source, substring expected in the rejection | None = must be accepted)
SELFTEST = [
    ("_Duration", "f", _cls("_Duration", "@classmethod\ndef f(cls, d: timedelta) -> '_Duration':\n    a, b = divmod(d // timedelta(microseconds=1), 10**6)\n    return cls(a, b * 1000)"), None),
    ("_Duration", "f", _cls("_Duration", "def f(self) -> timedelta:\n    return timedelta(seconds=self.seconds, microseconds=abs(self.nanos) // 1000)"), None),
    ("_Timestamp", "f", _cls("_Timestamp", "def f(self) -> datetime:\n    return ZERO + timedelta(seconds=self.seconds)"), None),
    ("_Timestamp", "f", _cls("_Timestamp", "@staticmethod\ndef f(dt: datetime) -> str:\n    n = dt.microsecond * 1e3\n    c = dt.replace(microsecond=0, tzinfo=None)\n    if (n % 1e6) == 0:\n        return f\"{c.isoformat()}.{int(n // 1e6):03d}Z\"\n    return f\"{c.isoformat()}.{n:09d}\""), None),
    ("_Duration", "f", _cls("_Duration", "@staticmethod\ndef f(d: timedelta) -> str:\n    t = d // timedelta(microseconds=1)\n    s = '-' if t < 0 else ''\n    return f\"{s}{abs(t)}s\""), None),
    ("_Duration", "f", _cls("_Duration", "@classmethod\ndef f(cls, d: timedelta, *, _u: timedelta = timedelta(microseconds=1)) -> int:\n    return d // _u"), None),
    ("_Duration", "f", _cls("_Duration", "@classmethod\ndef f(cls, d: timedelta, *, u: timedelta = timedelta(microseconds=1)) -> int:\n    return d // u"), "keyword-only parameter `u`"),
    ("_Duration", "f", _cls("_Duration", "@staticmethod\ndef f(d: timedelta) -> int:\n    return int(d.total_seconds())"), "method `.total_seconds` of a timedelta"),
    ("_Duration", "f", _cls("_Duration", "@staticmethod\ndef f(d: timedelta) -> int:\n    return int(d / timedelta(microseconds=1))"), "true division"),
    ("_Duration", "f", _cls("_Duration", "@staticmethod\ndef f(x: int) -> int:\n    a, b = divmod(x, x)\n    return a"), "non-zero constant int expression"),
    ("_Duration", "f", _cls("_Duration", "@staticmethod\ndef f(x: int) -> str:\n    return f\"{x:>4}\""), "format specification other than"),
    ("_Duration", "f", _cls("_Duration", "@staticmethod\ndef f(x: int) -> str:\n    return f\"{x!r}\""), "f-string part with a conversion"),
    ("_Duration", "f", _cls("_Duration", "@staticmethod\ndef f(x: int) -> str:\n    return str(x) + 's'"), "call of `str`"),
    ("_Duration", "f", _cls("_Duration", "@staticmethod\ndef f(x: int) -> int:\n    return x * 1.5"), "float literal 1.5"),
    ("_Timestamp", "f", _cls("_Timestamp", "@staticmethod\ndef f(dt: datetime) -> str:\n    return dt.strftime('%Y')"), "method `.strftime` of a datetime"),
    ("_Timestamp", "f", _cls("_Timestamp", "@staticmethod\ndef f(dt: datetime) -> int:\n    return dt.utcoffset().seconds"), "call of `dt.utcoffset`|attribute access"),
    ("_Timestamp", "f", _cls("_Timestamp", "@staticmethod\ndef f(dt: datetime) -> datetime:\n    return dt.astimezone()"), "astimezone other than"),
    ("_Timestamp", "f", _cls("_Timestamp", "@staticmethod\ndef f(dt: datetime) -> int:\n    if dt.tzinfo is None:\n        return 1\n    return 0"), "`is` / `is not` other than"),
    ("_Timestamp", "f", _cls("_Timestamp", "@staticmethod\ndef f(dt: datetime) -> int:\n    return (dt - TWICE).days"), "module-level constant bound exactly once|attribute access"),
    ("_Timestamp", "f", _cls("_Timestamp", "def f(self) -> int:\n    return self.other"), "attribute `self.other`"),
    ("_Timestamp", "f", _cls("_Timestamp", "@property\ndef f(self) -> int:\n    return self.seconds"), "decorated with"),
    ("_Timestamp", "f", _cls("_Timestamp", "def f(self) -> int:\n    return self.seconds\nf = None"), "not defined exactly once in its class"),
    ("_Timestamp", "f", _cls("_Timestamp", "@classmethod\ndef f(cls, x: int) -> '_Timestamp':\n    return cls(seconds=x, nanos=0)"), "`cls(...)` other than"),
    ("_Timestamp", "f", _cls("_Timestamp", "@staticmethod\ndef f(x: int) -> int:\n    try:\n        return x\n    except ValueError:\n        return 0"), "statement `Try`"),
    ("_Timestamp", "f", "class _Timestamp(Timestamp, object):\n    def f(self) -> int:\n        return self.seconds\n", "has bases other than"),
    ("_Timestamp", "f", _cls("_Timestamp", "@staticmethod\ndef f(dt: datetime) -> datetime:\n    return datetime(1970, 1, 1)"), "`datetime(...)` other than"),
]


def selftest():
    bad = 0
    for cname, root, src, want in SELFTEST:
        try:
            Translator15(SELFTEST_HEAD + src, SELFTEST_LIB).unit(cname, root, ast.parse(""))
            got = None
        except Reject as ex:
            got = str(ex)
        ok = (got is None) if want is None else (got is not None and any(w in got for w in want.split("|")))
        if not ok:
            bad += 1
            print(f"SELFTEST-FAIL: expected {want!r}, got {got!r} for\n{src}")
    # wrong field order in the bundled class
    try:
        Translator15(SELFTEST_HEAD + SELFTEST[1][2], SELFTEST_LIB.replace("seconds: int = betterproto.int64_field(1)\n    nanos: int = betterproto.int32_field(2)\nclass Duration",
                                                                           "nanos: int = betterproto.int32_field(2)\n    seconds: int = betterproto.int64_field(1)\nclass Duration")
                     .replace("class Duration(betterproto.Message):\n    seconds: int = betterproto.int64_field(1)\n    nanos: int = betterproto.int32_field(2)",
                              "class Duration(betterproto.Message):\n    nanos: int = betterproto.int32_field(2)\n    seconds: int = betterproto.int64_field(1)")).unit("_Duration", "f", ast.parse(""))
        bad += 1
        print("SELFTEST-FAIL: swapped fields of the bundled class accepted")
    except Reject:
        pass
    n = len(SELFTEST) + 1
    print(f"selftest: {n - bad}/{n} snippets behaved as expected")
    return 1 if bad else 0


# ----------------------------------------------------------------------------------------------- driver
def note(ex):
    return str(ex).replace("*", "x").replace("(", "[").replace(")", "]")[:600]


def generate():
    """Returns (Gallina text, {part: None | reason}).  The parts are translated independently (the JSON parts do not call
    the conversion functions); a rejected part leaves NO definition behind, only `src_c15_<part>_translated := false`."""
    with open(os.path.join(REPO, SRC_REL), encoding="utf-8") as f:
        source = f.read()
    with open(os.path.join(REPO, LIB_REL), encoding="utf-8") as f:
        lib_source = f.read()
    out = ["(* GENERATED by harness/gen_c15_src.py from the source text of " + SRC_REL.replace(os.sep, "/") + ". Do not edit.",
           "   Mechanical translation (accepted subset: see the generator and harness/gen_c16_src.py). *)",
           "From BP Require Import Base.Prelude Model.Time Model.C16SrcLib Model.C15SrcLib.", ""]
    verdict, flags = {}, []
    emitted = set()
    for key, roots in PARTS:
        try:
            mod = Translator15(source, lib_source)
            for cname, name in roots:
                mod.unit(cname, name, mod.tree)
            body = []
            consts = list(mod.const_order)
            for i, info in enumerate(mod.order):
                ident = ("fn", info.cname, info.name)
                if ident not in emitted:
                    emitted.add(ident)
                    body.append(f"(* ---- {(info.cname + '.') if info.cname else ''}{info.name} ---- *)")
                    for p, t, term in info.local_consts:
                        body.append(f"(* keyword-only parameter {p}: a local constant bound to its default *)")
                    body.append(info.text)
                # a module constant is emitted right after the function that defines it
                for nm, pos in consts:
                    if pos == i + 1 and ("const", nm) not in emitted:
                        emitted.add(("const", nm))
                        body.append(f"(* ---- {nm} (module level) ---- *)")
                        body.append(mod.consts_done[nm][0])
            out += body
            flags.append(f"Definition src_c15_{key}_translated : bool := true.")
            verdict[key] = None
        except Reject as ex:
            verdict[key] = str(ex)
            out.append(f"(* part {key} NOT translated - REJECTED: %s *)" % note(ex))
            out.append("")
            flags.append(f"Definition src_c15_{key}_translated : bool := false.")
    out += flags
    return "\n".join(out) + "\n", verdict


def report(verdict):
    for part, why in verdict.items():
        print(f"C15SRC-TRANSLATION-{'OK' if why is None else 'REJECTED'}: {part}" + ("" if why is None else f": {why}"))


def main():
    mode = sys.argv[1] if len(sys.argv) > 1 else ""
    if mode == "--selftest":
        return selftest()
    text, verdict = generate()
    if mode == "--print":
        print(text, end="")
    elif mode != "--dry-run":
        os.makedirs(os.path.dirname(OUT), exist_ok=True)
        old = None
        if os.path.exists(OUT):
            with open(OUT) as f:
                old = f.read()
        if old != text:
            with open(OUT + ".tmp", "w") as f:
                f.write(text)
            os.replace(OUT + ".tmp", OUT)
            print("C15Src.v regenerated")
        else:
            print("C15Src.v unchanged")
    if mode != "--print":
        report(verdict)
    return 3 if any(v is not None for v in verdict.values()) else 0


if __name__ == "__main__":
    try:
        sys.exit(main())
    except Exception as e:  # fail closed: a stale translation must not survive a source that cannot even be read / parsed
        msg = f"{type(e).__name__}: {e}"
        if not (len(sys.argv) > 1 and sys.argv[1] in ("--dry-run", "--print", "--selftest")):
            text = ("(* gen_c15_src.py: source-translation ERROR %s *)\nDefinition translation_failed : False := I.\n"
                    % msg.replace("*", "x").replace("(", "[").replace(")", "]")[:600])
            old = open(OUT).read() if os.path.exists(OUT) else None
            if old != text:
                os.makedirs(os.path.dirname(OUT), exist_ok=True)
                with open(OUT, "w") as f:
                    f.write(text)
        for key, _ in PARTS:
            print(f"C15SRC-TRANSLATION-REJECTED: {key}: {msg}")
        sys.exit(3)
