"""Run the real protoc plugin from ${VERIF_REPO:-/repo} and import what it generates.

ruff is not installed in this sandbox; the plugin shells out to `ruff`, so a
pass-through shim (`exec cat`) is put first on PATH (import sorting / unused
import removal / formatting are therefore not exercised).

Every generated tree is placed under its own unique root package so that two
variants of the same schema never share `sys.modules` entries
(Message._type_hints resolves annotations through sys.modules[cls.__module__]).
"""
import importlib
import os
import subprocess
import sys
import tempfile

from . import lib

_PROTO_INCLUDE = None
_SHIM = None


def proto_include():
    global _PROTO_INCLUDE
    if _PROTO_INCLUDE is None:
        import grpc_tools

        _PROTO_INCLUDE = os.path.join(os.path.dirname(grpc_tools.__file__), "_proto")
    return _PROTO_INCLUDE


def shim_dir(base):
    """directory holding a pass-through `ruff`"""
    global _SHIM
    if _SHIM is None or not os.path.exists(_SHIM):
        d = os.path.join(base, "shim")
        os.makedirs(d, exist_ok=True)
        p = os.path.join(d, "ruff")
        with open(p, "w") as f:
            f.write("#!/bin/sh\nexec cat\n")
        os.chmod(p, 0o755)
        _SHIM = d
    return _SHIM


def _env(base):
    e = dict(os.environ)
    e["PATH"] = shim_dir(base) + ":/venv/bin:" + e.get("PATH", "")
    e["PYTHONPATH"] = os.path.join(lib.REPO, "src")
    e["PYTHONHASHSEED"] = "0"
    e["PYTHONDONTWRITEBYTECODE"] = "1"
    return e


def write_protos(proto_dir, protos):
    for name, text in protos.items():
        p = os.path.join(proto_dir, name)
        os.makedirs(os.path.dirname(p), exist_ok=True)
        with open(p, "w") as f:
            f.write(text)


def generate(base, protos, root_name, options=()):
    """protos: {relative file name: text}. Generates into <base>/<root_name>/ .
    Returns (rc, output, out_dir)."""
    proto_dir = os.path.join(base, root_name + "_proto")
    out_dir = os.path.join(base, root_name)
    os.makedirs(proto_dir, exist_ok=True)
    os.makedirs(out_dir, exist_ok=True)
    write_protos(proto_dir, protos)
    cmd = [lib.PY, "-W", "ignore", "-m", "grpc_tools.protoc", "-I", proto_dir, "-I", proto_include(),
           f"--python_betterproto_out={out_dir}"]
    for o in options:
        cmd.append(f"--python_betterproto_opt={o}")
    cmd += sorted(protos)
    r = subprocess.run(cmd, env=_env(base), capture_output=True, text=True, timeout=600)
    out = "\n".join(l for l in (r.stdout + r.stderr).splitlines() if "WARNING conda" not in l)
    init = os.path.join(out_dir, "__init__.py")
    if r.returncode == 0 and not os.path.exists(init):
        open(init, "w").close()
    return r.returncode, out, out_dir


def descriptor_set(base, protos, name="ds"):
    """FileDescriptorSet (google.protobuf message) that protoc produces for these files."""
    from google.protobuf import descriptor_pb2

    proto_dir = os.path.join(base, name + "_proto")
    os.makedirs(proto_dir, exist_ok=True)
    write_protos(proto_dir, protos)
    out = os.path.join(base, name + ".pb")
    cmd = [lib.PY, "-W", "ignore", "-m", "grpc_tools.protoc", "-I", proto_dir, "-I", proto_include(),
           f"--descriptor_set_out={out}", "--include_imports", "--include_source_info"] + sorted(protos)
    r = subprocess.run(cmd, env=_env(base), capture_output=True, text=True, timeout=600)
    if r.returncode != 0:
        raise RuntimeError("protoc rejected the schema: " + r.stderr[-2000:])
    fds = descriptor_pb2.FileDescriptorSet()
    with open(out, "rb") as f:
        fds.ParseFromString(f.read())
    return fds


def import_generated(base, root_name, dotted=""):
    """import <root_name>[.dotted] from <base>; returns the module"""
    if base not in sys.path:
        sys.path.insert(0, base)
    importlib.invalidate_caches()
    return importlib.import_module(root_name + ("." + dotted if dotted else ""))


def run_in_subprocess(base, code, timeout=300):
    """run a Python snippet with <base> on sys.path and betterproto from REPO; returns (rc, output)"""
    e = _env(base)
    e["PYTHONPATH"] = e["PYTHONPATH"] + ":" + base + ":" + lib.VERIF
    r = subprocess.run([lib.PY, "-W", "ignore", "-c", code], env=e, capture_output=True, text=True, timeout=timeout)
    out = "\n".join(l for l in (r.stdout + r.stderr).splitlines() if "WARNING conda" not in l)
    return r.returncode, out
