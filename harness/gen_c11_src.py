#!/venv/bin/python
"""C11 source-translation tie: translate the CURRENT source text of
    ServiceStub.__init__                    (what the constructor stores on the instance)
    ServiceStub.__resolve_request_kwargs    (call-level timeout / deadline / metadata against the stub-level defaults)
of ${VERIF_REPO:-/repo}/src/betterproto/grpc/grpclib_client.py into Gallina (coq/gen/C11Src.v), mechanically, with Python's `ast`.

The output is proved equal to the hand-written model (Model/Grpc.v resolve1 / resolve_kwargs) in coq/Proofs/C11Src.v;
coq/Properties/C11Src.v states it and restates C11_kwargs / C11_kwargs_falsy_is_set / C11_kwargs_passed over the translated functions.

This script is an EXTENSION of harness/gen_c16_src.py, which it loads as a library (a private module instance) and does not
modify: statement / expression translation, typing discipline, error monad, if-join and the fail-closed behaviour are the
ones documented at the top of that file.  Anything outside the subset is rejected with a message naming the construct
(exit status 3) and then NO definition is left in coq/gen/C11Src.v, only `src_c11_kwargs_translated := false`, so the
proof files cannot compile against stale or guessed definitions; an unreadable / unparsable source leaves a file that does
not compile.  A rejection is NOT a verdict about the property: harness/props/c11.py records "source-translation tie did not hold"
and the sampled correspondence + oracles decide.

    gen_c11_src.py             translate and (re)write coq/gen/C11Src.v (only when the content changed)
    gen_c11_src.py --dry-run   translate, print the verdict, write nothing
    gen_c11_src.py --print     translate and print the Gallina text, write nothing
    gen_c11_src.py --selftest  synthetic classes: constructs outside the subset must be rejected with the expected message,
                               the in-subset ones accepted and (where given) translated to the expected vocabulary
    gen_c11_src.py --survey    NOT a translation: lists, for the async functions of grpclib_client.py / grpclib_server.py
                               (_send_messages, the four call helpers, _call_rpc_handler_server_stream), every construct that
                               keeps them outside the subset (informational; recorded in the evidence)

ADDITIONS TO THE ACCEPTED SUBSET  (target vocabulary: coq/Model/C11SrcLib.v, next to coq/Model/C16SrcLib.v)
-----------------------------------------------------------------------------------------------------------------
Every emitted definition takes two leading parameters `(V : Type) (truthy : V -> bool)`: V is the type of the OPAQUE Python
objects the functions handle (a channel, a float, a Deadline, a metadata mapping ...), `truthy` is Python's bool() on them.
The translated functions never look inside such an object; the only operations on one are storing it, `is None`,
truthiness (through `truthy`) and choosing between two of them.
Module / class level (checked, never executed):
  * METHODS of a module-level class: the class is defined exactly once at top level, never re-bound, not decorated, no
    metaclass / keywords, bases only `ABC` (bound exactly once by `from abc import ABC`) or `object`; no attribute of the class is
    assigned or deleted from outside its body anywhere in the module; its body consists only of a docstring, `pass`, `def` /
    `async def` and assignments to plain names, and defines none of __setattr__ __getattr__ __getattribute__ __delattr__
    __slots__ __new__ __set_name__ and NO class-level name equal to an instance attribute the translated methods store or read
    (a property / descriptor / slot of that name would intercept `self.x`); the method is a plain (not async, not decorated)
    `def` defined exactly once in that body, first parameter `self` (not annotated).
    [Subclasses (the generated <Service>Stub classes) are outside what is checked: a subclass that defines a data
     descriptor named like one of the attributes would change the meaning of `self.x`; the generated ones define methods only.]
  * parameter annotations: `Optional[<anything>]` (Optional bound exactly once by `from typing import ... Optional ...`)
    -> `option V` (None or an opaque object); a string annotation that is one identifier ("Channel": a forward reference to a
    class) -> `V`; `int` / `bytes` as in the library.  Parameters (positional or keyword-only) may carry the default `None`
    when they are Optional; every parameter is explicit in the translated function and a second definition
    `<name>_defaults` applies it to the defaults (only the parameters without default stay).
  * `__init__` (return annotation absent or `None`): the body may only be a docstring, `pass` and statements
    `self.<attr> = <pure expression of type V / option V>`, each attribute at most once, no control flow.  The instance
    becomes a generated Record `src_<Class>_obj V` with one field per attribute, in the order of the assignments; the
    translated constructor returns that record (the Python function returns None; the object is its effect).
Statements (other methods): the library's, with values of the new types assignable and returnable.
Expressions:
  * `self.<attr>` for an attribute stored by `__init__` -> the record projection; `self` itself is not a value
  * `None` (as a value of type option V)
  * `x is None` / `x is not None` for x : option V -> py_is_none.  On a value of type V (annotation not Optional) rejected.
  * truthiness of an `option V` / `V` value in a test -> py_truthy_opt truthy / truthy  (NOT the same as `is not None`:
    a set-but-falsy value is falsy)
  * `a or b`, `a and b` over `option V` operands AS VALUES (Python returns one of the operands) -> py_or_opt / py_and_opt
  * `a if c else b` over the new types (library rule: branches without hoisted operations)
  * a dict literal with string-literal keys and `option V` values (no `**` unpacking, no comprehension) -> an association
    list in source order `[(key as UTF-8 bytes, value); ...]`; lookup is py_dict_get (LAST binding of a key wins, as in
    Python).  A dict value can only be assigned and returned.
Everything else is REJECTED, naming the construct - in particular `async def`, `await`, `async with`, `async for`, `yield`,
`try`, `assert`, `**kwargs` at a call, comprehensions, `isinstance`, calls of opaque objects (`handler(request)`), method calls on them.
"""
import ast
import importlib.util
import os
import sys

HERE = os.path.dirname(os.path.abspath(__file__))
_spec = importlib.util.spec_from_file_location("gen_c16_src_for_c11", os.path.join(HERE, "gen_c16_src.py"))
g = importlib.util.module_from_spec(_spec)      # a private instance: the tables extended below are not shared with anyone
_spec.loader.exec_module(g)

Reject, reject, mangle, wrap_binds = g.Reject, g.reject, g.mangle, g.wrap_binds

REPO = os.environ.get("VERIF_REPO", "/repo")
SRC_REL = os.path.join("src", "betterproto", "grpc", "grpclib_client.py")
SRV_REL = os.path.join("src", "betterproto", "grpc", "grpclib_server.py")
OUT = os.path.join(HERE, "..", "coq", "gen", "C11Src.v")

CLASS = "ServiceStub"
METHODS = ["__init__", "__resolve_request_kwargs"]
PART = "kwargs"

g.COQ_TYPE.update({"opt": "option V", "obj": "V", "dict": "list (list byte * option V)"})
NEW_TYPES = ("opt", "obj", "dict")
FORBIDDEN_CLASS_NAMES = ("__setattr__", "__getattr__", "__getattribute__", "__delattr__", "__slots__", "__new__", "__set_name__")


def coq_bytes_of_str(s):
    return "[" + "; ".join("x%02x" % c for c in s.encode("utf-8")) + "]"


class Translator11(g.Translator):
    def __init__(self, source):
        super().__init__(source)
        self.class_fields = {}     # class name -> [(attr, type)]   (set by the translation of __init__)
        self.class_checked = {}

    # ------------------------------------------------------------------ the class
    def class_def(self, at, cname):
        if cname in self.class_checked:
            return self.class_checked[cname]
        defs = self.classes.get(cname, [])
        if len(defs) != 1 or len(self.bound.get(cname, [])) != 1:
            reject(at, f"class `{cname}` is not defined exactly once at module level (or is re-bound)")
        c = defs[0]
        if c.decorator_list:
            reject(c, f"decorated class `{cname}`")
        if c.keywords:
            reject(c, f"class `{cname}` with keywords (metaclass ...)")
        for b in c.bases:
            if isinstance(b, ast.Name) and b.id == "object" and "object" not in self.bound:
                continue
            if isinstance(b, ast.Name) and b.id == "ABC" and self.imports.get("ABC") == ("from", "abc", "ABC", 0) and len(self.bound.get("ABC", [])) == 1:
                continue
            reject(b, f"base class `{ast.unparse(b)}` of `{cname}` (only ABC from abc / object: the attribute semantics of another base are not modelled)")
        members = {}
        for st in c.body:
            if isinstance(st, ast.Pass) or (isinstance(st, ast.Expr) and isinstance(st.value, ast.Constant) and isinstance(st.value.value, str)):
                continue
            if isinstance(st, (ast.FunctionDef, ast.AsyncFunctionDef)):
                members.setdefault(st.name, []).append(st)
            elif isinstance(st, ast.Assign) and all(isinstance(t, ast.Name) for t in st.targets):
                for t in st.targets:
                    members.setdefault(t.id, []).append(st)
            elif isinstance(st, ast.AnnAssign) and isinstance(st.target, ast.Name):
                members.setdefault(st.target.id, []).append(st)
            else:
                reject(st, f"statement `{type(st).__name__}` in the body of class `{cname}` (only docstring / pass / def / assignments to plain names)")
        for nm in FORBIDDEN_CLASS_NAMES:
            if nm in members:
                reject(members[nm][0], f"class `{cname}` defines `{nm}` (attribute access / construction would not be plain)")
        # the class must not be patched from outside its body
        for sub in ast.walk(self.tree):
            if isinstance(sub, ast.Attribute) and isinstance(sub.ctx, (ast.Store, ast.Del)) and isinstance(sub.value, ast.Name) and sub.value.id == cname:
                reject(sub, f"attribute `{cname}.{sub.attr}` is assigned / deleted outside the class body")
            if isinstance(sub, ast.Call) and isinstance(sub.func, ast.Name) and sub.func.id in ("setattr", "delattr") and sub.args \
                    and isinstance(sub.args[0], ast.Name) and sub.args[0].id == cname:
                reject(sub, f"`{sub.func.id}({cname}, ...)`")
        self.class_checked[cname] = (c, members)
        return c, members

    def require_no_class_member(self, at, cname, attr):
        _, members = self.class_def(at, cname)
        if attr in members:
            reject(members[attr][0], f"class `{cname}` binds the name `{attr}` at class level, which is also an instance attribute "
                                     f"(a property / descriptor would intercept `self.{attr}`)")

    def param_type11(self, arg):
        a = arg.annotation
        if a is None:
            reject(arg, f"parameter `{arg.arg}` has no annotation")
        if isinstance(a, ast.Subscript) and isinstance(a.value, ast.Name) and a.value.id == "Optional":
            imp = self.imports.get("Optional")
            if imp != ("from", "typing", "Optional", 0) or len(self.bound.get("Optional", [])) != 1:
                reject(arg, "name `Optional` is not bound exactly once by `from typing import Optional`")
            return "opt"
        if isinstance(a, ast.Constant) and isinstance(a.value, str) and a.value.isidentifier() and a.value not in ("int", "bytes", "bool", "str", "float"):
            return "obj"
        return self.param_type(arg)

    def method(self, cname, mname, at):
        key = cname + "." + mname
        if key in self.done:
            return self.done[key]
        c, members = self.class_def(at, cname)
        defs = members.get(mname, [])
        if len(defs) != 1:
            reject(c if not defs else defs[1], f"method `{cname}.{mname}` is not defined exactly once in the class body")
        fd = defs[0]
        if isinstance(fd, ast.AsyncFunctionDef):
            reject(fd, f"`async def` {cname}.{mname}")
        if not isinstance(fd, ast.FunctionDef):
            reject(fd, f"`{cname}.{mname}` is not a `def`")
        if fd.decorator_list:
            reject(fd, f"decorated method `{cname}.{mname}`")
        a = fd.args
        if a.posonlyargs or a.vararg or a.kwarg:
            reject(fd, f"method `{mname}` has non-plain parameters (* / ** / positional-only)")
        if not a.args or a.args[0].arg != "self" or a.args[0].annotation is not None:
            reject(fd, f"first parameter of `{cname}.{mname}` is not an unannotated `self`")
        info = g.FuncInfo(cname + "_" + mname)
        info.defaults = {}
        info.params = [("self", "self")] if mname != "__init__" else []
        pos = a.args[1:]
        pos_defaults = [None] * (len(pos) - len(a.defaults)) + list(a.defaults)
        if len(a.defaults) > len(pos):
            reject(fd, "`self` has a default")
        for x, d in list(zip(pos, pos_defaults)) + list(zip(a.kwonlyargs, a.kw_defaults)):
            t = self.param_type11(x)
            if d is not None:
                if not (t == "opt" and isinstance(d, ast.Constant) and d.value is None):
                    reject(x, f"default of the parameter `{x.arg}` is not the literal None of an Optional parameter")
                info.defaults[x.arg] = "None"
            info.params.append((x.arg, t))
        names = [p for p, _ in info.params]
        if len(set(names)) != len(names) or (mname == "__init__" and "self" in names):
            reject(fd, "duplicate parameter names")
        info.streams = [p for p, t in info.params if t in ("wstream", "rstream")]
        if info.streams:
            reject(fd, "stream parameters of a method")
        if mname != "__init__" and cname not in self.class_fields:
            self.method(cname, "__init__", at)          # the record of the instance comes first
        ft = FuncTranslator11(self, info, fd, cname, mname)
        ft.run()
        self.done[key] = info
        self.order.append(info)
        return info

    def record_text(self, cname):
        fs = self.class_fields[cname]
        lines = [f"Record src_{cname}_obj (V : Type) : Type := src_{cname}_mk {{"]
        lines.append(";\n".join(f"  {cname}_{f} : {g.coq_type(t)}" for f, t in fs))
        lines.append("}.")
        lines.append(f"Arguments src_{cname}_mk {{V}}.")
        for f, _ in fs:
            lines.append(f"Arguments {cname}_{f} {{V}}.")
        lines.append("(* the names of those attributes (UTF-8), in order.  An instance attribute wins over a method of the same name defined")
        lines.append("   on the class or a subclass (functions are non-data descriptors): such a method cannot be reached through the instance *)")
        lines.append(f"Definition src_{cname}_attr_names : list (list byte) :=\n  [" + ";\n   ".join(coq_bytes_of_str(f) for f, _ in fs) + "].")
        return "\n".join(lines) + "\n"


class FuncTranslator11(g.FuncTranslator):
    def __init__(self, mod, info, fd, cname, mname):
        super().__init__(mod, info, fd)
        self.cname, self.mname = cname, mname
        self.init_mode = mname == "__init__"

    def run(self):
        info = self.info
        self.ret = None
        for self.final in (False, True):
            self.loops = []
            self.nloops = 0
            self.ntmp = 0
            self.local_w = set()
            env = {p: t for p, t in info.params}
            self.fresh = set()
            self.ret_wrap = lambda t: f"Ok ({t})"
            if self.init_mode:
                body = self.init_body(env)
            else:
                body = self.block(self.fd.body, env, self.fall_off_end)
            if self.ret is None:
                reject(self.fd, f"function `{info.name}` has no path that returns")
            info.ret = self.ret
        self.check_return_annotation()
        if info.uses_fuel:
            reject(self.fd, f"loop in `{self.cname}.{self.mname}`")
        head = "(V : Type) (truthy : V -> bool)"
        params = " ".join(f"({mangle(p)} : {g.coq_type(t)})" for p, t in info.params)
        text = "".join(self.loops)
        text += f"Definition {info.coq_name} {head} {params}\n  : result ({g.coq_type(info.result_type())}) :=\n{body}.\n"
        if info.defaults:
            keep = " ".join(f"({mangle(p)} : {g.coq_type(t)})" for p, t in info.params if p not in info.defaults)
            args = " ".join(("None" if p in info.defaults else mangle(p)) for p, _ in info.params)
            text += (f"\n(* the same with every defaulted parameter ({', '.join(p + '=' + d for p, d in info.defaults.items())}) at its default *)\n"
                     f"Definition {info.coq_name}_defaults {head} {keep}\n  : result ({g.coq_type(info.result_type())}) :=\n"
                     f"{info.coq_name} V truthy {args}.\n")
        info.text = text

    def check_return_annotation(self):
        if self.init_mode:
            r = self.fd.returns
            if r is not None and not (isinstance(r, ast.Constant) and r.value is None):
                reject(self.fd, f"return annotation `{ast.unparse(r)}` of `__init__`")
            return
        if self.fd.returns is not None and self.ret in NEW_TYPES + ("self",):
            reject(self.fd, f"return annotation `{ast.unparse(self.fd.returns)}` on a method returning a value of type {self.ret} (not checked by this translator: leave it out)")
        return super().check_return_annotation()

    # ------------------------------------------------------------------ __init__
    def init_body(self, env):
        cname = self.cname
        fields, terms = [], []
        for st in self.fd.body:
            if isinstance(st, ast.Pass) or (isinstance(st, ast.Expr) and isinstance(st.value, ast.Constant) and isinstance(st.value.value, str)):
                continue
            ok = (isinstance(st, ast.Assign) and len(st.targets) == 1 and isinstance(st.targets[0], ast.Attribute)
                  and isinstance(st.targets[0].value, ast.Name) and st.targets[0].value.id == "self")
            if not ok:
                what = type(st).__name__
                if isinstance(st, ast.Assign):
                    what = "Assign to " + ", ".join(ast.unparse(t) for t in st.targets)
                reject(st, f"statement `{what}` in `{cname}.__init__` (only `self.<attr> = <expression>`, each attribute once, no control flow)")
            attr = st.targets[0].attr
            if attr in [f for f, _ in fields]:
                reject(st, f"attribute `self.{attr}` is assigned twice in `{cname}.__init__`")
            if attr.startswith("__") and not attr.endswith("__"):
                reject(st, f"private (name-mangled) attribute `self.{attr}`")
            self.mod.require_no_class_member(st, cname, attr)
            binds, term, t = self.expr(st.value, env)
            if binds:
                reject(st, "operation that can raise in `__init__`")
            if t not in ("opt", "obj"):
                reject(st, f"instance attribute `{attr}` of type {t} (only opaque objects / Optional ones)")
            fields.append((attr, t))
            terms.append(term)
        if not fields:
            reject(self.fd, f"`{cname}.__init__` stores nothing")
        self.mod.class_fields[cname] = fields
        g.COQ_TYPE["self"] = f"src_{cname}_obj V"
        self.ret = "self"
        return f"Ok (src_{cname}_mk {' '.join('(' + t + ')' for t in terms)})"

    # ------------------------------------------------------------------ statements
    def assign(self, s, target, value, env, cont):
        if isinstance(target, ast.Name) and not (isinstance(value, ast.Call) and self.is_effectful(value, env)):
            save = self.ntmp
            binds, term, t = self.expr(value, env)
            if t in NEW_TYPES:
                if target.id == "self":
                    reject(s, "assignment to `self`")
                env2 = self.bind_var(s, env, target.id, t)
                return wrap_binds(binds, f"let {mangle(target.id)} := {term} in\n{cont(env2)}")
            self.ntmp = save
        if isinstance(target, ast.Attribute):
            reject(s, f"assignment to the attribute `{ast.unparse(target)}` outside `__init__`")
        return super().assign(s, target, value, env, cont)

    def do_return(self, s, env):
        v = s.value
        if v is not None and not isinstance(v, ast.Tuple) and not (isinstance(v, ast.Call) and self.is_effectful(v, env)):
            save = self.ntmp
            binds, term, t = self.expr(v, env)
            if t in NEW_TYPES:
                self.set_ret(s, t)
                return wrap_binds(binds, self.ret_wrap(self.result_term(term, env)))
            self.ntmp = save
        return super().do_return(s, env)

    # ------------------------------------------------------------------ tests
    def cond(self, e, env):
        if not (isinstance(e, ast.UnaryOp) and isinstance(e.op, ast.Not)):
            save = self.ntmp
            binds, term, t = self.expr(e, env)
            if t == "opt":
                return binds, f"py_truthy_opt truthy ({term})"
            if t == "obj":
                return binds, f"truthy ({term})"
            if t == "dict":
                reject(e, "truth value of a dict")
            self.ntmp = save
        return super().cond(e, env)

    # ------------------------------------------------------------------ expressions
    def expr(self, e, env):
        if isinstance(e, ast.Constant) and e.value is None:
            return [], "(@None V)", "opt"
        if isinstance(e, ast.Name) and e.id in env and env[e.id] in NEW_TYPES:
            return [], mangle(e.id), env[e.id]
        if isinstance(e, ast.Attribute):
            if isinstance(e.value, ast.Name) and env.get(e.value.id) == "self":
                fields = dict(self.mod.class_fields.get(self.cname, []))
                if e.attr not in fields:
                    reject(e, f"attribute `self.{e.attr}` is not stored by `{self.cname}.__init__`")
                self.mod.require_no_class_member(e, self.cname, e.attr)
                return [], f"({self.cname}_{e.attr} {mangle(e.value.id)})", fields[e.attr]
            reject(e, f"attribute access `{ast.unparse(e)}`")
        if isinstance(e, ast.Compare) and len(e.ops) == 1 and isinstance(e.ops[0], (ast.Is, ast.IsNot)):
            left, right = e.left, e.comparators[0]
            if isinstance(left, ast.Constant) and left.value is None:
                left, right = right, left
            if not (isinstance(right, ast.Constant) and right.value is None):
                reject(e, "`is` / `is not` against something other than None")
            binds, term, t = self.expr(left, env)
            if t != "opt":
                reject(e, f"`is None` test of a value of type {t} (only of an Optional one)")
            c = f"(py_is_none {term})"
            return binds, c if isinstance(e.ops[0], ast.Is) else f"(negb {c})", "bool"
        if isinstance(e, ast.BoolOp):
            save = self.ntmp
            parts = [self.expr(v, env) for v in e.values]
            if any(t == "opt" for _, _, t in parts):
                if not all(t == "opt" for _, _, t in parts):
                    reject(e, "and / or mixing Optional values with values of types " + ", ".join(sorted({t for _, _, t in parts})))
                if any(b for b, _, _ in parts):
                    reject(e, "operation that can raise inside and / or")
                f = "py_or_opt" if isinstance(e.op, ast.Or) else "py_and_opt"
                term = parts[-1][1]
                for _, tm, _ in reversed(parts[:-1]):      # a or b or c = a or (b or c)
                    term = f"({f} truthy {tm} {term})"
                return [], term, "opt"
            if any(t in ("obj", "dict") for _, _, t in parts):
                reject(e, "and / or over values of types " + ", ".join(sorted({t for _, _, t in parts})))
            self.ntmp = save
        if isinstance(e, ast.Dict):
            items = []
            if not e.keys:
                reject(e, "empty dict literal")
            for k, v in zip(e.keys, e.values):
                if k is None:
                    reject(e, "dict unpacking `**` inside a dict literal")
                if not (isinstance(k, ast.Constant) and isinstance(k.value, str)):
                    reject(k, f"dict key `{ast.unparse(k)}` (only string literals)")
                binds, term, t = self.expr(v, env)
                if binds:
                    reject(v, "operation that can raise inside a dict literal")
                if t != "opt":
                    reject(v, f"dict value of type {t} (only Optional values)")
                items.append(f"({coq_bytes_of_str(k.value)}, {term})")
            return [], "[" + ";\n ".join(items) + "]", "dict"
        if isinstance(e, ast.Await):
            reject(e, "`await`")
        if isinstance(e, (ast.Yield, ast.YieldFrom)):
            reject(e, "`yield`")
        return super().expr(e, env)


# ----------------------------------------------------------------------------------------------- survey of the async code
SURVEY = [("client", "ServiceStub", "_send_messages"), ("client", "ServiceStub", "_unary_unary"), ("client", "ServiceStub", "_unary_stream"),
          ("client", "ServiceStub", "_stream_unary"), ("client", "ServiceStub", "_stream_stream"),
          ("server", "ServiceBase", "_call_rpc_handler_server_stream")]


def blockers(fd):
    """every construct of one function that is outside the accepted subset, by kind (informational, not a translation)"""
    out = {}

    def add(kind, node):
        out.setdefault(kind, []).append(getattr(node, "lineno", 0))
    if isinstance(fd, ast.AsyncFunctionDef):
        add("async def", fd)
    for d in fd.decorator_list:
        add("decorator @" + ast.unparse(d), d)
    if fd.args.vararg or fd.args.kwarg:
        add("* / ** parameters", fd)
    for n in ast.walk(fd):
        if isinstance(n, ast.Await):
            add("await", n)
        elif isinstance(n, ast.AsyncWith):
            add("async with", n)
        elif isinstance(n, ast.AsyncFor):
            add("async for", n)
        elif isinstance(n, (ast.Yield, ast.YieldFrom)):
            add("yield (the function is an async generator)", n)
        elif isinstance(n, ast.Try):
            add("try / except" + (" (bare except + re-raise)" if any(h.type is None for h in n.handlers) else ""), n)
        elif isinstance(n, ast.Raise) and n.exc is None:
            add("bare raise", n)
        elif isinstance(n, ast.Assert):
            add("assert", n)
        elif isinstance(n, ast.For):
            add("for over an opaque iterable", n)
        elif isinstance(n, ast.Call):
            f = ast.unparse(n.func)
            if any(k.arg is None for k in n.keywords):
                add("call with **mapping", n)
            if f in ("asyncio.ensure_future", "asyncio.create_task"):
                add(f"{f} (task creation)", n)
            elif f == "isinstance":
                add("isinstance(x, AsyncIterable)" if "AsyncIterable" in ast.unparse(n) else "isinstance", n)
            elif f == "type":
                add("type(x)", n)
            elif isinstance(n.func, ast.Attribute) and not f.startswith("asyncio."):
                add("method call on an opaque object (" + f + ")", n)
            elif isinstance(n.func, ast.Name) and f not in ("isinstance", "type"):
                add("call of an opaque callable (" + f + ")", n)
    return out


def survey():
    res = {}
    for side, cname, mname in SURVEY:
        path = os.path.join(REPO, SRC_REL if side == "client" else SRV_REL)
        key = f"{cname}.{mname}"
        try:
            tree = ast.parse(open(path, encoding="utf-8").read())
            fds = [n for c in tree.body if isinstance(c, ast.ClassDef) and c.name == cname for n in c.body
                   if isinstance(n, (ast.FunctionDef, ast.AsyncFunctionDef)) and n.name == mname]
            if len(fds) != 1:
                res[key] = {"not found exactly once": []}
            else:
                res[key] = blockers(fds[0])
        except Exception as e:  # noqa
            res[key] = {"unreadable: " + repr(e)[:100]: []}
    return res


# ----------------------------------------------------------------------------------------------- self-test
SELFTEST_HEAD = "from abc import ABC\nfrom typing import Optional\n"


def _cls(body, bases="ABC", extra=""):
    ind = "".join("    " + l + "\n" for l in body.strip("\n").split("\n"))
    return f"class C({bases}):\n{ind}{extra}"


INIT_OK = "def __init__(self, ch: \"Ch\", *, t: Optional[float] = None, m: Optional[int] = None) -> None:\n    self.ch = ch\n    self.t = t\n    self.m = m\n"
# (method to translate, source, expected: None = accepted | substring(s) of the rejection, substring the translation must contain | None)
SELFTEST = [
    ("__init__", _cls(INIT_OK), None, "src_C_mk (v_ch) (v_t) (v_m)"),
    ("r", _cls(INIT_OK + "def r(self, t: Optional[float]):\n    return {\"t\": self.t if t is None else t}\n"), None, "if (py_is_none v_t) then (C_t v_self) else v_t"),
    ("r", _cls(INIT_OK + "def r(self, t: Optional[float]):\n    return {\"t\": t if t is not None else self.t}\n"), None, "if (negb (py_is_none v_t)) then v_t else (C_t v_self)"),
    ("r", _cls(INIT_OK + "def r(self, t: Optional[float]):\n    return {\"t\": t or self.t}\n"), None, "py_or_opt truthy v_t (C_t v_self)"),
    ("r", _cls(INIT_OK + "def r(self, t: Optional[float]):\n    return {\"t\": t if t else self.t}\n"), None, "if py_truthy_opt truthy (v_t) then v_t else (C_t v_self)"),
    ("r", _cls(INIT_OK + "def r(self, t: Optional[float]):\n    return {\"t\": self.t and t}\n"), None, "py_and_opt truthy (C_t v_self) v_t"),
    ("r", _cls(INIT_OK + "def r(self, t: Optional[float]):\n    if t is None:\n        t = self.t\n    return {\"t\": t}\n"), None, "bind (if (py_is_none v_t)"),
    ("r", _cls(INIT_OK + "def r(self, t: Optional[float]):\n    if not t:\n        t = self.t\n    return {\"t\": t}\n"), None, "negb (py_truthy_opt truthy (v_t))"),
    ("r", _cls(INIT_OK + "def r(self, t: Optional[float]):\n    return {\"t\": None, \"t\": t}\n"), None, "(@None V)"),
    ("r", _cls(INIT_OK + "async def r(self, t: Optional[float]):\n    return {\"t\": t}\n"), "`async def` C.r", None),
    ("r", _cls(INIT_OK + "def r(self, t: Optional[float]):\n    return {\"t\": await t}\n"), "`await`", None),
    ("r", _cls(INIT_OK + "def r(self, t: Optional[float]):\n    d = {\"t\": self.t}\n    return {**d, \"u\": t}\n"), "dict unpacking", None),
    ("r", _cls(INIT_OK + "def r(self, t: Optional[float]):\n    return {k: v for k, v in [(\"t\", t)]}\n"), "expression `DictComp`", None),
    ("r", _cls(INIT_OK + "def r(self, t: Optional[float]):\n    return {\"t\": self.u}\n"), "attribute `self.u` is not stored", None),
    ("r", _cls(INIT_OK + "def r(self, t: Optional[float]):\n    return {\"t\": self.ch}\n"), "dict value of type obj", None),
    ("r", _cls(INIT_OK + "def r(self, t: Optional[float]):\n    return {\"t\": t or self.ch}\n"), "and / or mixing Optional values", None),
    ("r", _cls(INIT_OK + "def r(self, t: Optional[float]):\n    return {\"t\": self.t if self.ch is None else t}\n"), "`is None` test of a value of type obj", None),
    ("r", _cls(INIT_OK + "def r(self, t: Optional[float]):\n    return {\"t\": self.t if t == None else t}\n"), "comparison Eq between opt and opt", None),
    ("r", _cls(INIT_OK + "def r(self, t: Optional[float]):\n    self.t = t\n    return {\"t\": t}\n"), "outside `__init__`", None),
    ("r", _cls(INIT_OK + "def r(self, t: Optional[float]):\n    return {\"t\": self.ch.f(t)}\n"), "call of `self.ch.f`|attribute access", None),
    ("r", _cls(INIT_OK + "def r(self, t: Optional[float]):\n    return dict(t=t)\n"), "keyword arguments|call of `dict`", None),
    ("r", _cls(INIT_OK + "def r(self, t: Optional[float]):\n    try:\n        return {\"t\": t}\n    except ValueError:\n        raise\n"), "statement `Try`", None),
    ("r", _cls(INIT_OK + "def r(self, t: Optional[float]):\n    assert t is not None\n    return {\"t\": t}\n"), "statement `Assert`", None),
    ("r", _cls(INIT_OK + "def r(self, t: Optional[float]) -> dict:\n    return {\"t\": t}\n"), "return annotation", None),
    ("r", _cls(INIT_OK + "def r(self, t):\n    return {\"t\": t}\n"), "has no annotation", None),
    ("r", _cls(INIT_OK + "def r(self, t: float):\n    return {\"t\": t}\n"), "parameter annotation `float`", None),
    ("r", _cls(INIT_OK + "@staticmethod\ndef r(t: Optional[float]):\n    return {\"t\": t}\n"), "decorated method", None),
    ("r", _cls(INIT_OK + "def r(this, t: Optional[float]):\n    return {\"t\": t}\n"), "first parameter", None),
    ("r", _cls(INIT_OK + "def r(self, t: Optional[float]):\n    return {\"t\": t}\ndef r(self, t: Optional[float]):\n    return {\"t\": None}\n"), "not defined exactly once in the class body", None),
    ("r", _cls(INIT_OK + "def r(self, t: Optional[float]):\n    return {\"t\": self.t}\nt = property(lambda self: 1)\n"), "binds the name `t` at class level", None),
    ("r", _cls(INIT_OK + "def r(self, t: Optional[float]):\n    return {\"t\": t}\ndef __getattribute__(self, n):\n    return 1\n"), "defines `__getattribute__`", None),
    ("r", _cls(INIT_OK + "def r(self, t: Optional[float]):\n    return {\"t\": t}\n", bases="Base"), "base class `Base`", None),
    ("r", _cls(INIT_OK + "def r(self, t: Optional[float]):\n    return {\"t\": t}\n", extra="C.r = None\n"), "assigned / deleted outside the class body", None),
    ("r", _cls(INIT_OK + "def r(self, t: Optional[float]):\n    return {\"t\": t}\n", extra="class C:\n    pass\n"), "not defined exactly once at module level", None),
    ("r", "Optional = list\n" + _cls(INIT_OK + "def r(self, t: Optional[float]):\n    return {\"t\": t}\n"), "name `Optional` is not bound exactly once", None),
    ("__init__", _cls("def __init__(self, ch: \"Ch\", t: Optional[float] = None) -> None:\n    self.ch = ch\n    if t is not None:\n        self.t = t\n"), "statement `If` in `C.__init__`", None),
    ("__init__", _cls("def __init__(self, ch: \"Ch\") -> None:\n    self.ch = ch\n    self.ch = ch\n"), "assigned twice", None),
    ("__init__", _cls("def __init__(self, ch: \"Ch\") -> None:\n    super().__init__()\n    self.ch = ch\n"), "statement `Expr` in `C.__init__`", None),
    ("__init__", _cls("def __init__(self, ch: \"Ch\", *, t: Optional[float] = 3.0) -> None:\n    self.ch = ch\n    self.t = t\n"), "default of the parameter `t`", None),
    ("__init__", _cls("def __init__(self, ch: \"Ch\", **kw) -> None:\n    self.ch = ch\n"), "non-plain parameters", None),
    ("__init__", _cls("def __init__(self, ch: \"Ch\") -> None:\n    self.__ch = ch\n"), "private (name-mangled) attribute", None),
    ("__init__", _cls("def __init__(self, ch: \"Ch\") -> None:\n    self.ch = ch.inner\n"), "attribute access `ch.inner`", None),
    ("__init__", _cls("__slots__ = ('ch',)\ndef __init__(self, ch: \"Ch\") -> None:\n    self.ch = ch\n"), "defines `__slots__`", None),
]


def selftest():
    bad = 0
    for meth, src, want, contains in SELFTEST:
        text = ""
        try:
            info = Translator11(SELFTEST_HEAD + src).method("C", meth, ast.parse(""))
            text = info.text
            got = None
        except Reject as ex:
            got = str(ex)
        ok = (got is None) if want is None else (got is not None and any(w in got for w in want.split("|")))
        if ok and contains is not None and contains not in text.replace("\n", " "):
            ok = False
            got = "accepted, but the translation does not contain " + repr(contains) + ":\n" + text
        if not ok:
            bad += 1
            print(f"SELFTEST-FAIL: expected {want!r}, got {got!r} for\n{src}")
    # the real async functions must be rejected, each by name of its first construct
    for src, want in [("async def f(self, s: \"S\"):\n    await s\n", "`async def`")]:
        try:
            Translator11(SELFTEST_HEAD + _cls(INIT_OK + src)).method("C", "f", ast.parse(""))
            bad += 1
            print("SELFTEST-FAIL: async method accepted")
        except Reject as ex:
            if want not in str(ex):
                bad += 1
                print(f"SELFTEST-FAIL: expected {want!r}, got {ex}")
    n = len(SELFTEST) + 1
    print(f"selftest: {n - bad}/{n} snippets behaved as expected")
    return 1 if bad else 0


# ----------------------------------------------------------------------------------------------- driver
def note(ex):
    return str(ex).replace("*", "x").replace("(", "[").replace(")", "]")[:600]


def generate():
    """Returns (Gallina text, {"kwargs": None | reason}).  A rejection leaves NO definition behind, only the flag."""
    path = os.path.join(REPO, SRC_REL)
    with open(path, encoding="utf-8") as f:
        source = f.read()
    verdict = {}
    out = ["(* GENERATED by harness/gen_c11_src.py from the source text of " + SRC_REL.replace(os.sep, "/") + ". Do not edit.",
           "   Mechanical translation (accepted subset: see the generator and harness/gen_c16_src.py).",
           "   V = the opaque Python objects handled (channel, timeout, deadline, metadata values); truthy = bool() on them. *)",
           "From BP Require Import Base.Prelude Model.C16SrcLib Model.C11SrcLib.", ""]
    try:
        mod = Translator11(source)
        for m in METHODS:
            mod.method(CLASS, m, mod.tree)
        out.append(f"(* ---- class {CLASS}: the instance attributes stored by __init__, in order ---- *)")
        out.append(mod.record_text(CLASS))
        for info in mod.order:
            out.append(f"(* ---- {info.name} ---- *)")
            out.append(info.text)
        out.append(f"Definition src_c11_{PART}_translated : bool := true.")
        verdict[PART] = None
    except Reject as ex:
        verdict[PART] = str(ex)
        out = out[:5]
        out.append(f"(* part {PART} NOT translated - REJECTED: %s *)" % note(ex))
        out.append(f"Definition src_c11_{PART}_translated : bool := false.")
    return "\n".join(out) + "\n", verdict


def report(verdict):
    for part, why in verdict.items():
        print(f"C11SRC-TRANSLATION-{'OK' if why is None else 'REJECTED'}: {part}" + ("" if why is None else f": {why}"))


def main():
    mode = sys.argv[1] if len(sys.argv) > 1 else ""
    if mode == "--selftest":
        return selftest()
    if mode == "--survey":
        import json
        print("C11SRC-SURVEY: " + json.dumps(survey(), sort_keys=True))
        return 0
    text, verdict = generate()
    if mode == "--print":
        print(text, end="")
    elif mode != "--dry-run":
        os.makedirs(os.path.dirname(OUT), exist_ok=True)
        old = None
        if os.path.exists(OUT):
            with open(OUT) as f:
                old = f.read()
        if old != text:
            with open(OUT + ".tmp", "w") as f:
                f.write(text)
            os.replace(OUT + ".tmp", OUT)
            print("C11Src.v regenerated")
        else:
            print("C11Src.v unchanged")
    if mode != "--print":
        report(verdict)
    return 3 if any(v is not None for v in verdict.values()) else 0


if __name__ == "__main__":
    try:
        sys.exit(main())
    except Exception as e:  # fail closed: a stale translation must not survive a source that cannot even be read / parsed
        msg = f"{type(e).__name__}: {e}"
        if not (len(sys.argv) > 1 and sys.argv[1] in ("--dry-run", "--print", "--selftest", "--survey")):
            text = ("(* gen_c11_src.py: source-translation ERROR %s *)\nDefinition translation_failed : False := I.\n"
                    % msg.replace("*", "x").replace("(", "[").replace(")", "]")[:600])
            old = open(OUT).read() if os.path.exists(OUT) else None
            if old != text:
                os.makedirs(os.path.dirname(OUT), exist_ok=True)
                with open(OUT, "w") as f:
                    f.write(text)
        print(f"C11SRC-TRANSLATION-REJECTED: {PART}: {msg}")
        sys.exit(3)
