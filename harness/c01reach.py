"""C01, stage `reach`: the reachability theorems (Properties/C01.v layers 5-7) checked on the implementation.

The theorems C01_reachable_value_ok_parse / C01_reachable_sow_ok_parse / C01_roundtrip_reachable_parse speak about HISTORIES
of public-API operations and their hypothesis is a decidable predicate on the history (`hist_ok op_reach_ok_p`, six clauses,
coq/Model/C01ReachCv.v).  The main part of the check generates objects; this stage generates histories:

  1. histories over a dedicated schema (nesting depth 3, oneofs with message members, optional messages, maps of messages),
     the systematic schema and random schemas: constructor with kwargs, both from_dict forms, setattr, nested get / set at depth
     <= 3, copy, deepcopy, pickle, bytes / len / dump / == / bool, parse into the USED object of clean bytes and of bytes with
     unknown / misfit / out-of-range records.  Most histories are built to satisfy the conditions; the others violate one
     clause on purpose (two oneof members to the constructor, flag-down sub-message as oneof / optional member, lazily
     created intermediate holder = K12, value out of range, unknown field, misfit, unknown field in a nested payload,
     5-byte varint in a uint32 field).  A fixed list of shapes with the EXACT clause verdict they must get comes first.
  2. every history is run on real Message objects; the final object goes through the same evaluation as the generated
     objects of the main part (snapshot, bytes, parse, ==, bytes again, observers at every depth).
  3. Coq (vm_compute, lib.coq_compare): run7 of the same history must end in the snapshot of the real object; `hist_ok
     op_reach_ok_p` and its six clauses; c01_value_ok / sow_ok / deep_sow_ok of the final state must be what the harness computed
     on the real object; c01_holds; deep_mapvals_emit.
  4. ORACLE: hist_ok = true  =>  the real final object satisfies c01_value_ok and sow_ok (the two invariants) and the round
     trip holds in full on the implementation: == both ways (NaN inside a container: K7), which_one_of, readability /
     None-ness / serialized_on_wire of every attribute, the same at depth (flag of a forced-empty sub-message inside a handed-in
     value excepted, as in the main part), same bytes again.  hist_ok = false: if the state still satisfies c01_value_ok the
     value-level theorem C01_roundtrip applies (observers under sow_ok); otherwise the history is only counted by clause.  The
     K12 shape (cl_setflags fails and a flag that was up comes back down) is reported under the existing class label.
  5. evidence: histories satisfying / violating each clause, intended violations confirmed, parses into a used object.
"""
import json
import random
import traceback

from . import lib, msggen, histgen
from .msggen import Cls, Field, Elem, Schema, scalar, NBUILTIN

IMPORTS = ("Model.Types Model.Object Model.Eq Model.Encode Model.Decode Model.History Model.Canon Model.WellFormed "
           "Model.C07Ops Model.C01Def Model.C01Reach Model.C01Parse Model.C01Deep Model.C01ReachCv gen.Tables")
EXTRA_TARGETS = ["Model/C01ReachCv.vo", "Proofs/C01ReachCvP.vo"]

CLAUSES = ["cl_vals", "cl_groups", "cl_pickle", "cl_parse", "cl_kwflags", "cl_setflags"]
# components of reach_cv after the final state: hist_ok, the six clauses, then the state verdicts
COMPONENTS = ["hist_ok"] + CLAUSES + ["c01_value_ok", "sow_ok", "c01_holds", "deep_sow_ok", "deep_mapvals_emit"]
KNOWN_EXACT = {"c01_value_ok", "sow_ok", "deep_sow_ok"}       # computed on the real object by the harness as well

INTENT_CLAUSE = {"two_members": "cl_groups", "flag_down_kw": "cl_kwflags", "flag_down_set": "cl_setflags", "lazy_default": "cl_setflags",
                 "lazy_nondefault": "cl_setflags", "value_out_of_range": "cl_vals", "parse_unknown": "cl_parse", "parse_misfit": "cl_parse",
                 "parse_nested_unknown": "cl_parse", "parse_out_of_range": "cl_parse"}


# --------------------------------------------------------------------------------------
# schemas
# --------------------------------------------------------------------------------------
def reach_schema():
    """nesting Top.mid.rec.leaf (depth 3, Mid recursive), oneofs with scalar / message / field-less message members at two
    levels, optional messages, repeated (packed, unpacked, messages), maps (scalars, messages), wrapper, Timestamp / Duration"""
    enums = [[("ZERO", 0), ("ONE", 1), ("NEG", -1)]]
    leaf = Cls("Leaf", [Field("x", 1, "plain", scalar("int32")), Field("s", 2, "plain", scalar("string")),
                        Field("p", 3, "plain", scalar("bool"), group=0), Field("q", 4, "plain", scalar("bytes"), group=0),
                        Field("o", 5, "optional", scalar("sint32"))], ngroups=1)
    nil = Cls("Nil", [])
    mid = Cls("Mid", [Field("leaf", 1, "plain", Elem("msg", "message", 0)), Field("n", 2, "plain", scalar("int32")),
                      Field("sub", 3, "plain", Elem("msg", "message", 0), group=0),
                      Field("e", 4, "plain", Elem("msg", "message", 1), group=0),
                      Field("t", 5, "plain", scalar("string"), group=0),
                      Field("ol", 6, "optional", Elem("msg", "message", 0)),
                      Field("rec", 7, "plain", Elem("msg", "message", 2)),
                      Field("r", 8, "repeated", scalar("uint32"))], ngroups=1)
    top = Cls("Top", [Field("mid", 1, "plain", Elem("msg", "message", 2)),
                      Field("a", 2, "plain", scalar("int32"), group=0), Field("b", 3, "plain", scalar("string"), group=0),
                      Field("c", 4, "plain", Elem("msg", "message", 0), group=0),
                      Field("nil", 5, "plain", Elem("msg", "message", 1), group=0),
                      Field("t", 6, "plain", scalar("int64")),
                      Field("r", 7, "repeated", scalar("sint32")), Field("rs", 8, "repeated", scalar("string")),
                      Field("rm", 9, "repeated", Elem("msg", "message", 0)),
                      Field("mp", 10, "map", Elem("msg", "message", 0), key=scalar("string")),
                      Field("mi", 11, "map", scalar("int64"), key=scalar("int32")),
                      Field("w", 12, "wrapper", scalar("int32")), Field("o", 13, "optional", scalar("string")),
                      Field("om", 14, "optional", Elem("msg", "message", 2)),
                      Field("dt", 15, "plain", Elem("datetime", "message")), Field("td", 16, "plain", Elem("timedelta", "message")),
                      Field("f", 17, "plain", scalar("float")), Field("d", 18, "plain", scalar("double"), group=1),
                      Field("u32", 19, "plain", scalar("uint32")), Field("en", 2047, "plain", Elem("enum", "enum", 0), group=1),
                      Field("leaf", 20, "plain", Elem("msg", "message", 0))], ngroups=2)
    return Schema([leaf, nil, mid, top], enums)


def get_schema(desc):
    if desc["kind"] == "reach":
        return reach_schema()
    if desc["kind"] == "matrix":
        return msggen.matrix_schema()
    return msggen.random_schema(random.Random(desc["seed"]))


def has_nesting(s, ci):
    return any(f.elem.kind == "msg" and f.card in ("plain", "optional") for f in s.classes[ci].fields)


# --------------------------------------------------------------------------------------
# values that satisfy val_ok and flag_ok by construction
# --------------------------------------------------------------------------------------
def raise_flag(schema, ci, m, rng):
    """raise _serialized_on_wire of m the public way without changing its value: assign a default to one of its fields"""
    import betterproto as bp
    if bp.serialized_on_wire(m):
        return m
    c = schema.classes[ci]
    cands = [f for f in c.fields if f.group is None] or list(c.fields)
    if not cands:
        return m        # field-less: __setattr__ / the constructor of the holder raise its flag themselves
    f = rng.choice(cands)
    setattr(m, f.name, msggen.default_of(schema, f))
    return m


def clean_msg(schema, ci, rng, depth=0, flagged=False):
    c = schema.classes[ci]
    p = rng.choice([0.0, 0.3, 0.6]) if depth < 2 else rng.choice([0.0, 0.25])
    kwargs, used = {}, set()
    for f in c.fields:
        if rng.random() >= p:
            continue
        if f.group is not None:
            if f.group in used:
                continue
            used.add(f.group)
        if f.elem.kind == "msg" and depth >= 3:
            continue
        kwargs[f.name] = clean_value(schema, f, rng, depth)
    m = c.py(**kwargs)
    if flagged:
        raise_flag(schema, ci, m, rng)
    return m


def clean_elem(schema, f, e, rng, depth, flagged):
    if e.kind == "msg":
        return clean_msg(schema, e.ref, rng, depth + 1, flagged=flagged)
    return msggen.gen_elem(schema, e, rng, depth, True)


def clean_value(schema, f, rng, depth=0, allow_none=True):
    if f.card == "repeated":
        return [clean_elem(schema, f, f.elem, rng, depth, rng.random() < 0.5) for _ in range(msggen.gen_len(rng))]
    if f.card == "map":
        return {msggen.gen_scalar(f.key.pt, rng, True): clean_elem(schema, f, f.elem, rng, depth, rng.random() < 0.5)
                for _ in range(msggen.gen_len(rng))}
    if f.card in ("optional", "wrapper") and allow_none and rng.random() < 0.15:
        return None
    r = rng.random()
    if r < 0.3 and f.elem.kind != "msg":
        return msggen.default_of(schema, Field(f.name, f.number, "plain", f.elem))
    need_flag = f.group is not None or f.card == "optional" or rng.random() < 0.5
    return clean_elem(schema, f, f.elem, rng, depth, need_flag)


# --------------------------------------------------------------------------------------
# records for parse
# --------------------------------------------------------------------------------------
def tag(num, wt):
    return msggen.enc_varint((num << 3) | wt)


def dirty_bytes(schema, ci, rng, kind):
    """bytes that fail exactly one clause of clean_bytes (None when the class has no suitable field)"""
    from .props import c07
    c = schema.classes[ci]
    if kind == "parse_unknown":
        return msggen.gen_unknown(rng, {f.number for f in c.fields})
    if kind == "parse_misfit":
        cands = [f for f in c.fields if f.card in ("plain", "optional") and f.elem.kind in ("scalar", "enum")]
        if not cands:
            return None
        f = rng.choice(cands)
        wt = c07.WT[f.elem.pt]
        other = rng.choice([w for w in (0, 1, 5) if w != wt])      # a length-delimited record would fit a packed field elsewhere
        payload = {0: msggen.enc_varint(rng.choice([0, 1, 300])), 1: bytes(8), 5: bytes([1, 0, 0, 0])}[other]
        return tag(f.number, other) + payload
    if kind == "parse_nested_unknown":
        cands = [f for f in c.fields if f.card == "plain" and f.elem.kind == "msg"]
        if not cands:
            return None
        f = rng.choice(cands)
        inner = msggen.gen_unknown(rng, {g.number for g in schema.classes[f.elem.ref].fields}, n=1)
        return tag(f.number, 2) + msggen.enc_varint(len(inner)) + inner
    if kind == "parse_out_of_range":
        cands = [f for f in c.fields if f.card in ("plain", "optional") and f.elem.kind == "scalar" and f.elem.pt == "uint32"]
        if not cands:
            return None
        f = rng.choice(cands)
        return tag(f.number, 0) + msggen.enc_varint((1 << 35) + rng.randrange(1000))
    raise ValueError(kind)


# --------------------------------------------------------------------------------------
# nested paths, chosen on the state so far
# --------------------------------------------------------------------------------------
def pick_path(schema, ci, shadow, rng, want_depth, lazy):
    """a path of message-valued attributes that are readable now.  lazy=False: every holder strictly between the object and the
    last one is flagged (set_flags_ok); lazy=True: at least one of them is NOT (returns None when there is no such path)"""
    import betterproto as bp
    from .props import c07
    node, cur, path, crossed_unflagged = c07.raw_clone(shadow), ci, [], False
    for d in range(want_depth):
        cands = []
        for i, f in enumerate(schema.classes[cur].fields):
            if f.elem.kind != "msg" or f.card not in ("plain", "optional"):
                continue
            try:
                v = getattr(node, f.name)
            except AttributeError:
                continue
            if isinstance(v, bp.Message):
                cands.append((i, f, v))
        if not cands:
            break
        last = d == want_depth - 1
        if not last:
            flagged = [x for x in cands if bp.serialized_on_wire(x[2])]
            unflagged = [x for x in cands if not bp.serialized_on_wire(x[2])]
            if lazy and unflagged and not crossed_unflagged:
                i, f, v = rng.choice(unflagged)
                crossed_unflagged = True
            elif flagged:
                i, f, v = rng.choice(flagged)
            elif lazy and unflagged:
                i, f, v = rng.choice(unflagged)
            else:
                i, f, v = rng.choice(cands)      # nothing flagged to go through: stop at this holder
                path.append(i)
                cur, node = f.elem.ref, v
                break
        else:
            i, f, v = rng.choice(cands)
        path.append(i)
        cur, node = f.elem.ref, v
    if lazy and not crossed_unflagged:
        return None
    return path, cur


# --------------------------------------------------------------------------------------
# history generation
# --------------------------------------------------------------------------------------
CLEAN_KINDS = (["construct"] * 2 + ["fromdict"] * 3 + ["set"] * 4 + ["set_nested"] * 5 + ["ladder"] + ["get"] * 3 + ["parse_clean"] * 4
               + ["copy", "deepcopy", "pickle", "pickle", "bytes", "len", "dump", "eq", "bool"])
DIRTY_KINDS = ["two_members", "flag_down_kw", "flag_down_set", "lazy_default", "lazy_default", "lazy_nondefault", "value_out_of_range",
               "parse_unknown", "parse_unknown", "parse_misfit", "parse_nested_unknown", "parse_out_of_range"]


def set_op(schema, path, i, v):
    from .props import c07
    return {"k": "set", "path": list(path), "i": i, "v": c07.enc_val(schema, v)}


def gen_clean_op(schema, ci, shadow, rng, ctx):
    """a list of ops (usually one) built to satisfy every clause on the state `shadow`"""
    import betterproto as bp
    from .props import c07
    c = schema.classes[ci]
    k = rng.choice(CLEAN_KINDS)
    if k == "construct":
        src = clean_msg(schema, ci, rng, 0)
        d = object.__getattribute__(src, "__dict__")
        kw = {f.name: d[f.name] for f in c.fields if d[f.name] is not bp.PLACEHOLDER and not (d[f.name] is None and f.card in ("optional", "wrapper"))}
        return [{"k": "construct", "kw": {n: c07.enc_val(schema, v) for n, v in kw.items()}}]
    if k == "fromdict":
        src = clean_msg(schema, ci, rng, 1)
        casing = rng.choice([bp.Casing.CAMEL, bp.Casing.SNAKE])
        d = c07.raw_clone(src).to_dict(casing=casing, include_default_values=False)
        json.dumps(d)
        return [{"k": "fromdict", "inst": rng.random() < 0.6, "d": d}]
    if k == "set":
        if not c.fields:
            return [{"k": "bool"}]
        i = rng.randrange(len(c.fields))
        return [set_op(schema, [], i, clean_value(schema, c.fields[i], rng, 1))]
    if k in ("set_nested", "get"):
        got = pick_path(schema, ci, shadow, rng, rng.choice([1, 1, 2, 2, 3, 3]), lazy=False)
        path, cur = got
        cc = schema.classes[cur]
        if not cc.fields:
            return [{"k": "bool"}]
        i = rng.randrange(len(cc.fields))
        if k == "get":
            return [{"k": "get", "path": path, "i": i}]
        return [set_op(schema, path, i, clean_value(schema, cc.fields[i], rng, 2))]
    if k == "ladder":
        # m.a.x = v; m.a.b.y = w; m.a.b.c.z = u: each assignment flags the holder the next one walks through
        ops, node, cur, path = [], c07.raw_clone(shadow), ci, []
        for depth in range(3):
            cands = [(i, f) for i, f in enumerate(schema.classes[cur].fields)
                     if f.elem.kind == "msg" and f.card == "plain" and f.group is None]
            if not cands:
                break
            i, f = rng.choice(cands)
            path = path + [i]
            cur = f.elem.ref
            inner = [(j, g) for j, g in enumerate(schema.classes[cur].fields) if g.elem.kind != "msg" and g.group is None]
            if not inner:
                break
            j, g = rng.choice(inner)
            ops.append(set_op(schema, path, j, clean_value(schema, g, rng, 3)))
        return ops or [{"k": "bool"}]
    if k == "parse_clean":
        bs = bytes(clean_msg(schema, ci, rng, 1))
        if rng.random() < 0.3:
            bs += bytes(clean_msg(schema, ci, rng, 2))
        return [{"k": "parse", "bs": bs.hex()}]
    if k == "eq":
        return [{"k": "eq", "other": c07.enc_val(schema, msggen.gen_message(schema, ci, rng))}]
    if k == "dump":
        return [{"k": "dump", "delimit": rng.random() < 0.5}]
    return [{"k": k}]


def gen_dirty_op(schema, ci, shadow, rng, kind):
    """ops that violate exactly the clause INTENT_CLAUSE[kind] (None when the class / state offers no way to)"""
    import betterproto as bp
    from .props import c07
    c = schema.classes[ci]
    if kind == "two_members":
        groups = {}
        for f in c.fields:
            if f.group is not None:
                groups.setdefault(f.group, []).append(f)
        groups = [fs for fs in groups.values() if len(fs) >= 2]
        if not groups:
            return None
        fs = rng.sample(rng.choice(groups), 2)
        kw = {}
        for f in fs:
            v = clean_value(schema, f, rng, 1, allow_none=False)
            kw[f.name] = v
        return [{"k": "construct", "kw": {n: c07.enc_val(schema, v) for n, v in kw.items()}}]
    if kind in ("flag_down_kw", "flag_down_set"):
        cands = [(i, f) for i, f in enumerate(c.fields) if f.elem.kind == "msg" and (f.card == "optional" or (f.card == "plain" and f.group is not None))
                 and schema.classes[f.elem.ref].fields]
        if not cands:
            return None
        i, f = rng.choice(cands)
        v = schema.classes[f.elem.ref].py()           # all-default, flag down, as a oneof member / optional field
        if kind == "flag_down_kw":
            return [{"k": "construct", "kw": {f.name: c07.enc_val(schema, v)}}]
        return [set_op(schema, [], i, v)]
    if kind in ("lazy_default", "lazy_nondefault"):
        got = pick_path(schema, ci, shadow, rng, rng.choice([2, 2, 3]), lazy=True)
        if got is None:
            return None
        path, cur = got
        inner = [(j, g) for j, g in enumerate(schema.classes[cur].fields)
                 if g.card == "plain" and g.group is None and g.elem.kind in ("scalar", "enum") and g.elem.pt in msggen.INT_RANGE]
        if not inner:
            return None
        j, g = rng.choice(inner)
        v = msggen.default_of(schema, g) if kind == "lazy_default" else (type(msggen.default_of(schema, g))(1) if g.elem.kind != "enum" else
                                                                          schema.pyenums[g.elem.ref].try_value(1))
        return [set_op(schema, path, j, v)]
    if kind == "value_out_of_range":
        cands = [(i, f) for i, f in enumerate(c.fields) if f.card == "plain" and f.elem.kind == "scalar" and f.elem.pt in ("int32", "uint32", "sint32", "int64", "uint64")]
        if not cands:
            return None
        i, f = rng.choice(cands)
        lo, hi = msggen.INT_RANGE[f.elem.pt]
        return [set_op(schema, [], i, rng.choice([hi, hi + 5, lo - 1]))]
    bs = dirty_bytes(schema, ci, rng, kind)
    if bs is None:
        return None
    if rng.random() < 0.5:
        bs = bytes(clean_msg(schema, ci, rng, 2)) + bs
    return [{"k": "parse", "bs": bs.hex()}]


def try_ops(schema, ci, shadow, ops):
    """apply ops to a clone of the state so far; returns the new state, or None when one of them raises"""
    from .props import c07
    m = c07.raw_clone(shadow)
    for op in ops:
        m = c07.apply7(schema, ci, m, op)[0]
    return m


def gen_history(schema, ci, rng, ctx, intent):
    """returns (ops, intent actually injected or None)"""
    n = rng.randint(2, 9)
    at = rng.randrange(n) if intent else -1
    ops, shadow, injected = [], schema.classes[ci].py(), None
    for step in range(n):
        new = None
        if step == at:
            try:
                new = gen_dirty_op(schema, ci, shadow, rng, intent)
            except (msggen.Unmodellable, Exception):
                new = None
            if new is None and step + 1 < n:
                at = step + 1           # not possible on this state: try again after the next operation
        was_dirty = new is not None
        if new is None:
            try:
                new = gen_clean_op(schema, ci, shadow, rng, ctx)
            except msggen.Unmodellable:
                ctx.count("reach:gen:unmodellable")
                continue
            except Exception as e:  # noqa  (e.g. to_dict of a generated value fails: not this stage's business)
                ctx.count(f"reach:gen:error:{type(e).__name__}")
                continue
        try:
            nxt = try_ops(schema, ci, shadow, new)
        except Exception as e:  # noqa: the operation raises on this state: leave it out (C07 / C17 cover raising operations)
            ctx.count(f"reach:gen:op_raises:{new[0]['k']}:{type(e).__name__}")
            continue
        ops += new
        shadow = nxt
        if was_dirty:
            injected = intent
    return ops, injected


# --------------------------------------------------------------------------------------
# the fixed shapes, with the exact set of clauses each must fail
# --------------------------------------------------------------------------------------
def fixed_histories(s):
    """[(name, class index, ops, set of clauses that must evaluate to false)] over reach_schema"""
    from .props import c07
    names = {c.name: i for i, c in enumerate(s.classes)}
    Leaf, Nil, Mid, Top = (s.classes[names[n]].py for n in ("Leaf", "Nil", "Mid", "Top"))
    T, M = names["Top"], names["Mid"]

    def fi(ci, name):
        return [f.name for f in s.classes[ci].fields].index(name)

    def st(ci, path_names, name, v):
        path, cur = [], ci
        for pn in path_names:
            i = fi(cur, pn)
            path.append(i)
            cur = s.classes[cur].fields[i].elem.ref
        return {"k": "set", "path": path, "i": fi(cur, name), "v": c07.enc_val(s, v)}

    def kw(**d):
        return {"k": "construct", "kw": {n: c07.enc_val(s, v) for n, v in d.items()}}

    def parse(b):
        return {"k": "parse", "bs": b.hex()}

    used = [kw(a=5, r=[1, -2], mp={"k": Leaf(x=1)}), st(T, [], "t", 7)]
    clean = bytes(Top(b="y", r=[3], rs=["z"], mp={"k": Leaf(x=2)}, mid=Mid(n=4, sub=Leaf(x=0)), w=7, u32=9))
    out = [
        ("k12-default", T, [st(T, ["mid", "rec"], "n", 0)], {"cl_setflags"}),
        ("k12-default-depth3", T, [st(T, ["mid", "rec", "leaf"], "x", 0)], {"cl_setflags"}),
        ("k12-nondefault", T, [st(T, ["mid", "rec"], "n", 5)], {"cl_setflags"}),
        ("k12-second-hop-only", T, [st(T, ["mid"], "n", 1), st(T, ["mid", "rec", "leaf"], "x", 0)], {"cl_setflags"}),
        ("ladder-flagged", T, [st(T, ["mid"], "n", 1), st(T, ["mid", "rec"], "n", 2), st(T, ["mid", "rec", "leaf"], "x", 0),
                               {"k": "bytes"}, {"k": "pickle"}, {"k": "get", "path": [fi(T, "mid"), fi(M, "rec")], "i": fi(M, "leaf")}], set()),
        ("flagged-by-assignment", T, [st(T, [], "mid", Mid(n=1)), st(T, ["mid", "leaf"], "x", 0)], set()),
        ("two-members-constructor", T, [kw(a=5, b="x")], {"cl_groups"}),
        ("two-members-one-default", T, [kw(a=0, c=Leaf(x=1))], {"cl_groups"}),
        ("two-members-from-dict-instance", T, [{"k": "fromdict", "inst": True, "d": {"a": 5, "b": "x"}}], set()),
        ("flag-down-oneof-member-constructor", T, [kw(c=Leaf())], {"cl_kwflags"}),
        ("flag-down-optional-constructor", T, [kw(om=Mid())], {"cl_kwflags"}),
        ("flag-down-oneof-member-setattr", T, [st(T, [], "c", Leaf())], {"cl_setflags"}),
        ("flag-down-nested-setattr", T, [st(T, ["mid"], "sub", Leaf())], {"cl_setflags"}),
        ("fieldless-member", T, [kw(nil=Nil()), st(T, ["mid"], "e", Nil())], set()),
        ("flag-down-plain-default", T, [kw(mid=Mid(), leaf=Leaf()), st(T, [], "mid", Mid())], set()),
        ("flagged-member", T, [kw(c=Leaf(x=0)), st(T, [], "om", Mid(n=0))], set()),
        ("value-out-of-range", T, used + [st(T, [], "u32", 1 << 32)], {"cl_vals"}),
        ("nested-value-out-of-range", T, [st(T, ["mid"], "n", 1 << 31)], {"cl_vals"}),
        ("value-dirty-inside", T, [st(T, [], "rm", [Leaf().parse(bytes.fromhex("9806" "01"))])], {"cl_vals"}),
        ("parse-clean-into-used", T, used + [parse(clean), {"k": "len"}, parse(bytes(Top(nil=Nil(), r=[5])))], set()),
        ("parse-unknown-into-used", T, used + [parse(clean + bytes.fromhex("980601"))], {"cl_parse"}),
        ("parse-misfit", T, used + [parse(bytes.fromhex("35" "01000000"))], {"cl_parse"}),                  # t (int64, number 6) as fixed32
        ("parse-nested-unknown", T, used + [parse(bytes.fromhex("0a03" "980601"))], {"cl_parse"}),          # mid { 99: 1 }
        ("parse-out-of-range", T, used + [parse(bytes.fromhex("9801" "8080808010"))], {"cl_parse"}),        # u32 = 2**32
        ("parse-int32-truncated", M, [parse(bytes.fromhex("10" "8080808010"))], set()),                     # n (int32): the decoder truncates
        ("parse-member-resets-sibling", T, used + [parse(bytes(Top(b="z"))), parse(bytes(Top(c=Leaf(x=3))))], set()),
        ("unknown-then-pickle", T, [parse(bytes.fromhex("980601")), {"k": "pickle"}, {"k": "copy"}], {"cl_parse"}),
    ]
    return out


# --------------------------------------------------------------------------------------
# running a history on the real classes
# --------------------------------------------------------------------------------------
class Hist:
    __slots__ = ("si", "ci", "ops", "origin", "intent", "expect", "coq_ops", "m", "k", "parse_used", "verdict", "top_sow", "error")


def run_real(schema, ci, ops):
    """(final object, number of parses into an object whose flag was up, coq literals, left-behind original or None).
    The history goes on with the result of copy / deepcopy / pickle.  The ORIGINAL of the first deepcopy that is followed by
    further operations is kept: it is itself an object reached by a history (the prefix before the deepcopy) and whatever is
    done to the deep copy afterwards must not show in it (in the model values are trees)."""
    from .props import c07
    m = schema.classes[ci].py()
    coq_ops, parse_used, left = [], 0, None
    for j, op in enumerate(ops):
        coq_ops.append(c07.coq_op7(schema, ci, op))
        if op["k"] == "parse" and object.__getattribute__(m, "_serialized_on_wire"):
            parse_used += 1
        before = m
        m = c07.apply7(schema, ci, m, op)[0]
        if op["k"] == "deepcopy" and left is None and 0 < j < len(ops) - 1 and m is not before:
            left = (j, before)
    return m, parse_used, coq_ops, left


def problem_depth(path):
    return max(0, path.count(".") - 1)


def expected_bits(h, c01):
    """the harness' guess for every boolean component of reach_cv (exact for KNOWN_EXACT, a guess otherwise)"""
    p = dict(zip(c01.PRED_NAMES, h.k.preds))
    value_ok = all(h.k.preds[:5])
    exp = h.expect if h.expect is not None else ({INTENT_CLAUSE[h.intent]} if h.intent else set())
    bits = {"hist_ok": not exp}
    for cl in CLAUSES:
        bits[cl] = cl not in exp
    bits["c01_value_ok"] = value_ok
    bits["sow_ok"] = h.top_sow
    bits["deep_sow_ok"] = p["sow_ok"]
    bits["c01_holds"] = bool(h.k.err is None and h.k.eq_rev and h.k.b2 == h.k.b and value_ok)
    bits["deep_mapvals_emit"] = True
    return [bits[n] for n in COMPONENTS]


def judge(ctx, schema, desc, h, c01):
    """the oracle on one history, given Coq's verdicts"""
    v = h.verdict
    k = h.k
    p = dict(zip(c01.PRED_NAMES, k.preds))
    value_ok = all(k.preds[:5])
    inp = {"stage": "reach", "schema": desc, "class": h.ci, "class_name": schema.classes[h.ci].name, "origin": h.origin,
           "intent": h.intent, "ops": h.ops, "coq_verdicts": v, "predicates_on_real_object": p, "top_level_sow_ok": h.top_sow,
           "repr": k.repr0, "bytes": k.b.hex()[:4000] if k.b is not None else None}
    H = v["hist_ok"]
    failed = [cl for cl in CLAUSES if not v[cl]]
    ctx.count("reach:hist_ok:" + ("true" if H else "false"))
    for cl in CLAUSES:
        ctx.count(f"reach:clause:{cl}:" + ("satisfied" if v[cl] else "VIOLATED"))
    if not H:
        ctx.count("reach:hist_not_ok:first_failing_clause:" + (failed[0] if failed else "none?"))
    if h.parse_used:
        ctx.count("reach:histories_with_parse_into_used_object")
        ctx.count("reach:parses_into_used_object", h.parse_used)
        if H:
            ctx.count("reach:hist_ok_with_parse_into_used_object")
    if h.intent:
        ctx.count(f"reach:intent:{h.intent}:" + ("clause_violated_as_intended" if not v[INTENT_CLAUSE[h.intent]] else "NOT_violated"))
    ctx.count("reach:final_state:c01_value_ok:" + str(value_ok).lower())
    ctx.count("reach:final_state:sow_ok:" + str(h.top_sow).lower())
    ctx.count("reach:final_state:c01_holds(model):" + str(v["c01_holds"]).lower())
    if not v["deep_mapvals_emit"]:
        ctx.count("reach:final_state:deep_mapvals_emit:false")
    if H != (not failed):
        ctx.fail("corr", "hist_ok op_reach_ok_p is not the conjunction of its six clauses on this history (Proofs/C01ReachCvP.v says it is)", input=inp)
    # ---- the invariants, on the real object
    if H and not value_ok:
        ctx.fail("oracle", "a history inside the conditions of C01_reachable_value_ok_parse ends in a real object that does NOT satisfy c01_value_ok "
                           f"(in_range / oneof_clean / cur_ok / no_unknown / keys_unique = {k.preds[:5]})", cls=None, input=inp)
    if H and not h.top_sow:
        ctx.fail("oracle", "a history inside the conditions of C01_reachable_sow_ok_parse ends in a real object that does NOT satisfy sow_ok", cls=None, input=inp)
    if not (H or value_ok):
        ctx.count("reach:outside_every_theorem(counted only)")
        if k.err is None and k.eq and k.eq_rev and k.b2 == k.b and not k.problems:
            ctx.count("reach:outside_every_theorem:round_trip_holds_anyway")
        return
    ctx.count("reach:judged:" + ("hist_ok" if H else "value_ok_only"))
    if k.b:
        ctx.seen_nontrivial(("reach", h.si, h.ci, k.b))
    # ---- the round trip, on the implementation
    thm = "C01_roundtrip_reachable_parse" if H else "C01_roundtrip"
    if k.err is not None:
        ctx.fail("oracle", f"[{thm}] round trip of the object a history ends in raises at stage {k.stage}: {k.err}", cls=None, input=inp)
        return
    if not (k.eq and k.eq_rev):
        if not p["nan_free"]:
            ctx.count("reach:witness:nan_in_container_unequal")
            ctx.fail("oracle", "parse(bytes(m)) != m", cls="nan-in-container", input=inp)
        else:
            ctx.fail("oracle", f"[{thm}] parse(bytes(m)) != m for the object a history ends in (m2==m: {k.eq}, m==m2: {k.eq_rev})", cls=None, input=inp)
    if k.b2 != k.b:
        ctx.fail("oracle", f"[{thm}] bytes(parse(bytes(m))) differs from bytes(m) for the object a history ends in", cls=None,
                 input=dict(inp, bytes2=k.b2.hex()[:4000]))
    if H and p["nan_free"] and p["sow_ok"] and not v["c01_holds"]:
        ctx.fail("corr", "inside the conditions of C01_roundtrip_reachable_parse the model's own statement c01_holds is false on the state reached", input=inp)
    for clause, path, detail in k.problems:
        depth = problem_depth(path)
        what = f"[{thm}] observer disagrees after the round trip of the object a history ends in: {clause} at {path}: {detail}"
        if clause != "flag":
            ctx.fail("oracle", what, cls=None, input=inp)
        elif depth == 0 and (H or h.top_sow):
            ctx.fail("oracle", what, cls=None, input=inp)
        elif depth == 0:
            ctx.count("reach:flag_raised_on_forced_empty_submessage(top level, sow_ok false)")
        elif not p["sow_ok"]:
            ctx.count("reach:flag_raised_on_forced_empty_submessage(at depth, deep sow_ok false)")
        elif not v["cl_setflags"]:
            if "True -> False" in detail:
                # K12: presence of a sub-message assigned through an unflagged intermediate holder is lost
                ctx.count("reach:K12_shape_reproduced")
                ctx.fail("oracle", what, cls="lazy-intermediate-default", input=inp)
            else:
                ctx.count("reach:lazy_intermediate_other_flag_difference")
        else:
            ctx.fail("oracle", what, cls=None, input=inp)


# --------------------------------------------------------------------------------------
def stage(ctx, c01, si_offset, add_case):
    """si_offset: the index the first schema of this stage gets in the main part's schema list; add_case(Case): hands the
    evaluated final object to the main part's correspondences"""
    import time
    t0 = time.time()
    rng = ctx.rng
    n_random = 2 if not ctx.thorough else 12
    descs = [{"kind": "reach"}, {"kind": "matrix"}]
    for _ in range(n_random * 4):
        if len(descs) >= 2 + n_random:
            break
        d = {"kind": "random", "seed": rng.getrandbits(48)}
        try:
            s = get_schema(d)
        except Exception:  # noqa
            ctx.count("reach:schema_build_error")
            continue
        ok = any(has_nesting(s, ci) for ci in range(len(s.classes)))
        s.dispose()
        if ok:
            descs.append(d)
    schemas = [get_schema(d) for d in descs]
    prelude = "\n".join(f"Definition rs{i} : schema := {s.coq()}." for i, s in enumerate(schemas))
    hists = []

    def do(si, ci, ops, origin, intent=None, expect=None, preset=None):
        s = schemas[si]
        h = Hist()
        h.si, h.ci, h.ops, h.origin, h.intent, h.expect, h.verdict, h.error = si, ci, ops, origin, intent, expect, None, None
        inp = {"stage": "reach", "schema": descs[si], "class": ci, "origin": origin, "ops": ops}
        left = None
        try:
            if preset is not None:
                h.m, h.parse_used, h.coq_ops = preset
            else:
                h.m, h.parse_used, h.coq_ops, left = run_real(s, ci, ops)
        except msggen.Unmodellable:
            ctx.count("reach:unmodellable_op")
            return
        except Exception as e:  # noqa  (generated histories were tried on a shadow object first: this is not expected)
            if expect is not None:
                ctx.fail("oracle", f"a fixed history of the reachability stage raises on the implementation: {type(e).__name__}: {e}", cls=None,
                         input=dict(inp, traceback=traceback.format_exc()[-1500:]))
            else:
                ctx.count(f"reach:history_raises:{type(e).__name__}")
            return
        try:
            h.top_sow = c01.local_preds(s, ci, h.m)[5]
            h.k = c01.evaluate(s, si_offset + si, ci, h.m, f"reach:{origin}")
        except msggen.Unmodellable:
            ctx.count("reach:unmodellable_state")
            return
        except Exception as e:  # noqa
            ctx.fail("oracle", f"could not snapshot the object a history ends in: {type(e).__name__}: {e}", cls=None,
                     input=dict(inp, traceback=traceback.format_exc()[-1500:]))
            return
        ctx.cov["evaluations"] += 1
        for op in (ops if preset is None else []):
            ctx.count("reach:op:" + op["k"] + (":inst" if op.get("inst") else "") + (f":depth{len(op['path'])}" if op.get("path") else ""))
        ctx.count(f"reach:schema:{descs[si]['kind']}")
        hists.append(h)
        if left is not None:
            # the original a deepcopy left behind: reached by the prefix, must be untouched by what followed on the copy
            j, orig = left
            ctx.count("reach:left_behind_originals_of_deepcopy")
            do(si, ci, ops[:j], origin + f":original-left-behind-by-deepcopy-at-step-{j}", preset=(orig, 0, h.coq_ops[:j]))

    # ---- the fixed shapes
    for name, ci, ops, expect in fixed_histories(schemas[0]):
        do(0, ci, ops, "fixed:" + name, expect=set(expect))
        ctx.count("reach:fixed_histories")
    # ---- generated histories
    n_hist = 125 if not ctx.thorough else 1500
    for hidx in range(n_hist):
        r = rng.random()
        si = 0 if r < 0.6 else 1 if r < 0.75 else rng.randrange(len(schemas))
        s = schemas[si]
        nest = [ci for ci in range(len(s.classes)) if has_nesting(s, ci)]
        if si == 0:
            ci = 3 if rng.random() < 0.75 else 2
        else:
            ci = rng.choice(nest) if nest and rng.random() < 0.8 else rng.randrange(len(s.classes))
        intent = rng.choice(DIRTY_KINDS) if rng.random() < 0.38 else None
        try:
            ops, injected = gen_history(s, ci, rng, ctx, intent)
        except Exception as e:  # noqa
            ctx.count(f"reach:gen:history_error:{type(e).__name__}")
            continue
        if ops:
            do(si, ci, ops, f"random:{hidx}", intent=injected)
    t1 = time.time()

    # ---- Coq, phase 1: one pair per history against the harness' guess
    def lit_args(h):
        return f"rs{h.si} {h.ci + NBUILTIN}%nat [{'; '.join(h.coq_ops)}] {h.k.lit}"

    guesses = [expected_bits(h, c01) for h in hists]
    pairs = [(f"reach_diff {lit_args(h)} [{'; '.join('1' if b else '0' for b in g)}]", "(CL [])") for h, g in zip(hists, guesses)]
    pairs += [(f"cbool (c01_schema_ok rs{i})", lib.cz(1)) for i in range(len(schemas))]
    bad = lib.coq_compare(ctx, "c01reach", IMPORTS, pairs, chunk=8, prelude=prelude)
    for j in [j for j in bad if j >= len(hists)]:
        ctx.fail("corr", "a schema of the reachability stage does not satisfy c01_schema_ok: the theorems would be vacuous on it", input={"schema": descs[j - len(hists)]})
    bad = [j for j in bad if j < len(hists)]
    t2 = time.time()
    # ---- phase 2: read the components of the histories that differ from the guess
    pairs2, where = [], []
    for j in bad:
        h = hists[j]
        pairs2.append((f"reach_at 0 {lit_args(h)}", f"(cv_of_obj {h.k.lit})"))
        where.append((j, -1))
        for n, b in enumerate(guesses[j]):
            pairs2.append((f"reach_at {n + 1} {lit_args(h)}", lib.cz(1 if b else 0)))
            where.append((j, n))
    differs = {}
    for i in lib.coq_compare(ctx, "c01reach2", IMPORTS, pairs2, chunk=13, prelude=prelude):
        differs.setdefault(where[i][0], set()).add(where[i][1])
    ctx.count("reach:histories_read_back_in_phase_2", len(bad))
    t3 = time.time()
    for j, h in enumerate(hists):
        d = differs.get(j, set())
        s = schemas[h.si]
        inp = {"stage": "reach", "schema": descs[h.si], "class": h.ci, "class_name": s.classes[h.ci].name, "origin": h.origin, "ops": h.ops,
               "repr": h.k.repr0, "real_final_state": h.k.lit[:6000]}
        if j in bad and not d:
            ctx.fail("corr", "reach_diff and reach_at disagree about a history (evaluation helper Model/C01ReachCv.v)", input=inp)
        if -1 in d:
            model = ""
            if len([f for f in ctx.failures if f["kind"] == "corr"]) < 2:
                try:
                    model = lib.coq_eval(ctx, IMPORTS, f"cv_obj_res (run7 ({s.coq()}) (new ({s.coq()}) {h.ci + NBUILTIN}%nat) [{'; '.join(h.coq_ops)}])")[-3000:]
                except Exception:  # noqa
                    pass
            ctx.fail("corr", "model (run7: the operation model the reachability theorems quantify over) and implementation end a history in different states",
                     input=dict(inp, model_final_state=model))
        bits = [(not b) if n in d else b for n, b in enumerate(guesses[j])]
        h.verdict = dict(zip(COMPONENTS, bits))
        for n, name in enumerate(COMPONENTS):
            if n in d and name in KNOWN_EXACT:
                ctx.fail("corr", f"{name} of the state a history ends in evaluates to {bits[n]} in Coq and to {guesses[j][n]} in the harness (on the real object)",
                         input=inp)
        if h.expect is not None:
            got = {cl for cl in CLAUSES if not h.verdict[cl]}
            if got != h.expect or h.verdict["hist_ok"] != (not h.expect):
                ctx.fail("corr", f"a fixed shape gets another verdict than its shape dictates: clauses evaluated false {sorted(got)}, expected {sorted(h.expect)}; "
                                 f"hist_ok = {h.verdict['hist_ok']}", input=dict(inp, coq_verdicts=h.verdict))
        judge(ctx, s, descs[h.si], h, c01)
        # the final state also joins the cases of the main part (codec / predicate / domain correspondences)
        add_case(h.k)
    ctx.cov["disagreements_checked"] += len(pairs) + len(pairs2)
    ctx.notes.append(f"reach stage: {len(hists)} histories; generation + real runs {t1 - t0:.1f}s, coq phase 1 {t2 - t1:.1f}s, phase 2 {t3 - t2:.1f}s "
                     f"({len(bad)} histories read back)")
    return schemas, descs


def replay(ctx, obj, c01):
    inp = obj.get("input") or {}
    s = get_schema(inp["schema"])
    ci = inp["class"]
    print("stage reach; class", s.classes[ci].name, s.describe()[s.classes[ci].name])
    for op in inp["ops"]:
        print("  op", json.dumps(op)[:300])
    try:
        m, parse_used, coq_ops, _ = run_real(s, ci, inp["ops"])
    except Exception as e:  # noqa
        print("the history raises:", type(e).__name__, e)
        return 1
    k = c01.evaluate(s, 0, ci, m, "replay")
    print("final:", k.repr0[:600])
    print("bytes:", k.b.hex() if k.b is not None else None, "| eq", k.eq, k.eq_rev, "| rebytes-identical", k.b2 == k.b, "| error", k.err)
    print("observer problems:", k.problems)
    print("predicates:", dict(zip(c01.PRED_NAMES, k.preds)))
    prelude = f"Definition rs0 : schema := {s.coq()}."
    args = f"rs0 {ci + NBUILTIN}%nat [{'; '.join(coq_ops)}] {k.lit}"
    pairs = [(f"reach_at 0 {args}", f"(cv_of_obj {k.lit})")] + [(f"reach_at {n + 1} {args}", lib.cz(1)) for n in range(len(COMPONENTS))]
    try:
        bad = lib.coq_compare(ctx, "c01reachreplay", IMPORTS, pairs, prelude=prelude)
    except RuntimeError as e:
        print("model could not be evaluated:", str(e)[-500:])
        return 1
    print("model and implementation " + ("END IN DIFFERENT STATES" if 0 in bad else "end in the same state"))
    print("coq verdicts:", {name: (n + 1) not in bad for n, name in enumerate(COMPONENTS)})
    rc = 1 if (0 in bad or k.err is not None or not (k.eq and k.eq_rev) or k.b2 != k.b) else 0
    if not rc:
        print("round trip (==, bytes again) holds on this tree; observer problems listed above")
    return rc
