#!/venv/bin/python
"""T1 for C03: regenerate coq/gen/C03Tables.v from the live plugin and bundled libraries.

(a) the data the plugin's classification is driven by: FieldDescriptorProtoType numbering,
    LABEL_REPEATED, the PROTO_*_TYPES tuples of plugin/models.py, betterproto's TYPE_* constants,
    the `<x>_field` helper functions with the proto_type they record, WRAPPER_TYPES with the Python
    type each wrapper unwraps to;
(b) for both bundled google.protobuf libraries (std and pydantic, incl. .compiler) the
    (class, field name, number, proto type, repeated?, oneof group) table next to the same table
    read from google.protobuf's descriptor_pb2 / plugin_pb2 / well-known-type pb2 DESCRIPTORs, and
    the same for enum members.

Fail-closed: anything unrecognised raises TranslationError, in which case the output file is
replaced by one that does not compile.  Rewritten only when the content changes.
"""
import dataclasses
import importlib
import os
import sys
import typing

REPO = os.environ.get("VERIF_REPO", "/repo")
sys.path.insert(0, os.path.join(REPO, "src"))

OUT = os.path.join(os.path.dirname(os.path.abspath(__file__)), "..", "coq", "gen", "C03Tables.v")


class TranslationError(Exception):
    pass


def coq_bytes(b: bytes) -> str:
    return "[" + "; ".join("x%02x" % c for c in b) + "]"


def s(x: str) -> str:
    return coq_bytes(x.encode("utf-8"))


def z(n: int) -> str:
    return f"({int(n)})%Z"


def lst(items) -> str:
    return "[" + "; ".join(items) + "]"


def lst_nl(items, indent="   ") -> str:
    return "[" + (";\n" + indent).join(items) + "]"


def b(x) -> str:
    return "true" if x else "false"


PYTYPES = {"float": "PyFloat", "int": "PyInt", "bool": "PyBool", "str": "PyStr", "bytes": "PyBytes"}


# ------------------------------------------------------------------------------------------
def plugin_tables(w):
    import betterproto as bp
    from betterproto.lib.google.protobuf import FieldDescriptorProtoLabel, FieldDescriptorProtoType
    from betterproto.plugin import models
    from betterproto.compile import importing

    members = list(FieldDescriptorProtoType.__members__.items())
    if not members:
        raise TranslationError("FieldDescriptorProtoType has no members")
    for n, m in members:
        if m.name != n or not isinstance(m.value, int):
            raise TranslationError(f"unexpected enum member {n!r}")
    w("(* FieldDescriptorProtoType: (number, member name) as the plugin's bundled library defines it *)")
    w("Definition fdp_type_names : list (Z * list byte) :=\n  " +
      lst_nl([f"({z(m.value)}, {s(n)})" for n, m in members]) + ".")
    w(f"Definition TYPE_MESSAGE_NUM : Z := {z(FieldDescriptorProtoType.TYPE_MESSAGE.value)}.")
    w(f"Definition LABEL_REPEATED_NUM : Z := {z(FieldDescriptorProtoLabel.LABEL_REPEATED.value)}.")
    for name in ["PROTO_FLOAT_TYPES", "PROTO_INT_TYPES", "PROTO_BOOL_TYPES", "PROTO_STR_TYPES", "PROTO_BYTES_TYPES",
                 "PROTO_MESSAGE_TYPES", "PROTO_MAP_TYPES", "PROTO_PACKED_TYPES"]:
        tup = getattr(models, name)
        if not isinstance(tup, tuple):
            raise TranslationError(f"{name} is not a tuple")
        w(f"Definition {name} : list Z := {lst(z(int(t)) for t in tup)}.")
    consts = [(n, getattr(bp, n)) for n in sorted(dir(bp)) if n.startswith("TYPE_") and n != "TYPE_CHECKING"]
    for n, v in consts:
        if not isinstance(v, str):
            raise TranslationError(f"betterproto.{n} is not a str")
    w("(* betterproto.TYPE_* constants: attribute name -> value *)")
    w("Definition bp_type_constants : list (list byte * list byte) :=\n  " +
      lst_nl([f"({s(n)}, {s(v)})" for n, v in consts]) + ".")
    # the <x>_field helpers: what proto_type each records (map_field takes key and value types)
    rows = []
    for n in sorted(dir(bp)):
        if not n.endswith("_field") or n.startswith("_") or n in ("dataclass_field",):
            continue
        fn = getattr(bp, n)
        if not callable(fn):
            continue
        try:
            fld = fn(1, bp.TYPE_STRING, bp.TYPE_INT32) if n == "map_field" else fn(1)
            meta = fld.metadata["betterproto"]
        except Exception as e:  # noqa
            raise TranslationError(f"cannot reflect betterproto.{n}: {e!r}")
        if meta.number != 1:
            raise TranslationError(f"betterproto.{n} does not record the number")
        rows.append((n[: -len("_field")], meta.proto_type))
    w("(* betterproto.<x>_field exists and records proto_type *)")
    w("Definition bp_field_proto_type : list (list byte * list byte) :=\n  " +
      lst_nl([f"({s(a)}, {s(v)})" for a, v in rows]) + ".")
    # which helpers accept wraps= / optional= / group=
    import inspect
    accepts = []
    for a, _ in rows:
        params = set(inspect.signature(getattr(bp, a + "_field")).parameters)
        accepts.append(f"({s(a)}, ({b('wraps' in params)}, {b('optional' in params)}, {b('group' in params)}))")
    w("Definition bp_field_accepts : list (list byte * (bool * bool * bool)) :=\n  " + lst_nl(accepts) + ".")
    wr = []
    for tn, cls in importing.WRAPPER_TYPES.items():
        py = type(cls().value).__name__
        if py not in PYTYPES:
            raise TranslationError(f"wrapper {tn} unwraps to unknown Python type {py}")
        wr.append(f"({s(tn)}, {PYTYPES[py]})")
    w("(* compile/importing.py WRAPPER_TYPES: type name -> Python type of the wrapped value *)")
    w("Definition WRAPPER_TYPES : list (list byte * pytype) :=\n  " + lst_nl(wr) + ".")


# ------------------------------------------------------------------------------------------
def hint_repeated(h):
    return typing.get_origin(h) in (list, typing.List)


def bundled_module_rows_live(modname):
    import betterproto as bp

    mod = importlib.import_module(modname)
    msgs, enums = {}, {}
    for name, cls in vars(mod).items():
        if not isinstance(cls, type) or cls.__module__ != mod.__name__:
            continue
        if issubclass(cls, bp.Message):
            hints = cls._type_hints()
            rows = []
            for f in dataclasses.fields(cls):
                meta = f.metadata["betterproto"]
                rows.append((f.name, meta.number, meta.proto_type, hint_repeated(hints[f.name]), meta.group or ""))
            msgs[name] = rows
        elif issubclass(cls, bp.Enum):
            enums[name] = [(n, int(m.value)) for n, m in cls.__members__.items()]
    return msgs, enums


def bundled_module_rows_ast(modname):
    """the same table read statically from the module source (used to cross-check the live reflection and
    as the only source for a bundled module that cannot be imported in this environment)"""
    import ast

    path = os.path.join(REPO, "src", *modname.split("."), "__init__.py")
    tree = ast.parse(open(path).read())
    msgs, enums = {}, {}
    for node in tree.body:
        if not isinstance(node, ast.ClassDef) or not node.bases:
            continue
        base = ast.unparse(node.bases[0])
        if base == "betterproto.Message":
            rows = []
            for st in node.body:
                if not isinstance(st, ast.AnnAssign) or not isinstance(st.value, ast.Call):
                    continue
                call = st.value
                # tolerate a parenthesised call
                fn = ast.unparse(call.func)
                if not (fn.startswith("betterproto.") and fn.endswith("_field")):
                    raise TranslationError(f"{modname}.{node.name}.{st.target.id}: unrecognised field initialiser {fn}")
                ptype = fn[len("betterproto."):-len("_field")]
                number = ast.literal_eval(call.args[0])
                group = ""
                for kw in call.keywords:
                    if kw.arg == "group":
                        group = ast.literal_eval(kw.value)
                ann = ast.unparse(st.annotation)
                rows.append((st.target.id, number, ptype, ann.startswith("List["), group))
            msgs[node.name] = rows
        elif base == "betterproto.Enum":
            mem = []
            for st in node.body:
                if isinstance(st, ast.Assign) and len(st.targets) == 1 and isinstance(st.targets[0], ast.Name):
                    mem.append((st.targets[0].id, ast.literal_eval(st.value)))
            enums[node.name] = mem
    return msgs, enums


NOT_IMPORTABLE = []


def bundled_module_rows(modname):
    a_msgs, a_enums = bundled_module_rows_ast(modname)
    try:
        l_msgs, l_enums = bundled_module_rows_live(modname)
    except Exception as e:  # noqa
        NOT_IMPORTABLE.append((modname, f"{type(e).__name__}: {e}"))
        l_msgs, l_enums = a_msgs, a_enums
    if (l_msgs, l_enums) != (a_msgs, a_enums):
        for k in l_msgs:
            if l_msgs[k] != a_msgs.get(k):
                raise TranslationError(f"{modname}.{k}: live reflection {l_msgs[k]} differs from the source {a_msgs.get(k)}")
        raise TranslationError(f"{modname}: live reflection differs from the source")
    if not l_msgs:
        raise TranslationError(f"{modname} defines no message classes")
    return l_msgs, l_enums


def reference_rows(file_descriptors):
    from google.protobuf import descriptor_pb2

    T = descriptor_pb2.FieldDescriptorProto
    msgs, enums = {}, {}

    def walk_enum(ed, prefix):
        enums[prefix + ed.name] = [(v.name, v.number) for v in ed.values]

    def walk(md, prefix):
        key = prefix + md.name
        rows = []
        for fd in md.fields:
            is_map = (fd.message_type is not None and fd.message_type.GetOptions().map_entry)
            tname = "map" if is_map else T.Type.Name(fd.type)[len("TYPE_"):].lower()
            repeated = bool(fd.is_repeated) and not is_map
            group = fd.containing_oneof.name if fd.containing_oneof is not None else ""
            rows.append((fd.name, fd.number, tname, repeated, group))
        msgs[key] = rows
        for e in md.enum_types:
            walk_enum(e, key)
        for n in md.nested_types:
            if not n.GetOptions().map_entry:
                walk(n, key)

    for fdesc in file_descriptors:
        for md in fdesc.message_types_by_name.values():
            walk(md, "")
        for ed in fdesc.enum_types_by_name.values():
            walk_enum(ed, "")
    return msgs, enums


def row(r):
    return f"({s(r[0])}, {z(r[1])}, {s(r[2])}, {b(r[3])}, {s(r[4])})"


def bundled_tables(w):
    from google.protobuf import (any_pb2, api_pb2, descriptor_pb2, duration_pb2, empty_pb2, field_mask_pb2,
                                 source_context_pb2, struct_pb2, timestamp_pb2, type_pb2, wrappers_pb2)
    from google.protobuf.compiler import plugin_pb2

    ref_pb = [m.DESCRIPTOR for m in (any_pb2, api_pb2, descriptor_pb2, duration_pb2, empty_pb2, field_mask_pb2,
                                      source_context_pb2, struct_pb2, timestamp_pb2, type_pb2, wrappers_pb2)]
    ref_msgs, ref_enums = reference_rows(ref_pb)
    refc_msgs, refc_enums = reference_rows([plugin_pb2.DESCRIPTOR])
    pairs_m, pairs_e = [], []
    for lib, modname, (rm, re_) in [
        ("std", "betterproto.lib.std.google.protobuf", (ref_msgs, ref_enums)),
        ("std.compiler", "betterproto.lib.std.google.protobuf.compiler", (refc_msgs, refc_enums)),
        ("pydantic", "betterproto.lib.pydantic.google.protobuf", (ref_msgs, ref_enums)),
        ("pydantic.compiler", "betterproto.lib.pydantic.google.protobuf.compiler", (refc_msgs, refc_enums)),
    ]:
        bm, be = bundled_module_rows(modname)
        shared = [k for k in bm if k in rm]
        if len(shared) < 3:
            raise TranslationError(f"{modname}: only {len(shared)} classes match the reference descriptors")
        for k in shared:
            pairs_m.append(f"({s(lib)}, {s(k)},\n    {lst(row(r) for r in bm[k])},\n    {lst(row(r) for r in rm[k])})")
        for k in be:
            if k in re_:
                pairs_e.append(f"({s(lib)}, {s(k)},\n    {lst(f'({s(n)}, {z(v)})' for n, v in be[k])},\n"
                               f"    {lst(f'({s(n)}, {z(v)})' for n, v in re_[k])})")
    w("(* (library, class, rows of the bundled class, rows of the reference descriptor);"
      " row = (field name, number, proto type, repeated, oneof group) *)")
    w("Definition brow : Type := (list byte * Z * list byte * bool * list byte)%type.")
    w("Definition bundled_vs_reference : list (list byte * list byte * list brow * list brow) :=\n  " +
      lst_nl(pairs_m) + ".")
    w("Definition bundled_enums_vs_reference : list (list byte * list byte * list (list byte * Z) * list (list byte * Z)) :=\n  " +
      lst_nl(pairs_e) + ".")
    w("(* bundled modules that could not be imported in this environment (their rows were read from the source text) *)")
    w("Definition bundled_not_importable : list (list byte) := " + lst(s(m) for m, _ in NOT_IMPORTABLE) + ".")
    for m, why in NOT_IMPORTABLE:
        w(f"(* {m}: {why.replace('*)', '* )')[:200]} *)")


def generate() -> str:
    out = []
    w = out.append
    w("(* GENERATED by harness/gen_c03.py from the live plugin and bundled libraries. Do not edit. *)")
    w("From BP Require Import Base.Prelude Spec.Descriptor.")
    w("")
    plugin_tables(w)
    w("")
    bundled_tables(w)
    w("")
    return "\n".join(out) + "\n"


def main():
    try:
        text = generate()
    except Exception as e:  # noqa  fail closed: leave a file that cannot compile
        text = f"(* harness/gen_c03.py failed: {type(e).__name__} *)\nDefinition C03Tables_generation_failed : False := I.\n"
        print(f"TRANSLATION-ERROR (C03): {e!r}")
    os.makedirs(os.path.dirname(OUT), exist_ok=True)
    old = None
    if os.path.exists(OUT):
        with open(OUT) as f:
            old = f.read()
    if old != text:
        with open(OUT + ".tmp", "w") as f:
            f.write(text)
        os.replace(OUT + ".tmp", OUT)
        print("C03Tables.v regenerated")
    else:
        print("C03Tables.v unchanged")


if __name__ == "__main__":
    main()
