"""Generator of small gRPC service definitions (.proto text) for C11.

A *bundle* is one protoc/plugin run: several services, each in its own package and file, plus the
files of the packages their request/response types come from.  Everything random is drawn from the
rng given by the caller.  The generator knows, independently of the plugin, which Python module and
class every message type must end up in (module = root package + proto package, class = the simple
names used here need no re-casing), and what the canonical gRPC route of every method is.
"""
import dataclasses
from typing import Dict, List, Optional, Tuple

GOOGLE = {
    ".google.protobuf.Empty": "google/protobuf/empty.proto",
    ".google.protobuf.StringValue": "google/protobuf/wrappers.proto",
    ".google.protobuf.Int64Value": "google/protobuf/wrappers.proto",
    ".google.protobuf.BoolValue": "google/protobuf/wrappers.proto",
    ".google.protobuf.Timestamp": "google/protobuf/timestamp.proto",
    ".google.protobuf.Duration": "google/protobuf/duration.proto",
}

# proto method names; several need re-casing to become Python names, some become keywords
METHOD_NAMES = ["GetFOOBar", "get_thing", "Echo", "listHTTPItems", "X", "Do2Things", "UPPER", "mixed_Case",
                "StreamAll", "ping", "A1B2", "fetchURL", "Watch", "PutObject", "delete_item_v2", "Import",
                "Class", "GetFoo", "FOOBar", "Get_Item", "subscribeToALL", "Z9"]
# pairs of distinct proto names the plugin maps to the same Python name (finding K8)
COLLIDING = [("GetFoo", "get_foo"), ("FOOBar", "FooBar"), ("getFoo", "Get_Foo"), ("PutObject", "put_object")]
SERVICE_NAMES = ["Svc", "HTTPGateway", "my_service", "Svc2", "Greeter", "dataAPI"]
# stub instance attributes a method of that Python name would be shadowed by (not generated here)
RESERVED_PY = {"timeout", "deadline", "metadata", "channel"}

LOCAL_MESSAGES = """message Req { int32 a = 1; string s = 2; }
message Resp { int64 n = 1; repeated string tags = 2; }
message Outer { message Inner { bool flag = 1; bytes blob = 2; } Inner inner = 1; }
"""

SAMPLES = {
    "Req": [{}, {"a": 1}, {"a": -7, "s": "x"}, {"s": "héllo €"}, {"a": 2 ** 31 - 1, "s": "long " * 40}],
    "Resp": [{}, {"n": 5}, {"n": -(2 ** 62), "tags": ["a", "", "b"]}, {"tags": ["\U0001f600"]}],
    "OuterInner": [{}, {"flag": True}, {"blob": b"\x00\xff\x80"}, {"flag": True, "blob": b"q" * 70}],
    "Ext": [{}, {"z": -3}, {"z": 99, "label": "ext"}, {"label": "l"}],
    "Shared": [{}, {"blob": b"\x01"}, {"k": 4000000000}, {"blob": b"abc", "k": 1}],
    "Empty": [{}],
    "StringValue": [{}, {"value": "v"}, {"value": "üß"}],
    "Int64Value": [{}, {"value": -5}, {"value": 2 ** 40}],
    "BoolValue": [{}, {"value": True}],
    "Timestamp": [{}, {"seconds": 1700000000, "nanos": 123456789}, {"seconds": -1, "nanos": 5}],
    "Duration": [{}, {"seconds": -3, "nanos": -500}, {"seconds": 86400}],
}


@dataclasses.dataclass
class Meth:
    name: str
    cs: bool
    ss: bool
    in_t: str   # proto full name with leading dot
    out_t: str


@dataclasses.dataclass
class Svc:
    index: int
    pkg: str                 # "" = no package
    name: str
    file: str
    methods: List[Meth]
    collision: bool = False

    def canonical_route(self, m: Meth) -> str:
        """the path the gRPC specification assigns: /<package>.<Service>/<Method>"""
        return "/" + (self.pkg + "." if self.pkg else "") + self.name + "/" + m.name


@dataclasses.dataclass
class Bundle:
    root: str
    files: Dict[str, str]
    services: List[Svc]
    types: Dict[str, Tuple[Optional[str], str]]   # full name -> (proto package or None for google, class name)


def _pkg_shapes(k: int):
    return [f"p{k}", f"p{k}.sub", f"p{k}x.mid.deep", f"q{k}.v1"]


def _related_pkg(rng, pkg: str, k: int) -> str:
    opts = ["c11dep.v1"]
    if pkg:
        opts.append(pkg + ".child")
        if "." in pkg:
            parent = pkg.rsplit(".", 1)[0]
            opts += [parent, parent + ".sib"]
    else:
        opts.append(f"nopkgdep{k}")
    return rng.choice(opts)


def make_bundle(rng, root: str, n_services: int, pyname, *, with_nopkg: bool, collision_at=(), full_matrix_at=()) -> Bundle:
    """pyname: the live pythonize_method_name (only used to keep names distinct unless a collision is wanted)."""
    files: Dict[str, str] = {}
    types: Dict[str, Tuple[Optional[str], str]] = {g: (None, g.rsplit(".", 1)[1]) for g in GOOGLE}
    files["c11dep/shared.proto"] = 'syntax = "proto3";\npackage c11dep.v1;\nmessage Shared { bytes blob = 1; uint32 k = 2; }\n'
    types[".c11dep.v1.Shared"] = ("c11dep.v1", "Shared")
    ext_pkgs: Dict[str, List[str]] = {}
    services = []
    for k in range(n_services):
        pkg = "" if (with_nopkg and k == 0) else rng.choice(_pkg_shapes(k))
        dot = "." + pkg if pkg else ""
        local = {f"{dot}.Req": "Req", f"{dot}.Resp": "Resp", f"{dot}.Outer.Inner": "OuterInner"}
        for fn, cn in local.items():
            types[fn] = (pkg, cn)
        rel = _related_pkg(rng, pkg, k)
        ext_name = f"Ext{k}"
        if rel != "c11dep.v1":
            ext_pkgs.setdefault(rel, []).append(ext_name)
            ext_full = f".{rel}.{ext_name}"
            types[ext_full] = (rel, ext_name)
        else:
            ext_full = ".c11dep.v1.Shared"
        pool = list(local) + [ext_full, ".c11dep.v1.Shared"] + list(GOOGLE)
        weights = [4, 4, 2, 3, 2] + [1] * len(GOOGLE)
        sname = rng.choice(SERVICE_NAMES)
        # ---- methods
        if k in collision_at:
            a, b = rng.choice(COLLIDING)
            names = [a, b]
            extra = [n for n in METHOD_NAMES if pyname(n) != pyname(a)]
            rng.shuffle(extra)
            for n in extra[: rng.randint(0, 2)]:
                if pyname(n) not in {pyname(x) for x in names} | RESERVED_PY:
                    names.insert(rng.randint(0, len(names)), n)
        else:
            want = 4 if k in full_matrix_at else rng.randint(1, 5)
            cand = METHOD_NAMES[:]
            rng.shuffle(cand)
            names, seen = [], set()
            for n in cand:
                p = pyname(n)
                if p in seen or p in RESERVED_PY:
                    continue
                seen.add(p)
                names.append(n)
                if len(names) == want:
                    break
        methods = []
        for i, n in enumerate(names):
            if k in full_matrix_at:
                cs, ss = bool(i & 2), bool(i & 1)
            else:
                cs, ss = rng.random() < 0.5, rng.random() < 0.5
            in_t = rng.choices(pool, weights)[0]
            out_t = rng.choices(pool, weights)[0]
            methods.append(Meth(n, cs, ss, in_t, out_t))
        if k in collision_at:
            # make the two colliding methods differ in something observable
            i0, i1 = [i for i, m in enumerate(methods) if m.name in (a, b)][:2]
            m0, m1 = methods[i0], methods[i1]
            how = rng.choice(["card", "types", "both"])
            if how in ("card", "both"):
                m1.ss = not m0.ss
                m1.cs = m0.cs if rng.random() < 0.6 else not m0.cs
            else:
                m1.cs, m1.ss = m0.cs, m0.ss
            if how in ("types", "both") or (m0.cs, m0.ss, m0.in_t, m0.out_t) == (m1.cs, m1.ss, m1.in_t, m1.out_t):
                m1.out_t = next(t for t in pool if t != m0.out_t)
        # ---- file text
        imports = {"c11dep/shared.proto"}
        for m in methods:
            for t in (m.in_t, m.out_t):
                if t in GOOGLE:
                    imports.add(GOOGLE[t])
        if rel != "c11dep.v1":
            imports.add(f"c11ext/{rel.replace('.', '_')}.proto")
        fname = f"svc{k}.proto"
        text = 'syntax = "proto3";\n' + (f"package {pkg};\n" if pkg else "")
        text += "".join(f'import "{i}";\n' for i in sorted(imports))
        text += LOCAL_MESSAGES
        # the well-known types this file's RPCs take or return are ALSO used as message fields of the same package (where the plugin
        # unwraps them to datetime / timedelta / Optional[...]): the RPC types must still be the message classes (seeded C11-10)
        wk = sorted({t for m in methods for t in (m.in_t, m.out_t) if t in GOOGLE})
        if wk:
            text += "message WkHolder { " + " ".join(f"{t[1:]} w{j} = {j + 1};" for j, t in enumerate(wk)) + " }\n"
        text += f"service {sname} {{\n"
        for m in methods:
            text += (f"  rpc {m.name} ({'stream ' if m.cs else ''}{m.in_t}) "
                     f"returns ({'stream ' if m.ss else ''}{m.out_t});\n")
        text += "}\n"
        files[fname] = text
        services.append(Svc(k, pkg, sname, fname, methods, collision=k in collision_at))
    for rel, names in ext_pkgs.items():
        files[f"c11ext/{rel.replace('.', '_')}.proto"] = (
            f'syntax = "proto3";\npackage {rel};\n' + "".join(f"message {n} {{ sint32 z = 1; string label = 2; }}\n" for n in names))
    return Bundle(root, files, services, types)


def sample_kwargs(class_name: str):
    key = "Ext" if class_name.startswith("Ext") else class_name
    return SAMPLES[key]
