"""C12 — AsyncChannel under all schedules: trace refinement between the real class driven by the
controlled event loop (harness/c12_steploop.py) and the Gallina transition system
(coq/Model/Channel.v), plus the property's clauses evaluated on every real run at quiescence."""
import importlib
import json
import os
import time

from .. import lib
from .. import c12_steploop as sl

IMPORTS = "Model.Channel"
FUEL = "400%nat"

TRUSTED = [
    "Coq 8.16.1 kernel and vm_compute; full .vo build via coq_makefile",
    "axioms: none (every theorem of Properties/C12.v is 'Closed under the global context')",
    "hand-written model coq/Model/Channel.v (AsyncChannel + the asyncio.Queue/Task.cancel semantics of CPython 3.12 it relies on) "
    "tied to /repo and to CPython's asyncio by trace refinement: the real AsyncChannel/asyncio.Queue/_PyTask/_PyFuture run under "
    "harness/c12_steploop.py (one ready handle per iteration, explicit schedule) and every post-step state is compared with the model "
    "evaluated by vm_compute inside Coq on the same schedule",
    "harness/c12_steploop.py itself (a BaseEventLoop drained by hand; virtual time; pure-Python Task/Future instead of the C ones)",
    "asyncio is modelled, not verified: the event loop, Task.__step/__wakeup, Future callbacks and timeouts.timeout are observed, not proved",
    "the oracle (property clauses on the real run) in this file",
]
ASSUMPTIONS = [
    "asyncio is cooperative: a task runs without interleaving between two suspension points (the model's atomic segments)",
    "the theorems quantify over a finer interleaving than the real ready queue allows (a switch at every operation boundary)",
    "items are distinct objects (the harness sends (sender, index) tuples)",
    "theorems about delivery are stated for the repaired receive/__anext__ (fixes/c12-task-done.patch, F10); the pinned variant is "
    "modelled by the flag `pinned` and refuted",
]
RULE = ("configurations: 1-2 senders x 1-3 items (send / send_from / yields between), 1-3 receivers (receive() once, receive-loop, "
        "async-for, the _send_messages consumer), close() by a sender, by send_from(close=True) or by a separate task at any point, "
        "buffer_limit in {0,1,2}, optional late sender, optional cancel() of a receiver/sender or wait_for timer; schedules: seeded random "
        "walks to quiescence plus exhaustive exploration (state-deduplicated DFS over the real implementation) of small configurations; "
        "non-trivial = at least one item was received and the channel was closed; distinct = distinct (configuration, schedule)")


# ------------------------------------------------------------------------------ Gallina printers
def op_coq(op):
    k = op[0]
    if k == "send":
        return "USend"
    if k == "send_from":
        return f"USendFrom {op[1]}%nat {lib.coq_bool(op[2])}"
    if k == "recv":
        return "URecv"
    if k == "recvloop":
        return "URecvLoop"
    if k == "iter":
        return f"UIter {lib.coq_bool(op[1])}"
    if k == "consumer":
        return "UIter true"
    if k == "close":
        return "UClose"
    if k == "cancel":
        return f"UCancel {op[1]}%nat"
    if k == "yield":
        return "UYield"
    raise ValueError(op)


def cfg_coq(cfg, pinned):
    progs = "; ".join("([" + "; ".join(op_coq(o) for o in p["ops"]) + "], " + lib.coq_bool(bool(p.get("tmo"))) + ")"
                      for p in cfg["progs"])
    return f"(mkC {cfg['maxsize']}%nat {lib.coq_bool(pinned)} [{progs}])"


def item_cv(x):
    return lib.CN if x is None else lib.cl([lib.cz(x[0]), lib.cz(x[1])])


def snap_cv(s):
    w = lambda l: lib.cl([lib.cl([lib.cz(u), lib.cbool(d)]) for u, d in l])
    return lib.cl([
        lib.cl([item_cv(x) for x in s["q"]]), lib.cbool(s["closed"]), lib.cbool(s["flushed"]), lib.cz(s["W"]), lib.cz(s["unfin"]),
        w(s["getters"]), w(s["putters"]),
        lib.cl([lib.cl([lib.cz(c), lib.cbool(m)]) for c, m in s["tasks"]]),
        lib.cl([lib.cl([lib.cz(t), item_cv(x)]) for t, x in s["recv"]]),
        lib.cl([item_cv(x) for x in s["sent"]]), lib.cz(s["npre"]), lib.cbool(s["drained"]),
    ])


def sched_coq(sched):
    return "[" + "; ".join(str(t) for t in sched) + "]%nat"


# ------------------------------------------------------------------------------ the implementation under test
def load_impl():
    ac = importlib.import_module("betterproto.grpc.util.async_channel")
    gc = importlib.import_module("betterproto.grpc.grpclib_client")
    return ac, gc.ServiceStub


F10_WITNESS = ({"maxsize": 0, "progs": [{"ops": [("recv",)]}, {"ops": [("cancel", 0)]}]}, [0, 1, 0])
# F10, second face: the cancelled get() steals a task_done; the next receiver dequeues the item and loses it to ValueError
F10_LOSS = ({"maxsize": 0, "progs": [{"ops": [("recv",)]}, {"ops": [("cancel", 0)]}, {"ops": [("send",), ("send",), ("close",)]},
                                     {"ops": [("recvloop",)]}]}, [0, 1, 2, 0, 3, 4])
# K6: receiver 1 blocks; it is cancelled but has not resumed; the sender's item wakes nobody; close; receiver 3 sees done() and leaves
K6_WITNESS = ({"maxsize": 0, "progs": [{"ops": [("send",), ("close",)]}, {"ops": [("recvloop",)]}, {"ops": [("cancel", 1)]},
                                       {"ops": [("recvloop",)]}]}, [1, 2, 0, 3, 1, 4])


WHAT = {
    "F10-task-done-on-cancelled-get": "cancelling / timing out a receiver blocked in get() surfaces as ValueError('task_done() called too many "
                                      "times') or makes a later receiver lose an item (task_done() runs in `finally` although get() was cancelled)",
    "K6-cancel-overcount": "an item sent before close() is never received: a cancelled receiver was still counted in _waiting_receivers",
    "stranded-item": "an item sent before close() is never received although a receiver observed the channel as done (no cancellation involved)",
    "blocked-receiver": "a receiver is still blocked in get() after close() when nothing can run any more",
    "lost-item": "an item was dequeued but neither delivered nor left in the queue",
    "duplicate": "an item was received twice",
    "invented": "an item was received that was never sent",
    "order": "items of one sender were received out of order / the global receive order is not the send order",
    "send-after-close": "a send/send_from that started after close() did not raise ChannelClosed",
    "cancel-outcome": "a cancelled task did not end with CancelledError/TimeoutError",
    "foreign-exception": "a task ended with an unexpected exception",
    "harness": "the stepping loop met a handle or exception it does not know",
}


def has_cancel(cfg):
    return any(o[0] == "cancel" for p in cfg["progs"] for o in p["ops"])


def oracle(cfg, run, mod):
    """the clauses of C12 on one real run (at quiescence). Returns [(cls, what)]"""
    out = []
    fin = run.final
    canc = has_cancel(cfg)
    quiescent = not run.final_ready
    sent = [x for x in fin["sent"]]
    recv_items = [x for _, x in fin["recv"]]
    if None in recv_items:
        out.append(("invented", f"the close sentinel was delivered to a receiver as an item: {fin['recv']}"))
        recv_items = [x for x in recv_items if x is not None]
    inq = [x for x in fin["q"] if x is not None]
    codes = [c for c, _ in fin["tasks"]]
    if run.unexpected:
        out.append(("harness", f"unexpected handle or exception: {run.unexpected[:3]}"))
    # ValueError out of receive()/__anext__ (F10)
    if sl.OUT_VALUE in codes or sl.OUT_OTHER in codes:
        out.append(("F10-task-done-on-cancelled-get" if canc else "foreign-exception",
                    f"task outcomes {codes}: a task ended with ValueError/unexpected exception"))
    # exactly once, nothing invented, global FIFO: sent = received ++ still queued
    if len(set(recv_items)) != len(recv_items):
        out.append(("duplicate", f"an item was received twice: {fin['recv']}"))
    if [x for x in recv_items if x not in sent]:
        out.append(("invented", f"received an item that was never sent: {fin['recv']}"))
    if sent != recv_items + inq:
        lost = [x for x in sent if x not in recv_items and x not in inq]
        if lost:
            out.append(("F10-task-done-on-cancelled-get" if canc else "lost-item",
                        f"items {lost} were dequeued but neither received nor left in the queue"))
        else:
            out.append(("order", f"receive order {recv_items} + queue {inq} is not the send order {sent}"))
    for sender in {x[0] for x in sent}:
        ks = [x[1] for x in recv_items if x[0] == sender]
        if ks != list(range(len(ks))):
            out.append(("order", f"items of sender {sender} received in order {ks}"))
    # later sends raise ChannelClosed
    if run.bad_send_after_close:
        out.append(("send-after-close", f"send/send_from started after close() was accepted: {run.bad_send_after_close}"))
    # cancellation surfaces as cancellation / timeout
    for u in run.cancel_targets:
        c = codes[u] if u < len(codes) else None
        is_tmo = u < len(cfg["progs"]) and bool(cfg["progs"][u].get("tmo"))
        ok = c in ((sl.OUT_TIMEOUT, sl.OUT_CANCELLED) if is_tmo else (sl.OUT_CANCELLED,))
        if quiescent and not ok:
            out.append(("F10-task-done-on-cancelled-get" if c == sl.OUT_VALUE else "cancel-outcome",
                        f"task {u} was cancelled while unfinished and ended with outcome code {c}"))
    if quiescent and fin["closed"]:
        # no receiver stays blocked once the channel is closed
        blocked = [i for i, c in enumerate(codes) if c == 1]
        if blocked:
            out.append(("blocked-receiver", f"receivers {blocked} are still blocked in get() at quiescence after close()"))
        # every item whose send completed before close() was received (some receiver kept going until it saw the end)
        if fin["drained"]:
            pre = sent[: fin["npre"]]
            missing = [x for x in pre if x not in recv_items]
            if missing:
                out.append(("K6-cancel-overcount" if canc else "stranded-item",
                            f"items {missing} were sent before close() and never received although a receiver saw the channel as done"))
    return out


# ------------------------------------------------------------------------------ configurations
def gen_config(rng, allow_cancel=True):
    progs = []
    nsend = rng.choice([1, 1, 2])
    closer_kind = rng.choice(["sender", "send_from", "task", "task", "none"])
    for si in range(nsend):
        n = rng.randint(1, 3)
        ops = []
        left = n
        while left:
            if rng.random() < 0.35 and left >= 1:
                m = rng.randint(1, left)
                cl = closer_kind == "send_from" and si == 0 and m == left
                ops.append(("send_from", m, cl))
                left -= m
            else:
                ops.append(("send",))
                left -= 1
            if left and rng.random() < 0.6:
                ops.append(("yield",))
        if closer_kind == "sender" and si == 0:
            pos = rng.randint(0, len(ops))
            ops.insert(pos, ("close",))
        progs.append({"ops": ops})
    if closer_kind == "task":
        progs.append({"ops": [("yield",)] * rng.randint(0, 3) + [("close",)] + ([("close",)] if rng.random() < 0.15 else [])})
    nrecv = rng.choice([1, 2, 2, 3])
    recv_ids = []
    for _ in range(nrecv):
        k = rng.choice(["recvloop", "recvloop", "iter", "iter", "itery", "consumer", "recv1", "recv2"])
        ops = {"recvloop": [("recvloop",)], "iter": [("iter", False)], "itery": [("iter", True)], "consumer": [("consumer",)],
               "recv1": [("recv",)], "recv2": [("recv",), ("recv",)]}[k]
        if rng.random() < 0.2:
            ops = [("yield",)] + ops
        recv_ids.append(len(progs))
        progs.append({"ops": list(ops)})
    if rng.random() < 0.3:
        progs.append({"ops": [("yield",)] * rng.randint(0, 2) + [rng.choice([("send",), ("send_from", 2, False)])]})
    if allow_cancel and rng.random() < 0.45:
        r = rng.random()
        if r < 0.55:
            tgt = rng.choice(recv_ids)
            progs.append({"ops": [("yield",)] * rng.randint(0, 2) + [("cancel", tgt)]})
        elif r < 0.85:
            tgt = rng.choice(recv_ids)
            progs[tgt]["tmo"] = True
            progs.append({"ops": [("cancel", tgt)], "timer": True})
        else:
            progs.append({"ops": [("yield",)] * rng.randint(0, 2) + [("cancel", rng.randrange(nsend))]})
    return {"maxsize": rng.choice([0, 0, 1, 2]), "progs": progs}


def small_configs():
    """configurations explored exhaustively over schedules"""
    S = lambda *ops: {"ops": list(ops)}
    out = []
    for mx in (0, 1):
        for rk in (("recvloop",), ("iter", False)):
            out.append({"maxsize": mx, "progs": [S(("send",), ("yield",), ("send",), ("close",)), S(rk), S(rk)]})
            out.append({"maxsize": mx, "progs": [S(("send_from", 2, True)), S(rk), S(("recv",))]})
            out.append({"maxsize": mx, "progs": [S(("send",)), S(("send",)), S(("yield",), ("close",)), S(rk), S(rk)]})
            out.append({"maxsize": mx, "progs": [S(("send",), ("close",)), S(rk), S(("cancel", 1)), S(rk)]})
    out.append({"maxsize": 0, "progs": [S(("send",), ("send",), ("close",)), {"ops": [("recvloop",)], "tmo": True},
                                          {"ops": [("cancel", 1)], "timer": True}, S(("iter", True))]})
    out.append({"maxsize": 1, "progs": [S(("send_from", 3, False)), S(("close",)), S(("consumer",)), S(("cancel", 0))]})
    out.append({"maxsize": 2, "progs": [S(("send_from", 2, False), ("close",)), S(("recvloop",)), S(("recvloop",)), S(("recvloop",)),
                                          S(("yield",), ("send",))]})
    return out


def explore(cfg, mod, stub, max_states, max_depth, deadline, info=None):
    """state-deduplicated DFS over all schedules of the real implementation. Yields (schedule, run, last_snapshot)."""
    seen = set()
    stack = [[]]
    while stack and len(seen) < max_states and time.time() < deadline:
        prefix = stack.pop()
        run, _, _ = sl.replay(cfg, prefix, mod, stub)
        for c in sorted(set(run.final_ready)):
            sch = prefix + [c]
            r2, _, snaps = sl.replay(cfg, sch, mod, stub)
            key = repr((snaps[-1], sorted(r2.pos.items()), sorted(r2.final_ready)))
            yield sch, r2, snaps[-1]
            if key not in seen:
                seen.add(key)
                if len(sch) < max_depth:
                    stack.append(sch)
                elif info is not None:
                    info["truncated"] = True
    if info is not None:
        info["complete"] = not stack and not info.get("truncated")
        info["states"] = len(seen)


# ------------------------------------------------------------------------------ the check
def detect_variant(mod, stub):
    run, _, _ = sl.replay(F10_WITNESS[0], F10_WITNESS[1], mod, stub)
    return run.final["tasks"][0][0] == sl.OUT_VALUE


def run(ctx):
    mod, stub = load_impl()
    rng = ctx.rng
    pinned = detect_variant(mod, stub)
    ctx.notes.append("tree variant: " + ("pinned (task_done inside finally: F10 present)" if pinned else "repaired (F10 fixed)"))
    pairs, descr = [], []
    nruns = 0

    def record_fail(cfg, sch, verdicts):
        for cls, what in verdicts:
            ctx.fail("oracle", WHAT.get(cls, cls), cls=cls, input={"config": cfg, "schedule": sch}, detail=what)

    def note_run(cfg, sch, r):
        nonlocal nruns
        nruns += 1
        ctx.count("runs")
        ctx.count(f"maxsize={cfg['maxsize']}")
        ctx.count("with_cancel" if has_cancel(cfg) else "no_cancel")
        ctx.count("quiescent_closed" if (not r.final_ready and r.final["closed"]) else "other_end")
        if r.final["recv"] and r.final["closed"]:
            ctx.seen_nontrivial(repr((cfg, sch)))

    # 1. regression witnesses first
    for name, (cfg, sch) in (("F10", F10_WITNESS), ("F10-loss", F10_LOSS), ("K6", K6_WITNESS)):
        try:
            r, s2, snaps = sl.replay(cfg, sch, mod, stub)
        except sl.Infeasible as e:
            ctx.fail("corr", f"regression schedule {name} is not executable on this tree: {e}", input={"config": cfg, "schedule": sch},
                     theorem_or_correspondence="trace refinement Model/Channel.v <-> AsyncChannel")
            continue
        note_run(cfg, sch, r)
        record_fail(cfg, sch, oracle(cfg, r, mod))
        pairs.append((f"trace_cv {FUEL} {cfg_coq(cfg, pinned)} {sched_coq(s2)}", lib.cl([snap_cv(s) for s in snaps])))
        descr.append({"config": cfg, "schedule": s2, "kind": "witness " + name})
    for fn in sorted(os.listdir(os.path.join(lib.VERIF, "corpus"))) if os.path.isdir(os.path.join(lib.VERIF, "corpus")) else []:
        if fn.startswith("C12") and fn.endswith(".json"):
            for obj in json.load(open(os.path.join(lib.VERIF, "corpus", fn))):
                cfg, sch = fix_cfg(obj["config"]), obj["schedule"]
                try:
                    r, s2, snaps = sl.replay(cfg, sch, mod, stub)
                except sl.Infeasible:
                    continue
                note_run(cfg, sch, r)
                record_fail(cfg, sch, oracle(cfg, r, mod))
                pairs.append((f"trace_cv {FUEL} {cfg_coq(cfg, pinned)} {sched_coq(s2)}", lib.cl([snap_cv(s) for s in snaps])))
                descr.append({"config": cfg, "schedule": s2, "kind": "corpus " + fn})

    # 2. seeded random walks to quiescence
    nconf = 170 if not ctx.thorough else 1000
    per = 5 if not ctx.thorough else 8
    for _ in range(nconf):
        cfg = gen_config(rng)
        for _ in range(per):
            r, sch, snaps = sl.execute(cfg, lambda rd, run_: rng.choice(rd), mod, stub)
            note_run(cfg, sch, r)
            record_fail(cfg, sch, oracle(cfg, r, mod))
            pairs.append((f"trace_cv {FUEL} {cfg_coq(cfg, pinned)} {sched_coq(sch)}", lib.cl([snap_cv(s) for s in snaps])))
            descr.append({"config": cfg, "schedule": sch, "kind": "random walk"})
            ctx.count(f"len~{min(len(sch) // 5 * 5, 40)}")
    ctx.sample({"config": descr[-1]["config"], "schedule": descr[-1]["schedule"]})

    # 3. exhaustive exploration of small configurations
    t_end = time.time() + (12 if not ctx.thorough else 300)
    max_edges = 3000 if not ctx.thorough else 220000
    complete = []
    confs = small_configs()
    if ctx.thorough:
        confs += [gen_config(rng) for _ in range(80)]
    nedges = 0
    for ci, cfg in enumerate(confs):
        share = time.time() + max(2.0, (t_end - time.time()) / max(1, len(confs) - ci))
        nconf_edges = 0
        info = {}
        for sch, r, last in explore(cfg, mod, stub, 2500 if not ctx.thorough else 60000, 40, min(share, t_end), info):
            nedges += 1
            nconf_edges += 1
            if nconf_edges > max_edges // len(confs):
                info["truncated"] = True
                break
            note_run(cfg, sch, r)
            if not r.final_ready:
                record_fail(cfg, sch, oracle(cfg, r, mod))
            pairs.append((f"csnap (run_final {FUEL} (init {cfg_coq(cfg, pinned)}) {sched_coq(sch)})", snap_cv(last)))
            descr.append({"config": cfg, "schedule": sch, "kind": "exhaustive edge"})
        if info.get("complete") and not info.get("truncated"):
            complete.append({"config": cfg, "states": info.get("states")})
    ctx.count("exhaustive_edges", nedges)
    ctx.count("configs_with_every_schedule_explored", len(complete))
    ctx.cov["fully_explored_configs"] = complete[:40]
    ctx.cov["evaluations"] += nruns

    # 4. model vs implementation, inside Coq
    bad = lib.coq_compare(ctx, "c12", IMPORTS, pairs, chunk=150)
    ctx.cov["disagreements_checked"] += len(pairs)
    for i in bad[:10]:
        d = descr[i]
        model_val = lib.coq_eval(ctx, IMPORTS, pairs[i][0])
        ctx.fail("corr", "model and implementation disagree on a trace", input=d, case_kind=d["kind"],
                 expected_model=model_val[-1500:], observed_impl=pairs[i][1][-1500:],
                 theorem_or_correspondence="trace refinement Model/Channel.v <-> AsyncChannel under the stepping loop")
    if bad and not [f for f in ctx.failures if f["kind"] == "oracle" and f.get("cls") not in known_classes()]:
        ctx.fail("corr", "the model no longer describes AsyncChannel and the search found no schedule violating the property itself",
                 no_input=True, theorem_or_correspondence="trace refinement Model/Channel.v <-> AsyncChannel", first=descr[bad[0]])


def known_classes():
    return {k["cls"] for k in lib.load_known("C12") if k["status"] == "open"}


def fix_cfg(cfg):
    """JSON turns tuples into lists"""
    return {"maxsize": cfg["maxsize"],
            "progs": [dict(p, ops=[tuple(o) for o in p["ops"]]) for p in cfg["progs"]]}


def finish(ctx):
    return lib.finish(
        ctx, "proof",
        "Coq theorems over a Gallina transition system mirroring AsyncChannel + asyncio.Queue/Task.cancel (inductive invariants over "
        "Reach, any configuration, any schedule) + trace refinement against the real class under a controlled event loop",
        ASSUMPTIONS, TRUSTED, RULE,
        extra_cov={"exhaustive": False,
                   "explanation": "theorems are unbounded (any number of tasks, items, any schedule of the finer interleaving); the tie to "
                                  "the implementation is sampled/exhaustive over small configurations only"})


def replay(ctx, obj):
    mod, stub = load_impl()
    inp = obj.get("input", obj)
    cfg, sch = fix_cfg(inp["config"]), inp["schedule"]
    try:
        r, s2, snaps = sl.replay(cfg, sch, mod, stub)
    except sl.Infeasible as e:
        print("schedule not executable on this tree:", e)
        return 1
    for t, s in zip(s2, snaps):
        print("step task", t, "->", s)
    v = oracle(cfg, r, mod)
    for cls, what in v:
        print("FAILS", cls, what)
    return 1 if v else 0
