"""C08 — unknown fields survive decode/encode; schema evolution is lossless:
correspondence (T2), oracle on the implementation, reference view (T3)."""
import copy
import json
import math
import os

from .. import lib, msggen, wiregen
from ..lib import cb, cl, ce

IMPORTS = ("Model.Types Model.Varint Model.Object Model.Eq Model.Encode Model.Decode Model.Canon Model.C08Step "
           "gen.Tables")
EXTRA_TARGETS = ["Model/Canon.vo", "Model/C08Step.vo"]
NB = msggen.NBUILTIN

TRUSTED = [
    "Coq 8.16.1 kernel and vm_compute (no native_compute); full .vo build via coq_makefile; axioms: none (all 42 theorems of Properties/C08.v "
    "are 'Closed under the global context')",
    "hand-written model coq/Model/{Object,Eq,Float,Utf8,TimeCore,Encode,Decode}.v (shared codec model) and coq/Model/C08Step.v "
    "(load taken apart into step / decode_value / store / loopV — proved equal to Decode.load by conversion, Proofs/C08StepP.v load_unfold —, "
    "the record grammar `records` over the model's frame reader, `drop_fields`, the decidable side condition `split_free`), "
    "tied to /repo by executable correspondence (this harness): parse / enc_obj / parse_into of the OLDER schema, which the model computes with "
    "drop_fields from the newer schema literal, are evaluated by vm_compute on the same byte strings the real older classes (built through the "
    "public field API from the reduced field lists) parsed; unknown_raw / known_raw / split_free / the number of records are evaluated in Coq and "
    "compared with the independent record reader of this file",
    "coq/Spec/C08Wire.v + Spec/Varint.v: the wire-format record grammar written without any decoder function; Proofs/C08WireP.v proves that the "
    "model's `records` accepts everything that grammar generates (same numbers, wire types, byte extents)",
    "translator harness/gen_tables.py (type tables, wire-type tables, _pack_fmt, wrapper and Timestamp/Duration layouts reflected into coq/gen/Tables.v)",
    "Python side: harness/msggen.py (schemas through the public field API, value generators, raw-state snapshots), harness/wiregen.py "
    "(independent record reader/writer) and the record-span reader / fits() table of this file (the oracle's definition of 'unknown record')",
    "float32 rounding (Model/Float.v d2f/f2d) is validated by correspondence, not proved",
    "reference: google.protobuf (upb) FromString on the original and on the re-emitted bytes (T3), flat classes only",
]
ASSUMPTIONS = [
    "Python int is Z; str is its UTF-8 bytes (no lone surrogates); float is its binary64 pattern; aware datetimes are microseconds since the epoch; "
    "object identity is not modelled (values are trees); CPython's recursion limit is not modelled",
    "C08_evolution (the headline) is UNCONDITIONAL up to decidable side conditions evaluated on every generated case: c01_schema_ok sn and "
    "c01_value_ok sn m (C01's own hypotheses: well-formed schema with the bundled classes in place; in-range value whose unselected oneof members "
    "hold PLACEHOLDER, no unknown bytes, distinct dict keys), masks_ok sn masks (bundled and synthetic map-Entry classes keep all their fields; "
    "two _refuted theorems show the older reader raises otherwise) and an encoding shorter than 2^64 bytes; the deleted fields may be ANY subset of "
    "the fields of ANY user class at ANY nesting depth (recursive classes included). It imports C01's theorems (round trip, decoded == original, "
    "stability) for the newer schema and, slot by slot, for the older schema (input_distribution: premise_masks_ok, premise_c01_schema_ok, "
    "premise_c01_value_ok, evolution_theorem_instance = the statement itself evaluated by vm_compute)",
    "the older, conditional C08_evolution_bytes / C08_evolution_partial (kept: they also speak about byte strings that are no message's encoding) take as PREMISES what belongs to the round-trip property C01: "
    "(C01-new) parse sn c (enc sn m) = Ok m1 with m1 == m; (C01-old) the older writer reproduces the bytes of the fields it knows "
    "(enc so (clear_unk mo) = known_raw ...), or, weaker, the newer reader sees the same object in them; further premises: the older reader and "
    "writer do not raise on these bytes, field numbers of the class are unique, and split_free (no oneof group has a deleted and a kept member both "
    "present among the records — C08_split_oneof_refuted shows it is needed). Every premise is evaluated on every generated case "
    "(input_distribution: premise_*, roundtrip_instance_*, split_oneof_inputs); the conclusions are checked on the implementation by the oracle "
    "whether or not the premises hold",
    "the unconditional theorems (parse_is_fold, records_*, spec_records, raw_preserved[_into|_spec], known_undisturbed[_conv|_spec], reemit, "
    "unknown_commutes, records_commute) carry no hypothesis on schema, bytes or object",
]
RULE = ("(newer, older) schema pairs: a fixed corpus pair, the systematic kind x cardinality schema and random schemas; older = random subset of EVERY "
        "class's fields deleted (probabilities 0.2/0.5/0.8, all, none; oneof groups split; nested classes lose fields too); values from msggen "
        "(boundary/typical, containers 0..5, nested); byte strings = bytes(m); bytes(m) with records unknown to both schemas "
        "(varint/fixed64/length-delimited/fixed32/group, padded varints) inserted at every gap (front/middle/end/alone, several at once); alternative "
        "encodings (wiregen.reencode: permuted, padded, packed split/unpacked, duplicated); known numbers with a non-fitting wire type and groups on "
        "known numbers; a quarter of the cases additionally parse into an object that already holds unknown bytes; hand-written regression corpus "
        "first. non-trivial = the older class sees at least one unknown record; distinct = distinct (pair, class, bytes)")

VARINT_T = {"enum", "bool", "int32", "int64", "uint32", "uint64", "sint32", "sint64"}
F32_T = {"float", "fixed32", "sfixed32"}
F64_T = {"double", "fixed64", "sfixed64"}
LEN_T = {"string", "bytes", "message", "map"}
PACKED_T = VARINT_T | F32_T | F64_T


# ------------------------------------------------------------------------------------------
# spec-level helpers, independent of betterproto
# ------------------------------------------------------------------------------------------
def record_spans(bs):
    """top-level records of bs as (number, wire_type, start, end); raises wiregen.WireError"""
    out, i = [], 0
    while i < len(bs):
        start = i
        tag, i = wiregen.read_varint(bs, i)
        num, wt = tag >> 3, tag & 7
        if num == 0:
            raise wiregen.WireError("field number 0")
        if wt == 0:
            _, i = wiregen.read_varint(bs, i)
        elif wt == 1:
            i += 8
        elif wt == 5:
            i += 4
        elif wt == 2:
            n, i = wiregen.read_varint(bs, i)
            i += n
        elif wt == 3:
            _, i = wiregen.read_records(bs, i, end_group=num)
        else:
            raise wiregen.WireError("wire type %d" % wt)
        if i > len(bs):
            raise wiregen.WireError("eof in payload")
        out.append((num, wt, start, i))
    return out


def fits(f, wt):
    """can a field declared like f arrive with wire type wt (what Message._wire_type_fits is meant to say)"""
    t = f.proto_type
    if wt == 0:
        return t in VARINT_T
    if wt == 5:
        return t in F32_T
    if wt == 1:
        return t in F64_T
    if wt == 2:
        return t in LEN_T or (t in PACKED_T and f.card == "repeated")
    return False


def is_unknown(cls, num, wt):
    f = None
    for g in cls.fields:  # dict semantics: later declarations win
        if g.number == num:
            f = g
    return f is None or not fits(f, wt)


def split_unknown(cls, bs):
    """(known bytes, unknown bytes, list of unknown record slices) of bs as class cls sees it"""
    known, unk, recs = bytearray(), bytearray(), []
    for num, wt, a, b in record_spans(bs):
        if is_unknown(cls, num, wt):
            unk += bs[a:b]
            recs.append(bs[a:b])
        else:
            known += bs[a:b]
    return bytes(known), bytes(unk), recs


def field_for(cls, num, wt):
    f = None
    for g in cls.fields:
        if g.number == num:
            f = g
    return f if f is not None and fits(f, wt) else None


def split_free(ncls, ocls, bs):
    """the decidable side condition of C08_evolution_bytes (Model/C08Step.v split_free), computed independently:
    no oneof group of the newer class has a member deleted in the older class and a member kept both present"""
    spans = record_spans(bs)
    for nu, wu, _, _ in spans:
        fu = field_for(ncls, nu, wu)
        if fu is None or not is_unknown(ocls, nu, wu):
            continue
        for nk, wk, _, _ in spans:
            fk = field_for(ncls, nk, wk)
            if fk is None or is_unknown(ocls, nk, wk):
                continue
            if fk.group is not None and fk.group == fu.group:
                return False
    return True


def make_older(newer, rng, p_del):
    """older schema: per class, a random subset of fields deleted; returns (Schema, masks)"""
    classes, masks = [], []
    for c in newer.classes:
        mask = [rng.random() >= p_del for _ in c.fields]
        fields = []
        for f, keep in zip(c.fields, mask):
            if keep:
                g = copy.copy(f)
                g.elem = copy.copy(f.elem)
                g.key = copy.copy(f.key)
                g.entry = None
                fields.append(g)
        classes.append(msggen.Cls(c.name, fields, c.ngroups))
        masks.append(mask)
    return msggen.Schema(classes, copy.deepcopy(newer.enums)), masks


def masks_coq(masks):
    rows = ["[]"] * NB + ["[" + "; ".join("true" if b else "false" for b in m) + "]" for m in masks]
    return "[" + "; ".join(rows) + "]"


def has_nan(v):
    import betterproto as bp
    if isinstance(v, float):
        return v != v
    if isinstance(v, list):
        return any(has_nan(x) for x in v)
    if isinstance(v, dict):
        return any(has_nan(x) for x in v.values())
    if isinstance(v, bp.Message):
        import dataclasses
        return any(has_nan(object.__getattribute__(v, f.name)) for f in dataclasses.fields(v))
    return False


def raw_state(m):
    """raw attributes + flags of a message, unknown bytes excluded (for 'known fields undisturbed')"""
    import dataclasses
    import betterproto as bp

    def conv(v):
        if isinstance(v, bp.Message):
            return raw_state(v) + (bytes(object.__getattribute__(v, "_unknown_fields")),)
        if isinstance(v, list):
            return [conv(x) for x in v]
        if isinstance(v, dict):
            return [(conv(k), conv(x)) for k, x in v.items()]
        if isinstance(v, float):
            return ("f", "nan") if v != v else ("f", msggen.f64_bits(v))
        if v is bp.PLACEHOLDER:
            return "PLACEHOLDER"
        return (type(v).__name__ if not isinstance(v, int) or isinstance(v, bool) else "int", v)
    return (type(m).__name__,
            [conv(object.__getattribute__(m, f.name)) for f in dataclasses.fields(m)],
            bool(object.__getattribute__(m, "_serialized_on_wire")),
            sorted((k, v) for k, v in object.__getattribute__(m, "_group_current").items()))


def unk_of(m):
    return bytes(object.__getattribute__(m, "_unknown_fields"))


def by_number(bs):
    d = {}
    for num, wt, a, b in record_spans(bs):
        d.setdefault(num, []).append(bs[a:b])
    return d


# ------------------------------------------------------------------------------------------
# byte-string variants
# ------------------------------------------------------------------------------------------
def gen_unknown_padded(rng, known, n=1):
    """like msggen.gen_unknown, sometimes with non-minimal varints (which must be preserved verbatim)"""
    bs = msggen.gen_unknown(rng, known, n=n)
    if rng.random() < 0.35:
        try:
            recs = wiregen.read_records(bs)
            return wiregen.write_records(recs, rng, pad=True)
        except wiregen.WireError:
            pass
    return bs


def mismatch_record(cls, rng):
    """a record with a number the class declares but a wire type that cannot carry the declared type"""
    if not cls.fields:
        return None
    f = rng.choice(cls.fields)
    wts = [w for w in (0, 1, 2, 5, 3) if not fits(f, w)]
    wt = rng.choice(wts)
    if wt == 0:
        return wiregen.write_record((f.number, 0, rng.choice([0, 1, 300, (1 << 64) - 1])))
    if wt == 1:
        return wiregen.write_record((f.number, 1, bytes(rng.getrandbits(8) for _ in range(8))))
    if wt == 5:
        return wiregen.write_record((f.number, 5, bytes(rng.getrandbits(8) for _ in range(4))))
    if wt == 2:
        return wiregen.write_record((f.number, 2, bytes(rng.getrandbits(8) for _ in range(rng.choice([0, 1, 5])))))
    inner = [(rng.choice([1, 2, f.number]), 0, rng.getrandbits(9))] if rng.random() < 0.7 else []
    return wiregen.write_record((f.number, 3, inner))


def variants(ctx, newer_cls, b1, rng, budget):
    """[(kind, bytes, inserted_unknown_slices or None)]"""
    out = [("plain", b1, [])]
    try:
        spans = record_spans(b1)
    except wiregen.WireError:
        return out
    known_numbers = {f.number for f in newer_cls.fields}
    pieces = [b1[a:b] for _, _, a, b in spans]
    gaps = list(range(len(pieces) + 1))
    # one unknown record at one gap: every gap for small messages
    chosen = gaps if len(gaps) <= 4 else sorted(rng.sample(gaps, 4))
    for g in chosen[:budget]:
        u = gen_unknown_padded(rng, known_numbers, n=1)
        pos = "front" if g == 0 else ("end" if g == len(pieces) else "middle")
        if len(pieces) == 0:
            pos = "alone"
        out.append(("unknown@" + pos, b"".join(pieces[:g]) + u + b"".join(pieces[g:]), [u]))
    # several unknown records at several gaps
    if rng.random() < 0.7:
        ins = sorted(rng.choice(gaps) for _ in range(rng.randint(2, 4)))
        us = [gen_unknown_padded(rng, known_numbers, n=1) for _ in ins]
        parts, k = [], 0
        for g in range(len(pieces) + 1):
            while k < len(ins) and ins[k] == g:
                parts.append(us[k])
                k += 1
            if g < len(pieces):
                parts.append(pieces[g])
        out.append(("unknown@many", b"".join(parts), us))
    # alternative encodings of the same message
    if pieces and rng.random() < 0.6:
        try:
            alt, used = wiregen.reencode(wiregen.read_records(b1), newer_cls, rng)
            out.append(("reencode:" + "+".join(sorted(used)) if used else "reencode:none", alt, None))
        except (wiregen.WireError, ValueError, IndexError):
            ctx.count("reencode_failed")
    # known number, non-fitting wire type / group on a known number
    if rng.random() < 0.5:
        r = mismatch_record(newer_cls, rng)
        if r is not None:
            g = rng.choice(gaps)
            out.append(("mismatch", b"".join(pieces[:g]) + r + b"".join(pieces[g:]), None))
    return out


# ------------------------------------------------------------------------------------------
def load_corpus():
    p = os.path.join(lib.VERIF, "corpus", "C08-regress.json")
    if not os.path.exists(p):
        return []
    return json.load(open(p))["cases"]


def corpus_pair():
    """a fixed (newer, older) pair for the regression corpus"""
    F, E, sc = msggen.Field, msggen.Elem, msggen.scalar
    inner = msggen.Cls("Inner", [F("x", 1, "plain", sc("int32")), F("s", 2, "plain", sc("string"))])
    newer = msggen.Cls("Evo", [
        F("a", 1, "plain", sc("int32")), F("s", 2, "plain", sc("string")), F("d", 3, "plain", sc("double")),
        F("f", 4, "plain", sc("fixed32")), F("r", 5, "repeated", sc("sint64")), F("m", 6, "plain", E("msg", "message", 0)),
        F("o", 7, "optional", sc("int32")), F("u1", 8, "plain", sc("string"), group=0), F("u2", 9, "plain", sc("int64"), group=0),
        F("mp", 10, "map", sc("int32"), key=sc("string")), F("b", 11, "plain", sc("bytes")), F("rs", 12, "repeated", sc("string")),
        F("w", 13, "wrapper", sc("int64")), F("big", 70000, "plain", sc("bool"))], ngroups=1)
    newer_s = msggen.Schema([inner, newer], [[("ZERO", 0), ("ONE", 1)]])
    masks = [[True, False], [True, True, False, False, False, False, True, False, True, False, False, True, False, False]]
    classes = []
    for c, mask in zip(newer_s.classes, masks):
        fs = []
        for f, keep in zip(c.fields, mask):
            if keep:
                g = copy.copy(f)
                g.elem, g.key, g.entry = copy.copy(f.elem), copy.copy(f.key), None
                fs.append(g)
        classes.append(msggen.Cls(c.name, fs, c.ngroups))
    older_s = msggen.Schema(classes, copy.deepcopy(newer_s.enums))
    return newer_s, older_s, masks


def build_pairs(ctx):
    """the (newer, older, masks, label) pairs of a run: a deterministic function of (seed, tier)"""
    rng = ctx.rng
    pairs_s = []

    def add_pair(newer, p_del, label):
        older, masks = make_older(newer, rng, p_del)
        pairs_s.append((newer, older, masks, label))

    cn, co, cm = corpus_pair()
    pairs_s.append((cn, co, cm, "corpus"))
    matrix = msggen.matrix_schema()
    for p_del, label in [(0.5, "matrix-0.5"), (0.2, "matrix-0.2"), (0.8, "matrix-0.8"), (1.0, "matrix-all"), (0.0, "matrix-none")]:
        add_pair(matrix, p_del, label)
    for k in range(6 if not ctx.thorough else 50):
        add_pair(msggen.random_schema(rng), rng.choice([0.2, 0.5, 0.5, 0.8]), f"random{k}")
    return pairs_s


class Case:
    __slots__ = ("pi", "ci", "kind", "bs", "inserted", "m", "m_ok", "src", "pre", "lit")

    def __init__(self, pi, ci, kind, bs, inserted, m, m_ok, src="gen", pre=None, lit=None):
        self.pi, self.ci, self.kind, self.bs, self.inserted, self.m, self.m_ok, self.src = pi, ci, kind, bs, inserted, m, m_ok, src
        self.pre = pre  # bytes parsed into the SAME older object before bs (m.parse(pre); m.parse(bs)), or None
        self.lit = lit  # Gallina literal of the raw state of m (only for kind == "plain"): input of C08_evolution


def run(ctx):
    import time
    rng = ctx.rng
    t0 = time.time()
    phases = ctx.cov.setdefault("phase_seconds", {})
    pairs_s = build_pairs(ctx)
    for newer, older, masks, label in pairs_s:
        ctx.count("pairs")
        split = 0
        for c, mask in zip(newer.classes, masks):
            for g in range(c.ngroups):
                ks = [keep for f, keep in zip(c.fields, mask) if f.group == g]
                if ks and any(ks) and not all(ks):
                    split += 1
        ctx.count("pairs_splitting_a_oneof_group", 1 if split else 0)
        ctx.count("fields_deleted", sum(1 for m in masks for b in m if not b))
        ctx.count("fields_kept", sum(1 for m in masks for b in m if b))

    # each distinct newer schema is defined (and normalised) once; the OLDER schema of the model is computed in Coq by drop_fields
    defs, names = [], {}
    for i, (newer, older, masks, label) in enumerate(pairs_s):
        if id(newer) not in names:
            names[id(newer)] = f"scN{i}"
            defs.append(f"Definition scN{i} : schema := Eval vm_compute in {newer.coq()}.")
        else:
            defs.append(f"Definition scN{i} : schema := {names[id(newer)]}.")
        defs.append(f"Definition scO{i} : schema := Eval vm_compute in drop_fields {masks_coq(masks)} scN{i}.")
    prelude = "\n".join(defs)

    cases = []
    # ---- regression corpus first
    for rc in load_corpus():
        ci = 1
        bs = bytes.fromhex(rc["bytes"])
        cases.append(Case(0, ci, "corpus:" + rc["name"], bs, None, None, False, src="corpus",
                          pre=bytes.fromhex(rc["pre"]) if rc.get("pre") else None))
        ctx.count("corpus_cases")
    # ---- generated
    n_msgs = {"corpus": 12, "matrix-0.5": 70, "matrix-0.2": 25, "matrix-0.8": 25, "matrix-all": 12, "matrix-none": 8}
    scale = 1 if not ctx.thorough else 4
    for pi, (newer, older, masks, label) in enumerate(pairs_s):
        n = n_msgs.get(label, 22) * scale
        for _ in range(n):
            ci = rng.randrange(len(newer.classes))
            in_range = rng.random() < 0.93
            try:
                m = msggen.gen_message(newer, ci, rng, in_range=in_range)
                b1 = bytes(m)
                try:
                    lit = msggen.obj_literal(newer, m)
                except msggen.Unmodellable:
                    lit = None
            except msggen.Unmodellable:
                ctx.count("unmodellable")
                continue
            except Exception as e:  # value not encodable (out of range): not this property's business
                ctx.count("unencodable:" + type(e).__name__)
                continue
            ctx.count("messages")
            for kind, bs, inserted in variants(ctx, newer.classes[ci], b1, rng, budget=3):
                pre = None
                if rng.random() < 0.25:
                    # an existing message that already holds unknown bytes (and possibly known fields) parses bs as well
                    pre = gen_unknown_padded(rng, {f.number for f in newer.classes[ci].fields}, n=rng.randint(1, 2))
                    if rng.random() < 0.4:
                        pre = b1 + pre
                cases.append(Case(pi, ci, kind, bs, inserted, m, True, pre=pre, lit=lit if kind == "plain" else None))

    phases["generate"] = round(time.time() - t0, 1)
    t0 = time.time()
    # ---- evaluate the implementation, build the T2 pairs, run the oracle
    pairs, meta = [], []
    for case in cases:
        newer, older, masks, label = pairs_s[case.pi]
        try:
            one_case(ctx, case, newer, older, pairs, meta)
        except msggen.Unmodellable:
            ctx.count("unmodellable")
        except Exception as e:  # noqa
            import traceback
            ctx.fail("oracle", f"the check's evaluation of one case raised {type(e).__name__}: {e}", cls=None,
                     input=describe(case, newer, older, masks), traceback=traceback.format_exc()[-1500:])
    ctx.cov["evaluations"] += len(cases)

    phases["implementation+oracle"] = round(time.time() - t0, 1)
    t0 = time.time()
    try:
        bad = lib.coq_compare(ctx, "c08", IMPORTS, pairs, chunk=48 if not ctx.thorough else 96, prelude=prelude)
    except RuntimeError as e:
        # another check running at the same time against a scratch copy regenerates coq/gen/Tables.v; if that happened between
        # our build and our evaluation the compiled model is momentarily inconsistent: rebuild once and retry
        if "inconsistent assumptions" not in str(e):
            raise
        ctx.notes.append("coq_compare retried after a concurrent rebuild of coq/gen/Tables.vo")
        if not lib.build(ctx, ["Properties/C08.vo"] + EXTRA_TARGETS):
            raise
        ctx.cov["traces_validated_against_impl"] = 0
        bad = lib.coq_compare(ctx, "c08", IMPORTS, pairs, chunk=48 if not ctx.thorough else 96, prelude=prelude)
    for i in bad[:20]:
        case = meta[i]
        newer, older, masks, label = pairs_s[case.pi]
        d = describe(case, newer, older, masks)
        d.update({"model_expr": pairs[i][0][:6000], "implementation": pairs[i][1][:6000]})
        ctx.fail("corr", "model (parse/enc_obj over drop_fields) and implementation (Older().parse / bytes / Newer().parse) disagree",
                 input=d, theorem_or_correspondence="T2 correspondence Model/Decode.v, Encode.v, C08Step.v <-> betterproto")
    ctx.cov["disagreements_checked"] = len(pairs)
    evolution_instances(ctx, pairs_s, cases, prelude)

    phases["coq_compare"] = round(time.time() - t0, 1)
    t0 = time.time()
    t3(ctx, rng)
    phases["t3"] = round(time.time() - t0, 1)
    for newer, older, masks, label in pairs_s:
        older.dispose()
    seen = set()
    for newer, older, masks, label in pairs_s:
        if id(newer) not in seen:
            seen.add(id(newer))
            newer.dispose()


def evolution_instances(ctx, pairs_s, cases, prelude):
    """C08_evolution on the generated data, evaluated inside Coq: its hypotheses (c01_schema_ok, masks_ok per schema pair;
    c01_value_ok per generated message) and, as an executable boolean, its conclusion for every message that meets them
    (the older reader/writer succeed, the newer reader returns norm_obj m, same length).  Counted, never a failure by
    itself: a hypothesis that fails marks an input outside the theorem; a conclusion that fails under the hypotheses
    would contradict the proof and IS reported."""
    imports = IMPORTS + " Model.C01Def Proofs.C08EvoDef"
    exprs, keys = [], []
    for i, (newer, older, masks, label) in enumerate(pairs_s):
        exprs.append((f"cbool (masks_ok scN{i} {masks_coq(masks)})", lib.cbool(True)))
        keys.append(("premise_masks_ok", None))
        exprs.append((f"cbool (c01_schema_ok scN{i})", lib.cbool(True)))
        keys.append(("premise_c01_schema_ok", None))
    for case in cases:
        if case.lit is None:
            continue
        pi, c = case.pi, case.ci + NB
        exprs.append((f"cbool (c01_value_ok scN{pi} {case.lit})", lib.cbool(True)))
        keys.append(("premise_c01_value_ok", case))
        concl = (f"(let m := {case.lit} in cbool (negb (c01_value_ok scN{pi} m) || "
                 f"match enc_obj scN{pi} m with Ok b1 => match parse scO{pi} {c}%nat b1 with Ok mo => "
                 f"match enc_obj scO{pi} mo with Ok b2 => Nat.eqb (length b2) (length b1) && "
                 f"match parse scN{pi} {c}%nat b2 with Ok m2 => cv_eqb (cv_of_obj m2) (cv_of_obj (norm_obj scN{pi} m)) | Err _ => false end "
                 f"| Err _ => false end | Err _ => false end | Err _ => false end))")
        exprs.append((concl, lib.cbool(True)))
        keys.append(("evolution_theorem_instance", case))
    before = ctx.cov["traces_validated_against_impl"]
    bad = set(lib.coq_compare(ctx, "c08evo", imports, exprs, chunk=120, prelude=prelude))
    ctx.cov["traces_validated_against_impl"] = before   # these are evaluations of the theorem's own statement, not traces of the implementation
    for i, (key, case) in enumerate(keys):
        ctx.count(key + (":fails" if i in bad else ":holds"))
        if key == "evolution_theorem_instance" and i in bad:
            newer, older, masks, label = pairs_s[case.pi]
            ctx.fail("corr", "C08_evolution evaluated on a generated message that meets its hypotheses is false in the model: "
                             "the statement in Properties/C08.v and the model have drifted apart",
                     input=describe(case, newer, older, masks),
                     theorem_or_correspondence="C08_evolution (Properties/C08.v) evaluated by vm_compute")
        if key in ("premise_masks_ok", "premise_c01_schema_ok") and i in bad and len(ctx.notes) < 8:
            ctx.notes.append(f"{key} fails for schema pair {i // 2}: C08_evolution says nothing about it")


def describe(case, newer, older, masks):
    d = {"pair": case.pi, "class_index": case.ci, "newer_schema": newer.describe(), "older_schema": older.describe(),
         "class": newer.classes[case.ci].name, "kind": case.kind, "bytes": case.bs.hex(),
         "pre": case.pre.hex() if case.pre is not None else None,
         "replay_needs": "the same VERIF_SEED and VERIF_TIER as the run that wrote this file (the schema pair is regenerated from them)"}
    if case.m is not None:
        d["repr"] = repr(case.m)[:2000]
    return d


def one_case(ctx, case, newer, older, pairs, meta):
    pi, ci, bs = case.pi, case.ci, case.bs
    N, O = newer.classes[ci].py, older.classes[ci].py
    ocls, ncls = older.classes[ci], newer.classes[ci]
    c = NB + ci
    ctx.count("kind:" + case.kind.split(":")[0])

    def fail(what):
        masks = None
        ctx.fail("oracle", what, cls=None, input=describe(case, newer, older, masks))

    # ---------------- implementation
    exp = []
    mo = None
    try:
        mo = O().parse(bs)
        exp.append(f"(cv_of_obj {msggen.obj_literal(older, mo)})")
        st_mo = raw_state(mo)  # before bytes()/len()/==, which materialise lazy defaults
    except msggen.Unmodellable:
        raise
    except Exception:
        exp.append(ce("EOther"))
        mo = None
    b2 = None
    if mo is not None:
        try:
            b2 = bytes(mo)
            exp.append(cb(b2))
        except Exception:
            exp.append(ce("EOther"))
    else:
        exp.append(ce("EOther"))
    m2 = None
    if b2 is not None:
        try:
            m2 = N().parse(b2)
            exp.append(f"(cv_of_obj {msggen.obj_literal(newer, m2)})")
        except msggen.Unmodellable:
            raise
        except Exception:
            exp.append(ce("EOther"))
    else:
        exp.append(ce("EOther"))
    # spec-level split of bs as the older class sees it
    try:
        known_b, unk_b, unk_recs = split_unknown(ocls, bs)
        framed = True
    except wiregen.WireError:
        framed = False
        known_b = unk_b = b""
        unk_recs = []
    ms = None
    if framed:
        try:
            ms = O().parse(known_b)
            exp.append(f"(cv_of_obj {msggen.obj_literal(older, ms)})")
            st_ms = raw_state(ms)
        except msggen.Unmodellable:
            raise
        except Exception:
            exp.append(ce("EOther"))
    else:
        exp.append("CN")
    # the definitions the theorems are stated with (records via frames, is_unknown, unknown_raw, known_raw, split_free),
    # evaluated in Coq, against the independent record reader of this file
    sf = None
    if framed:
        sf = split_free(ncls, ocls, bs)
        exp.append(cl([cb(unk_b), cb(known_b), lib.cbool(sf), lib.cz(len(record_spans(bs)))]))
    else:
        exp.append("CN")
    # m.parse(pre) followed by m.parse(bs) on the same object (C08_raw_preserved_into)
    mi = None
    pre_ok = False
    if case.pre is not None:
        ctx.count("parse_into_existing_cases")
        try:
            mi = O().parse(case.pre)
            pre_ok = True
            mi.parse(bs)
            exp.append(f"(cv_of_obj {msggen.obj_literal(older, mi)})")
            st_mi = raw_state(mi)
        except msggen.Unmodellable:
            raise
        except Exception:
            exp.append(ce("EOther"))
            mi = None
    else:
        exp.append("CN")
    lit = lib.coq_bytes(bs)
    model = ("(let bs := " + lit + " in CL [cv_obj_res (parse scO%d %d%%nat bs); "
             "cv_bytes_res (do mo <- parse scO%d %d%%nat bs; enc_obj scO%d mo); "
             "cv_obj_res (do mo <- parse scO%d %d%%nat bs; do b2 <- enc_obj scO%d mo; parse scN%d %d%%nat b2); "
             % (pi, c, pi, c, pi, pi, c, pi, pi, c))
    model += (f"cv_obj_res (parse scO{pi} {c}%nat {lib.coq_bytes(known_b)}); " if framed else "CN; ")
    model += (f"match frames (S (length bs)) bs with Some ps => CL [CB (unknown_raw (get_class scO{pi} {c}%nat) ps); "
              f"CB (known_raw (get_class scO{pi} {c}%nat) ps); cbool (split_free (get_class scN{pi} {c}%nat) (get_class scO{pi} {c}%nat) ps); "
              f"CZ (Zlength ps)] | None => CN end; ")
    model += (f"cv_obj_res (do m0 <- parse scO{pi} {c}%nat {lib.coq_bytes(case.pre)}; parse_into scO{pi} m0 bs)])"
              if case.pre is not None else "CN])")
    pairs.append((model, cl(exp)))
    meta.append(case)

    # ---------------- oracle: the property on the implementation
    if not framed:
        ctx.count("not_framed")
        return
    if unk_recs:
        ctx.seen_nontrivial((pi, ci, bs))
        ctx.count("cases_with_unknown_records")
        for r in unk_recs:
            tag, _ = wiregen.read_varint(r, 0)
            ctx.count("unknown_record_wt%d" % (tag & 7))
    if mo is None:
        # a byte string made of complete records: the older reader may only fail where the reader of the stripped bytes fails too
        if ms is not None:
            fail("Older().parse(bs) raises but parsing bs without its unknown records succeeds: an unknown record disturbed decoding")
        ctx.count("older_parse_error")
        return
    # parsing into an existing message: earlier unknown bytes stay in front, the result is that of parsing pre ++ bs
    if case.pre is not None and pre_ok:
        try:
            _, unk_pre, _ = split_unknown(ocls, case.pre)
            if mi is None:
                fail("m.parse(pre); m.parse(bs) raises although Older().parse(bs) works")
            else:
                if unk_of(mi) != unk_pre + unk_b:
                    fail(f"after m.parse(pre); m.parse(bs) _unknown_fields is {unk_of(mi).hex()}, expected the unknown records of pre then of bs "
                         f"{(unk_pre + unk_b).hex()}")
                whole = O().parse(case.pre + bs)
                if raw_state(whole) != st_mi:
                    fail("m.parse(pre); m.parse(bs) differs from parsing pre ++ bs in one go")
        except wiregen.WireError:
            pass
    # raw preserved
    if unk_of(mo) != unk_b:
        fail(f"_unknown_fields after Older().parse(bs) is {unk_of(mo).hex()}, the unknown records of bs are {unk_b.hex()}")
    # known undisturbed
    if ms is None:
        fail("parsing bs without its unknown records raises but Older().parse(bs) succeeds")
    else:
        if st_mo != st_ms:
            fail("raw attributes / _group_current / _serialized_on_wire after Older().parse(bs) differ from those after parsing bs without the unknown records")
        if unk_of(ms) != b"":
            fail("parsing a byte string without unknown records left _unknown_fields non-empty")
    # re-emit
    if b2 is None:
        if ms is not None:
            try:
                bytes(ms)
                fail("bytes(Older().parse(bs)) raises although bytes() of the same message without the unknown records works")
            except Exception:
                pass
        ctx.count("older_encode_error")
        return
    try:
        if len(mo) != len(b2):
            fail(f"len(older_parsed)={len(mo)} but its bytes() has {len(b2)} bytes")
    except Exception as e:
        fail(f"len(older_parsed) raises {type(e).__name__}")
    if ms is not None:
        try:
            kb = bytes(ms)
            if b2 != kb + unk_b:
                fail("bytes(older_parsed) is not bytes(known part) followed by the unknown records verbatim")
        except Exception as e:
            fail(f"bytes() of the message without unknown records raises {type(e).__name__}")
    if not b2.endswith(unk_b):
        fail("the unknown records are not re-emitted verbatim at the end of bytes(older_parsed)")
    try:
        spans2 = record_spans(b2)
        seq = [b2[a:b] for _, _, a, b in spans2]
        it = iter(seq)
        if not all(any(r == s for s in it) for r in unk_recs):
            fail("bytes(older_parsed) does not contain every unknown record byte-for-byte in arrival order")
    except wiregen.WireError:
        fail("bytes(older_parsed) is not a sequence of complete records")
    # evolution
    if m2 is None:
        try:
            N().parse(bs)
            fail("Newer().parse(bytes(Older().parse(bs))) raises although Newer().parse(bs) works")
        except Exception:
            ctx.count("newer_parse_error")
        return
    try:
        direct = N().parse(bs)
    except Exception:
        fail("Newer().parse(bs) raises although the bytes passed through the older reader/writer parse")
        return
    if sf is False:
        # outside the theorem's side condition (two members of one oneof present, one deleted one kept): the older writer moves the
        # deleted member behind the kept one, exactly as the reference implementation does; C08_split_oneof_refuted is the model's witness
        ctx.count("split_oneof_inputs(evolution clause not required)")
        return
    ctx.count("evolution_checked")
    # how often the premises of C08_evolution_partial / C08_evolution_bytes hold on generated data
    if ms is not None:
        try:
            k2 = bytes(ms)
            ctx.count("premise_C01_old(k2 == known records):" + ("holds" if k2 == known_b else "fails"))
            try:
                v1, v2 = N().parse(k2), N().parse(known_b)
                same_view = msggen.obj_literal(newer, v1) == msggen.obj_literal(newer, v2)
            except msggen.Unmodellable:
                same_view = None
            except Exception:
                same_view = False
            if same_view is not None:
                ctx.count("premise_view(newer sees k2 as the known records):" + ("holds" if same_view else "fails"))
                if not same_view and len(ctx.notes) < 6:
                    ctx.notes.append(f"premise_view fails (raw-state comparison; the == comparison of the oracle is separate): pair {pi} class {ncls.name} "
                                     f"kind {case.kind} known records {known_b.hex()[:300]} re-encoded {k2.hex()[:300]}")
        except Exception:
            ctx.count("premise_C01_old:older_encode_error")
    nan = has_nan(direct)
    if nan:
        ctx.count("nan_messages(compared by bytes)")
    same = (bytes(m2) == bytes(direct)) if nan else (m2 == direct)
    if not same:
        fail("Newer().parse(bytes(Older().parse(bs))) != Newer().parse(bs): data changed by passing through the older schema")
    if unk_of(m2) != unk_of(direct):
        fail("unknown bytes seen by the newer reader changed by passing through the older schema")
    # the older reader / writer behind a size-delimited stream (two frames, so that reading past the first one shows): the same
    # message must come out of load(stream, SIZE_DELIMITED) as out of parse(bs), for both frames
    if len(bs) < 4096:
        import io
        import betterproto as _bp
        try:
            stream = io.BytesIO((wiregen.enc_varint(len(bs)) + bs) * 2)
            got = [bytes(O().load(stream, _bp.SIZE_DELIMITED)) for _ in range(2)]
            ctx.count("evolution_via_delimited_stream")
            if got != [b2, b2] or stream.read() != b"":
                fail("the older reader behind a size-delimited stream (two frames) does not return the message parse() returns: "
                     f"{[g.hex()[:80] for g in got]} vs {b2.hex()[:80]}")
        except Exception as e:  # noqa
            fail(f"the older reader's load(stream, SIZE_DELIMITED) raises {type(e).__name__}: {e} on two frames whose payload parse() accepts")
    if case.m is not None and case.m_ok and not case.kind.startswith("mismatch"):
        m = case.m
        # C01's part (sampled here because C08_evolution assumes it): direct == m when m is oneof-clean
        eq_direct = (bytes(direct) == bytes(m)) if nan else (direct == m)
        if eq_direct:
            ctx.count("roundtrip_instance_holds")
            same_m = (bytes(m2) == bytes(m)) if nan else (m2 == m)
            if not same_m:
                fail("Newer().parse(bytes(Older().parse(bytes(m)))) != m")
            try:
                b3 = bytes(m2)
                if by_number(b3) != by_number(bytes(direct)):
                    fail("re-encoding the evolved message differs from re-encoding the directly parsed one (per field number)")
                back = N().parse(b3)
                ok = (bytes(back) == bytes(m2)) if nan else (back == m)
                if not ok:
                    fail("the re-encoded evolved message does not decode equal to m")
            except Exception as e:
                fail(f"re-encoding the evolved message raises {type(e).__name__}: {e}")
        else:
            ctx.count("roundtrip_instance_fails(C01 side condition, e.g. two members of a oneof set by kwargs)")
    # what the newer reader keeps as unknown is exactly the records of bs unknown to the newer class, in order
    try:
        _, unk_n, _ = split_unknown(ncls, bs)
        if unk_of(direct) != unk_n:
            fail("_unknown_fields of Newer().parse(bs) is not the concatenation of the records of bs unknown to the newer class")
        if case.inserted and b"".join(case.inserted) not in unk_n and len(case.inserted) == 1:
            fail("harness: an inserted unknown record is not unknown to the newer class")
    except wiregen.WireError:
        pass
    if len(ctx.cov["samples"]) < 8 and unk_recs and case.m is not None:
        ctx.sample({"pair": pi, "class": ncls.name, "kind": case.kind, "bytes": bs.hex()[:160], "older_unknown": unk_b.hex()[:120],
                    "reemitted": b2.hex()[:160]})


# ------------------------------------------------------------------------------------------
# T3: the reference's view of the re-emitted bytes
# ------------------------------------------------------------------------------------------
def flat_schema(rng, k):
    F, E, sc = msggen.Field, msggen.Elem, msggen.scalar
    enums = [[("Z", 0), ("A", 1), ("B", 2), ("N", -1)]]
    nf = rng.randint(3, 10)
    numbers = rng.sample(msggen.NUMBERS + list(range(3, 15)), nf)
    ngroups = rng.choice([0, 1, 2])
    fields = []
    for i in range(nf):
        e = sc(rng.choice(msggen.SCALARS)) if rng.random() < 0.85 else E("enum", "enum", 0)
        card = rng.choice(["plain", "plain", "optional", "repeated", "oneof"])
        group = None
        if card == "oneof":
            card = "plain"
            group = rng.randrange(ngroups) if ngroups else None
        fields.append(F(f"f{i}", numbers[i], card, e, group=group))
    return msggen.Schema([msggen.Cls(f"Flat{k}", fields, ngroups)], enums)


def ref_class(newer, ci, tagname):
    from google.protobuf import descriptor_pb2, descriptor_pool, message_factory
    T = descriptor_pb2.FieldDescriptorProto
    c = newer.classes[ci]
    fdp = descriptor_pb2.FileDescriptorProto(name=f"c08_{tagname}.proto", package=f"c08{tagname}", syntax="proto3")
    for ei, members in enumerate(newer.enums):
        ed = fdp.enum_type.add(name=f"E{ei}")
        if len({v for _, v in members}) < len(members):
            ed.options.allow_alias = True
        for n, v in members:
            ed.value.add(name=f"E{ei}_{n}", number=v)
    md = fdp.message_type.add(name=c.name)
    used_groups = sorted({f.group for f in c.fields if f.group is not None})
    for g in used_groups:
        md.oneof_decl.add(name=f"g{g}")
    nreal = len(used_groups)
    nsyn = 0
    for f in c.fields:
        if f.elem.kind == "enum":
            fd = md.field.add(name=f.name, number=f.number, type=T.TYPE_ENUM, type_name=f".c08{tagname}.E{f.elem.ref}")
        else:
            fd = md.field.add(name=f.name, number=f.number, type=getattr(T, "TYPE_" + f.elem.pt.upper()))
        fd.label = T.LABEL_REPEATED if f.card == "repeated" else T.LABEL_OPTIONAL
        if f.group is not None:
            fd.oneof_index = used_groups.index(f.group)
        elif f.card == "optional":
            md.oneof_decl.add(name=f"_{f.name}")
            fd.oneof_index = nreal + nsyn
            fd.proto3_optional = True
            nsyn += 1
    pool = descriptor_pool.DescriptorPool()
    pool.Add(fdp)
    return message_factory.GetMessageClass(pool.FindMessageTypeByName(f"c08{tagname}.{c.name}"))


def t3(ctx, rng):
    n_s = 4 if not ctx.thorough else 25
    for k in range(n_s):
        newer = flat_schema(rng, k)
        older, masks = make_older(newer, rng, rng.choice([0.3, 0.5, 0.7]))
        try:
            Ref = ref_class(newer, 0, f"s{ctx.seed}k{k}")
        except Exception as e:  # the reference refuses the schema: not a betterproto matter
            ctx.count("t3_schema_refused:" + type(e).__name__)
            newer.dispose()
            older.dispose()
            continue
        N, O = newer.classes[0].py, older.classes[0].py
        for _ in range(40 if not ctx.thorough else 150):
            try:
                m = msggen.gen_message(newer, 0, rng, in_range=True)
                b1 = bytes(m)
            except Exception:
                ctx.count("t3_unencodable")
                continue
            for kind, bs, inserted in variants(ctx, newer.classes[0], b1, rng, budget=2):
                if kind.startswith("mismatch"):
                    continue
                try:
                    r1 = Ref.FromString(bs)
                except Exception:
                    ctx.count("t3_reference_rejects_input")  # e.g. a string field holding invalid UTF-8 from a random value
                    continue
                try:
                    b2 = bytes(O().parse(bs))
                except Exception as e:
                    ctx.fail("oracle", f"T3: older reader/writer raises {type(e).__name__} on bytes the reference accepts", cls=None,
                             input={"schema": newer.describe(), "older": older.describe(), "bytes": bs.hex(), "kind": kind})
                    continue
                try:
                    r2 = Ref.FromString(b2)
                    same = r1 == r2 or r1.SerializeToString(deterministic=True) == r2.SerializeToString(deterministic=True)
                    if not same:
                        # NaN payloads compare unequal in the reference as well: fall back to the text of the known fields
                        same = str(r1) == str(r2)
                except Exception as e:
                    same = False
                ctx.count("t3_cases")
                ctx.cov["evaluations"] += 1
                if not same:
                    ctx.fail("oracle", "T3: the reference's view of the bytes re-emitted by the older reader/writer differs from its view of the original bytes",
                             cls=None, input={"schema": newer.describe(), "older": older.describe(), "bytes": bs.hex(), "reemitted": b2.hex(), "kind": kind})
        newer.dispose()
        older.dispose()


def finish(ctx):
    return lib.finish(
        ctx, "proof",
        "Coq theorems over the shared Gallina mirror of Message.load / dump (load proved to be a fold of a per-record step) + executable correspondence "
        "(vm_compute) with real (newer, older) class pairs + reference view (google.protobuf) of the re-emitted bytes",
        ASSUMPTIONS, TRUSTED, RULE,
        extra_cov={"explanation": "theorems are unbounded (all schemas, all byte strings made of complete records, all subsets of deleted fields); "
                                  "the correspondence and the oracle sample schema pairs, values and byte strings"})


def replay(ctx, obj):
    """re-run the oracle on the recorded input against the current tree (same VERIF_SEED / VERIF_TIER as the recording run)"""
    print(json.dumps({k: v for k, v in obj.items() if k != "input"}, indent=1, default=repr)[:3000])
    inp = obj.get("input") or {}
    if "bytes" not in inp or "pair" not in inp:
        print(json.dumps(inp, indent=1, default=repr)[:6000])
        return 0
    pairs_s = build_pairs(ctx)
    newer, older, masks, label = pairs_s[inp["pair"]]
    case = Case(inp["pair"], inp["class_index"], inp.get("kind", "replay"), bytes.fromhex(inp["bytes"]), None, None, False, src="replay",
                pre=bytes.fromhex(inp["pre"]) if inp.get("pre") else None)
    if newer.classes[case.ci].name != inp.get("class"):
        print("the schema pair regenerated from this seed/tier does not match the recording; set VERIF_SEED / VERIF_TIER as recorded")
        return 2
    pairs, meta = [], []
    one_case(ctx, case, newer, older, pairs, meta)
    for f in ctx.failures:
        print("STILL FAILS:", f["what"])
    if not ctx.failures:
        print("the oracle holds on this input now; model expression for the correspondence:")
        print(pairs[0][0][:3000] if pairs else "")
    return 1 if ctx.failures else 0
