"""C10 — delimited streams read back intact; truncation never yields a partial message.

T2: sequences of 0-6 messages of mixed classes written with m.dump(stream, SIZE_DELIMITED) into one BytesIO and
    read back with successive Cls().load(stream, SIZE_DELIMITED): the bytes written, every returned object (raw
    snapshot) and stream.tell() after every load are compared with the model (dump_stream / loads), on the whole
    stream and on EVERY cut point of it.
oracle: the property itself on the implementation (each load returns exactly parse(payload) and stops at the frame
    boundary; == the written message; a cut stream returns the same objects or raises, and keeps raising).
T3: google.protobuf.proto.serialize_length_prefixed / parse_length_prefixed write and read the same streams.
gap tie (the specification-side functions of the gap-closing theorems, Model/C10GapDefs.v, evaluated through Model/C10GapCv.v):
    ref_frame / ref_frames on every generated stream (well-formed, every cut, fault streams, damaged streams) against
    (a) google.protobuf's own reading of the same bytes (decoder._DecodeVarint + read(size), cross-checked with
    proto.parse_length_prefixed on a field-less class) and (b) the stream positions betterproto's load left after every call;
    whole_frames against the harness' frame count; c14u_value_ok / normu_obj against what load returned for messages carrying
    unknown fields at any depth; plus the oracles C10_loads_past_end, C10_stream_fault_roundtrip, C10_loads_fault on the
    implementation (see the section "gap tie" below)."""
import dataclasses
import io
import json
import os
import struct

from .. import lib, msggen, wiregen
from ..lib import cz, cb, cl, ce

IMPORTS = ("Model.Types Model.Object Model.Eq Model.Encode Model.Len Model.Decode Model.Canon Model.C10Stream Model.C01Def Model.C10Rt "
           "Model.C10GapDefs Model.C14UDef Model.C10GapCv gen.Tables")
EXTRA_TARGETS = ["Model/Canon.vo", "Model/C10Stream.vo", "Model/C10GapCv.vo"]
CORPUS = os.path.join(lib.VERIF, "corpus", "C10-regress.json")

TRUSTED = [
    "Coq 8.16.1 kernel and vm_compute (no native_compute); full .vo build via coq_makefile",
    "hand-written model coq/Model/{Object,Eq,Float,Utf8,TimeCore,Encode,Len,Decode}.v (shared codec model) and coq/Model/C10Stream.v "
    "(dump_stream / loads) tied to /repo by executable correspondence (this harness): the model is evaluated by vm_compute inside Coq on "
    "snapshots of real Message objects and on the real stream bytes and compared with what dump/load did, whole stream and every cut point",
    "coq/Proofs/C10GenP.v load_unfold / load_field_unfold: the named pieces the proofs reason about are convertible with the text of Model/Decode.v (proved by reflexivity)",
    "translator harness/gen_tables.py (type tables, SIZE_DELIMITED, wire-type constants reflected into coq/gen/Tables.v)",
    "Python side: harness/msggen.py (schemas, values, snapshots through object.__getattribute__), harness/wiregen.py (fault injection)",
    "oracles: CPython 3.12 io.BytesIO; google.protobuf (upb) proto.serialize_length_prefixed / parse_length_prefixed for T3",
    "the position of a stream after an exception is outside the model (checked on the implementation only: every later load raises too)",
    "gap tie: coq/Model/C10GapCv.v (observables of ref_frame / ref_frames / whole_frames / c14u_value_ok / normu_obj; no proofs); the reference "
    "side is google.protobuf.internal.decoder._DecodeVarint + BytesIO.read(size) in the loop of proto.parse_length_prefixed, cross-checked against "
    "proto.parse_length_prefixed itself on a field-less class; NOT tied (differs by definition, witness recorded in the notes of every run): a "
    "ten-byte length prefix whose tenth byte is above 1 - google masks the value to 64 bits, betterproto / ref_frame keep the bits from 2**64 on",
]
ASSUMPTIONS = [
    "a stream is the list of bytes not yet read; stream.read(n) returns fewer bytes only at EOF (io.BytesIO semantics)",
    "Python int is Z; str is its UTF-8 bytes; float is its binary64 pattern; object identity is not modelled",
    "a frame payload is shorter than 2**64 bytes (premise `Zlength stream < 2^64` of the stream theorems, `msg_small` per message "
    "in the round-trip section)",
    "the framing / truncation theorems are unconditional (each load returns Cls().parse(bytes(m))); the end-to-end theorems "
    "C10_stream_roundtrip / C10_stream_older_reader / C10_truncate_roundtrip (returned messages == the written ones, older reader, "
    "whole frames before a cut) hold under the decidable side conditions of C01 / C08: c01_schema_ok, c01_value_ok, masks_ok, "
    "and no NaN directly inside a container for the == conclusions (K7 of C01)",
]
RULE = ("streams of 0-6 messages drawn from a systematic schema (every scalar kind x {plain, optional, repeated, oneof, map, wrapper}, nested, "
        "empty class) and random schemas, each extended with an OLDER variant of every class (subset of the fields); empties, unknown fields, "
        "nested messages forced into the mix; read back with the writer's classes, with the older classes, or with unrelated classes; "
        "every cut point of every stream up to a size budget (sampled cuts beyond it); plus frames with injected faults and wrong length prefixes; "
        "plus the regression corpus (former defects F1, F2a, F2b); plus, per stream, damaged copies (overwrite / insert / delete / garbage from a byte k on, "
        "k near frame boundaries half of the time, random / all-zero / all-ones filling), one load more than there are messages, and messages with unknown "
        "records forced into their NESTED messages (through parse or as raw state). non-trivial = stream with at least one non-empty frame; "
        "distinct = distinct (reader classes, stream bytes)")


# --------------------------------------------------------------------------------------------------
# schemas with an older variant of every class
# --------------------------------------------------------------------------------------------------
def clone_field(f):
    return msggen.Field(f.name, f.number, f.card, f.elem, key=f.key, group=f.group)


def evolve(s, rng):
    """a new Schema = the classes of s + for every class with fields an 'Old' class keeping a subset of them.
    Returns (schema, old_of: user class index -> user class index of its older variant)."""
    classes = [msggen.Cls(c.name, [clone_field(f) for f in c.fields], c.ngroups) for c in s.classes]
    old_of = {}
    for ci, c in enumerate(s.classes):
        if not c.fields:
            continue
        keep = [f for f in c.fields if rng.random() < 0.5]
        if len(keep) == len(c.fields):
            keep = keep[:-1]
        old_of[ci] = len(classes)
        classes.append(msggen.Cls(c.name + "Old", [clone_field(f) for f in keep], c.ngroups))
    enums = s.enums
    s.dispose()
    return msggen.Schema(classes, enums), old_of


def spec_of_schema(s):
    out = {"enums": s.enums, "classes": []}
    for c in s.classes:
        out["classes"].append({"name": c.name, "ngroups": c.ngroups, "fields": [
            [f.name, f.number, f.card, f.elem.kind, f.elem.pt, f.elem.ref, f.key.pt if f.key else None, f.group] for f in c.fields]})
    return out


def schema_of_spec(spec):
    classes = []
    for c in spec["classes"]:
        fields = [msggen.Field(n, num, card, msggen.Elem(kind, pt, ref), key=msggen.scalar(kpt) if kpt else None, group=grp)
                  for n, num, card, kind, pt, ref, kpt, grp in c["fields"]]
        classes.append(msggen.Cls(c["name"], fields, c.get("ngroups", 0)))
    return msggen.Schema(classes, [[tuple(m) for m in e] for e in spec.get("enums", [])])


# --------------------------------------------------------------------------------------------------
# running the implementation
# --------------------------------------------------------------------------------------------------
def snapshot(s, m):
    try:
        return msggen.obj_literal(s, m)
    except msggen.Unmodellable:
        return None


class BurstStream(io.RawIOBase):
    """a pipe / socket-like reader over `data`: read(n) returns SHORT counts (never more than asked, sometimes fewer although
    more data follows) at the chosen burst boundaries, as an unbuffered stream may; b"" only at the real end"""

    def __init__(self, data, bounds):
        self.data, self.pos, self.bounds = data, 0, sorted(set(bounds))

    def readable(self):
        return True

    def read(self, n=-1):
        if n is None or n < 0:
            n = len(self.data) - self.pos
        end = min(self.pos + n, len(self.data))
        for b in self.bounds:
            if self.pos < b < end:
                end = b
                break
        out = self.data[self.pos:end]
        self.pos = end
        return out

    def tell(self):
        return self.pos


def read_run(bp, s, readers, data, stream=None):
    """successive Cls().load(stream, SIZE_DELIMITED) over `data`. Returns (events, after) where events is the modelled part:
    list of ('ok', snapshot, remaining, obj) ended by at most one ('err', exc); `after` = outcomes ('ok'|'err') of the loads the
    implementation performs AFTER the first exception on the same stream object (not modelled)."""
    st = io.BytesIO(data) if stream is None else stream
    events, after = [], []
    failed = False
    for ci in readers:
        cls = s.classes[ci].py
        try:
            o = cls().load(st, bp.SIZE_DELIMITED)
            if failed:
                after.append("ok")
            else:
                events.append(("ok", snapshot(s, o), len(data) - st.tell(), o))
        except Exception as e:  # noqa
            if failed:
                after.append("err")
            else:
                events.append(("err", e))
                failed = True
    return events, after


def trace_cv(events):
    items = []
    for ev in events:
        if ev[0] == "ok":
            items.append(f"(CL [cv_of_obj {ev[1]}; {cz(ev[2])}])")
        else:
            items.append(ce("EOther"))
    return "[" + "; ".join(items) + "]"


class Case:
    """one stream: what was written (snapshots), the bytes, the reader classes"""

    def __init__(self, label, si, s, written, frames, readers):
        self.label, self.si, self.s, self.written, self.frames, self.readers = label, si, s, written, frames, readers
        self.stream = b"".join(frames)

    def describe(self, cut=None, bursts=None):
        d = {"label": self.label, "schema_spec": spec_of_schema(self.s), "readers": [self.s.classes[c].name for c in self.readers],
             "reader_indices": list(self.readers), "stream_hex": self.stream.hex(), "frames_hex": [f.hex() for f in self.frames],
             "written": [{"class": self.s.classes[ci].name, "repr": repr(m)[:600]} for ci, m, _p, _l in self.written]}
        if cut is not None:
            d["cut"] = cut
        if bursts is not None:
            d["bursts"] = list(bursts)
        return d


def nat_list(ks):
    return "[" + "; ".join(f"{k}%nat" for k in ks) + "]"


def check_case(ctx, bp, case, pairs, meta, exhaustive_budget, sampled_cuts, ndamage=2):
    """oracle on the implementation + the model expressions for one stream"""
    s, stream, readers = case.s, case.stream, case.readers
    rng = ctx.rng
    mi = lambda c: msggen.NBUILTIN + c  # noqa
    ends, pos = [], 0
    for f in case.frames:
        pos += len(f)
        ends.append(pos)
    same_classes = case.label.startswith(("same", "corpus-same")) and len(readers) == len(case.written) and all(r == w[0] for r, w in zip(readers, case.written))
    # ---------------- whole stream
    events, _ = read_run(bp, s, readers, stream)
    if any(ev[0] == "ok" and ev[1] is None for ev in events):
        ctx.count("unmodellable_result")
        return
    full_snaps = [ev[1] for ev in events if ev[0] == "ok"]
    full_ok = len(full_snaps) == min(len(readers), len(case.written))
    ctx.cov["evaluations"] += 1
    if any(len(f) > 1 for f in case.frames):
        ctx.seen_nontrivial((tuple(readers), stream))
    rt_flags = {}
    # oracle 1: frame-exact reads that return what parse returns on the payload alone
    for i, ci in enumerate(readers[:len(case.written)]):
        payload = case.written[i][2]
        try:
            want = s.classes[ci].py().parse(payload)
            want_snap, want_err = snapshot(s, want), None
        except Exception as e:  # noqa
            want, want_snap, want_err = None, None, e
        if i >= len(events):
            break
        ev = events[i]
        if ev[0] == "ok":
            if want_err is not None:
                ctx.fail("oracle", f"load #{i} returned although parse(payload) raises {type(want_err).__name__}", input=case.describe())
            elif ev[1] != want_snap:
                ctx.fail("oracle", f"load #{i} returned an object different from Cls().parse(payload)", input=dict(case.describe(), got=ev[1][:1500], want=(want_snap or "")[:1500]))
            if len(stream) - ev[2] != ends[i]:
                ctx.fail("oracle", f"load #{i} stopped at offset {len(stream) - ev[2]}, its frame ends at {ends[i]} (did not consume exactly its own message)",
                         input=case.describe())
            if same_classes:
                m = case.written[i][1]
                try:
                    rt_ok = (want == m)  # C01's statement on this message
                    if rt_ok and not (ev[3] == m and bytes(ev[3]) == payload):
                        ctx.fail("oracle", f"load #{i} returned a message that is not == the written one (or re-encodes differently)", input=case.describe())
                    ctx.count("eq_checked" if rt_ok else "eq_skipped_c01_roundtrip_not_eq")
                    rt_flags[i] = bool(rt_ok)
                except Exception as e:  # noqa
                    ctx.fail("oracle", f"comparing load #{i} with the written message raised {type(e).__name__}: {e}", input=case.describe())
                # gap tie (3): the written message carries unknown fields, possibly inside nested messages
                unknown_stage(ctx, bp, case, i, ev[3], ev[1], pairs, meta, rt_flags.get(i, False))
        else:
            if want_err is None:
                ctx.fail("oracle", f"load #{i} raised {type(ev[1]).__name__}: {ev[1]} although the frame is complete and parse(payload) returns",
                         input=case.describe())
            break
    if len(readers) == len(case.written) and len(events) == len(readers) and all(ev[0] == "ok" for ev in events) and events and events[-1][2] != 0:
        ctx.fail("oracle", "all frames read but the stream is not exhausted", input=case.describe())
    # oracle 1b: the same bytes through a reader that returns SHORT counts part-way (pipe / socket): every load raises or returns
    # exactly the message the plain run returns at that position - never one made of other bytes (seeded change C10-7: a retry
    # loop after a short read that over-reads)
    if len(stream) > 2 and full_snaps:
        rb = ctx.rng
        for _ in range(2):
            bounds = rb.sample(range(1, len(stream)), min(len(stream) - 1, rb.choice([1, 2, 3, 5])))
            try:
                evs, _after = read_run(bp, s, readers, stream, stream=BurstStream(stream, bounds))
            except Exception as e:  # noqa
                ctx.fail("oracle", f"reading through a short-count stream crashed the harness: {e!r}", input=case.describe(bursts=bounds))
                break
            ctx.count("burst_stream_runs")
            for i, ev in enumerate(evs):
                if ev[0] != "ok":
                    ctx.count("burst_stream_load_raised")
                    break
                if i >= len(full_snaps) or ev[1] != full_snaps[i]:
                    ctx.fail("oracle", f"short-count stream (bursts at {bounds}): load #{i} returned a message different from the one the plain "
                             "stream gives at that position", input=case.describe(bursts=bounds))
                    break
    # gap tie (1): the reference reader on the whole stream, against google's reading and betterproto's positions
    gfr, gend = ref_pair(ctx, stream, events, "whole", case.describe())
    ref_vs_load(ctx, s, readers, stream, events, gfr, gend, case.describe)
    # gap tie (2): one load more than there are messages; faults other than a cut. The model side (loads_end, whole_frames,
    # damaged_cv) rides in the stream's main pair: the written objects and the stream are printed once
    comps = past_end_stage(ctx, bp, case)
    dcomps, dinfo = fault_stage(ctx, bp, case, full_snaps, full_ok, rt_flags, ndamage)
    comps += dcomps
    model = (f"(let ms := [{'; '.join(w[3] for w in case.written)}] in let s := {lib.coq_bytes(stream)} in "
             f"CL [cv_bytes_res (dump_stream sc{case.si} ms); CL (loads_trace sc{case.si} {nat_list(mi(c) for c in readers)} s); "
             f"CL [{'; '.join(c[0] for c in comps)}]])")
    expected = f"(CL [{cb(stream)}; CL {trace_cv(events)}; {cl([c[1] for c in comps])}])"
    pairs.append((model, expected))
    meta.append((case, None, {"damaged": dinfo}))
    # ---------------- every cut point
    n = len(stream)
    if n <= exhaustive_budget:
        ks = list(range(n + 1))
        ks_coq = f"(seq 0 {n + 1})"
        ctx.count("streams_all_cuts")
    else:
        ks = sorted(set(rng.sample(range(n + 1), sampled_cuts) + ends + [e - 1 for e in ends] + [0, n]))
        ks_coq = nat_list(ks)
        ctx.count("streams_sampled_cuts")
    summaries = []
    ref_sums, ref_kns, ref_rests, ref_cuts_ok = [], [], [], gend != "overwide"
    gpay = [p for p, _r in gfr]
    for k in ks:
        evs, after = read_run(bp, s, readers, stream[:k])
        oks = [ev for ev in evs if ev[0] == "ok"]
        # gap tie (1) at this cut: google's reading of the cut stream; betterproto's positions against it
        cfr, cend = g_frames(stream[:k])
        if cend == "overwide":
            ref_cuts_ok = False
        else:
            ref_sums.append(cl([cz(len(cfr)), lib.cbool([p for p, _r in cfr] == gpay[:len(cfr)]), cz(len(cfr)) if cend is None else ce(cend)]))
            ref_kns.append(f"({k}%nat, {len(oks)}%nat)")
            ref_rests.append(cl([cz(ev[2]) for ev in oks]))
            for i, ev in enumerate(oks):
                if i >= len(cfr) or cfr[i][1] != ev[2]:
                    ctx.fail("oracle", f"stream cut at {k}: load #{i} returned leaving {ev[2]} bytes where google.protobuf's length-prefixed reading "
                             + ("finds no complete frame" if i >= len(cfr) else f"leaves {cfr[i][1]}"), input=case.describe(cut=k))
                    break
            ctx.count("ref:cut_streams_read_by_reference")
        same = all(i < len(full_snaps) and ev[1] == full_snaps[i] for i, ev in enumerate(oks))
        err = bool(evs) and evs[-1][0] == "err"
        summaries.append(cl([cz(len(oks)), lib.cbool(same), cl([cz(ev[2]) for ev in oks]), lib.cbool(err)]))
        ctx.cov["evaluations"] += 1
        ctx.count("cut_points")
        # oracle 2: never a silently shortened / different message
        if not same:
            ctx.fail("oracle", f"stream cut at {k}: a load returned a message different from the one the uncut stream returns at that position",
                     input=case.describe(cut=k))
        whole = sum(1 for e in ends if e <= k)
        if len(oks) > whole:
            ctx.fail("oracle", f"stream cut at {k}: {len(oks)} loads returned but only {whole} frames are complete", input=case.describe(cut=k))
        # when the uncut run returns every message, an exception on a cut stream can only come from the cut itself:
        # the stream is then at EOF and every later load must raise as well (a return would be a message made of nothing)
        if full_ok and "ok" in after:
            ctx.fail("oracle", f"stream cut at {k}: a load returned a message after an earlier load on the same stream had raised", input=case.describe(cut=k))
        if same_classes and len(full_snaps) == len(readers) and len(oks) != min(whole, len(readers)):
            ctx.fail("oracle", f"stream cut at {k}: {whole} complete frames but {len(oks)} loads returned", input=case.describe(cut=k))
    pairs.append((f"(all_cuts sc{case.si} {nat_list(mi(c) for c in readers)} {lib.coq_bytes(stream)} {ks_coq})", cl(summaries)))
    meta.append((case, ks))
    if ref_cuts_ok:
        ctx.c10_ref[0].append((f"(let s := {lib.coq_bytes(stream)} in CL [ref_cuts s {ks_coq}; ref_positions_cuts s [{'; '.join(ref_kns)}]])",
                               cl([cl(ref_sums), cl(ref_rests)])))
        ctx.c10_ref[1].append((dict(case.describe(), cuts=list(ks)[:400]), "every cut"))
    else:
        ctx.count("ref:cuts_skipped_overwide_prefix")



# --------------------------------------------------------------------------------------------------
# gap tie: the specification-side functions of the gap-closing theorems against the reference and the implementation
#   ref_frame / ref_frames  (Model/C10GapDefs.v)  <->  google.protobuf's reading of the same bytes, betterproto's stream positions
#   whole_frames            (Model/C10Rt.v)       <->  the number of written frames that end at or before byte k
#   c14u_value_ok / normu_obj (Model/C14UDef.v)   <->  what load returned for messages carrying unknown fields at any depth
#   and the oracles C10_loads_past_end, C10_stream_fault_roundtrip / _any_reader, C10_loads_fault on the implementation
# --------------------------------------------------------------------------------------------------
_REF_EMPTY = {}


def ref_empty_class(ctx):
    """a google.protobuf message class without fields: every record is an unknown field to it"""
    if "cls" not in _REF_EMPTY:
        from google.protobuf import descriptor_pb2, descriptor_pool, message_factory
        fdp = descriptor_pb2.FileDescriptorProto(name=f"c10gap_{ctx.seed}.proto", package="c10gap", syntax="proto3")
        fdp.message_type.add(name="E")
        pool = descriptor_pool.DescriptorPool()
        pool.Add(fdp)
        _REF_EMPTY["cls"] = message_factory.GetMessageClass(pool.FindMessageTypeByName("c10gap.E"))
    return _REF_EMPTY["cls"]


def g_frames(data):
    """google.protobuf's reading of a length-prefixed stream without a message class: the loop of proto.parse_length_prefixed
    (size = decoder._DecodeVarint(stream); stream.read(size)) run until it ends. Returns (frames, end) with frames =
    [(payload, unread bytes after it)] and end = None (clean end of input: _DecodeVarint returned None) | 'EEof' (the input ends
    inside a prefix or a payload) | 'ETooLong' (more than ten prefix bytes) | 'overwide' (a ten-byte prefix whose tenth byte is
    above 1: the reference masks the value to 64 bits, betterproto's load_varint - and ref_frame, which is written over it -
    keeps the bits from 2**64 on, so the two readings differ there BY DEFINITION; no writer produces such a prefix; the reading
    stops and the stream is compared up to here only - see overwide_witness)."""
    from google.protobuf.internal import decoder
    st = io.BytesIO(data)
    frames = []
    while True:
        pos = st.tell()
        try:
            size = decoder._DecodeVarint(st)
        except decoder._DecodeError:
            return frames, "ETooLong"
        except ValueError:
            return frames, "EEof"
        if size is None:
            return frames, None
        if st.tell() - pos == 10 and data[pos + 9] > 1:
            return frames, "overwide"
        try:
            payload = st.read(size)
        except OverflowError:
            return frames, "EEof"
        if len(payload) < size:
            return frames, "EEof"
        frames.append((payload, len(data) - st.tell()))


def g_parse_lp(ctx, data):
    """proto.parse_length_prefixed itself, with the field-less class, until it returns None or raises: [(unread, reserialised)]"""
    from google.protobuf import proto
    RefE = ref_empty_class(ctx)
    st = io.BytesIO(data)
    out = []
    while True:
        try:
            msg = proto.parse_length_prefixed(RefE, st)
        except Exception:  # noqa
            return out
        if msg is None:
            return out
        out.append((len(data) - st.tell(), msg.SerializeToString()))
        if len(out) > len(data) + 1:
            return out


def ref_pair(ctx, data, events, what, describe):
    """one correspondence pair (schema-free: evaluated in a separate, cheap coq_compare) for the bytes `data`: ref_trace /
    ref_frames_cv against google's reading, ref_positions against the positions betterproto's loads left (events of read_run on
    the same bytes). Returns (frames, end) of google's reading."""
    frames, end = g_frames(data)
    ctx.count("ref:streams_read_by_reference")
    ctx.count("ref:streams_" + what)
    ctx.count("ref:frames_read_by_reference", len(frames))
    ctx.count("ref:end_" + ("clean" if end is None else end))
    # the harness' loop against google's own function (positions of the frames upb can parse)
    lp = g_parse_lp(ctx, data)
    for i, (rem, ser) in enumerate(lp):
        if i >= len(frames):
            if end != "overwide":
                ctx.fail("corr", f"proto.parse_length_prefixed returns a frame #{i} where the _DecodeVarint / read(size) loop of the harness ends ({end})",
                         input={"stream_hex": data.hex(), "what": what})
            break
        if rem != frames[i][1]:
            ctx.fail("corr", f"proto.parse_length_prefixed leaves {rem} bytes after frame #{i}, the _DecodeVarint / read(size) loop {frames[i][1]}",
                     input={"stream_hex": data.hex(), "what": what})
            break
        ctx.count("ref:frames_confirmed_by_parse_length_prefixed")
        if ser == frames[i][0]:
            ctx.count("ref:frames_reserialised_identically_by_reference")
    items = [cl([cb(p), cz(r)]) for p, r in frames]
    if end != "overwide":
        items.append(ce("EEof" if end is None else end))   # a read at the clean end: google returns None, ref_frame [] = Err EEof
    n = len(items)
    whole = "CN" if end == "overwide" else (cl([cb(p) for p, _ in frames]) if end is None else ce(end))
    oks = [ev for ev in events if ev[0] == "ok"]
    model = (f"(let s := {lib.coq_bytes(data)} in CL [CL (ref_trace {n}%nat s); "
             f"{'CN' if end == 'overwide' else 'ref_frames_cv s'}; CL (ref_positions {len(oks)}%nat s)])")
    expected = cl([cl(items), whole, cl([cz(ev[2]) for ev in oks])])
    ctx.c10_ref[0].append((model, expected))
    ctx.c10_ref[1].append((describe, what))
    return frames, end


def ref_vs_load(ctx, s, readers, data, events, frames, end, describe):
    """C10_load_ref_frame on the implementation, both directions: a load returns (m, position) exactly when the reference reader
    splits off (payload, position) and Cls().parse(payload) returns m"""
    for i, ev in enumerate(events):
        cls = s.classes[readers[i]].py
        if ev[0] == "ok":
            if i >= len(frames):
                if end != "overwide":
                    ctx.fail("oracle", f"load #{i} returned a message where google.protobuf's length-prefixed reading finds no complete frame ({end})",
                             input=describe())
                return
            if frames[i][1] != ev[2]:
                ctx.fail("oracle", f"load #{i} left {ev[2]} bytes unread, google.protobuf's length-prefixed reading leaves {frames[i][1]}", input=describe())
                return
            try:
                want = snapshot(s, cls().parse(frames[i][0]))
            except Exception as e:  # noqa
                ctx.fail("oracle", f"load #{i} returned although Cls().parse(payload the reference reader splits off) raises {type(e).__name__}", input=describe())
                return
            if want is not None and want != ev[1]:
                ctx.fail("oracle", f"load #{i} returned an object different from Cls().parse(payload the reference reader splits off)", input=describe())
                return
            ctx.count("ref:load_is_reference_frame_then_parse")
        else:
            if i < len(frames):
                try:
                    cls().parse(frames[i][0])
                except Exception:  # noqa
                    ctx.count("ref:load_raised_as_parse_of_reference_payload_does")
                else:
                    ctx.fail("oracle", f"load #{i} raised {type(ev[1]).__name__} although the reference reader finds a complete frame and "
                             "Cls().parse(payload) returns", input=describe())
            else:
                ctx.count("ref:load_raised_where_reference_reading_fails")
            return


def overwide_witness(ctx, bp, s):
    """the one place where ref_frame is NOT google's reading, recorded (not alarmed) on every run: a ten-byte prefix whose tenth
    byte carries bits from 2**64 on. google masks to 64 bits (size 0 here: an empty message, ten bytes consumed); betterproto
    and ref_frame keep the bits (size 2**64: the load raises)."""
    data = b"\x80" * 9 + b"\x02" + b"\x00"
    try:
        lp = g_parse_lp(ctx, data)
        try:
            s.classes[0].py().load(io.BytesIO(data), bp.SIZE_DELIMITED)
            mine = "returned"
        except Exception as e:  # noqa
            mine = "raised " + type(e).__name__
        ctx.count("ref:overwide_prefix_witness_reference_frames", len(lp))
        ctx.notes.append(f"over-wide ten-byte length prefix {data.hex()}: proto.parse_length_prefixed reads {len(lp)} frame(s) "
                         f"(value masked to 64 bits), betterproto's load {mine}; ref_frame follows betterproto (Err); streams with such a "
                         "prefix are compared up to it only")
    except Exception as e:  # noqa
        ctx.notes.append(f"over-wide prefix witness crashed: {e!r}")


def damage(rng, stream, ends):
    """a fault other than a cut, from byte k on: (kind, k, damaged stream); the first k bytes are those of `stream`"""
    n = len(stream)
    near = sorted({0, n} | set(ends) | {e - 1 for e in ends if e > 0} | {e + 1 for e in ends if e < n})
    k = rng.choice(near) if rng.random() < 0.5 else rng.randint(0, n)
    fill = rng.choice(["random", "random", "zeros", "ones"])

    def rb(m):
        if fill == "zeros":
            return bytes(m)
        if fill == "ones":
            return b"\xff" * m
        return bytes(rng.getrandbits(8) for _ in range(m))
    kind = rng.choice(["overwrite", "insert", "delete", "garbage-after"])
    if kind == "overwrite" and k < n:
        return kind + ":" + fill, k, stream[:k] + rb(n - k)
    if kind == "delete" and k < n:
        return kind, k, stream[:k] + stream[k + rng.randint(1, 4):]
    if kind == "insert":
        return kind + ":" + fill, k, stream[:k] + rb(rng.randint(1, 4)) + stream[k:]
    return "garbage-after:" + fill, n, stream + rb(rng.randint(1, 6))


def fault_stage(ctx, bp, case, full_snaps, full_ok, rt_flags, ndamage):
    """C10_loads_fault (any stream) and C10_stream_fault_any_reader / _roundtrip (written streams) on the implementation, and the
    model (loads_trace, whole_frames, ref_frame) on the damaged bytes"""
    s, stream, readers = case.s, case.stream, case.readers
    mi = lambda c: msggen.NBUILTIN + c  # noqa
    ends, pos = [], 0
    for f in case.frames:
        pos += len(f)
        ends.append(pos)
    written_ok = bool(case.written) and len(case.written) == len(case.frames)
    dks, ds2, dsum, dwhole = [], [], [], []
    for _ in range(ndamage):
        kind, k, s2 = damage(ctx.rng, stream, ends)
        desc = lambda: dict(case.describe(), damage=kind, agree_upto=k, damaged_stream_hex=s2.hex())  # noqa
        evs_k, _ = read_run(bp, s, readers, stream[:k])
        evs2, _ = read_run(bp, s, readers, s2)
        if any(ev[0] == "ok" and ev[1] is None for ev in evs_k + evs2):
            ctx.count("fault:unmodellable_result")
            continue
        ctx.cov["evaluations"] += 1
        ctx.count("fault:damaged_streams")
        ctx.count("fault:" + kind)
        lk = [ev for ev in evs_k if ev[0] == "ok"]
        ok2 = [ev for ev in evs2 if ev[0] == "ok"]
        # C10_loads_fault: every load completing inside the common k bytes returns the same message, at the same offset
        for i, ev in enumerate(lk):
            if i >= len(ok2) or ok2[i][1] != ev[1] or (len(s2) - ok2[i][2]) != (k - ev[2]):
                ctx.fail("oracle", f"two streams agreeing on their first {k} bytes ({kind}): load #{i} completes inside them on the one and "
                         "returns a different message / position (or raises) on the other", input=desc())
                break
            if i >= len(full_snaps) or full_snaps[i] != ev[1]:
                ctx.fail("oracle", f"stream cut at {k}: load #{i} returns a message different from the uncut stream's", input=desc())
                break
            ctx.count("fault:loads_inside_common_prefix_same")
        whole = None
        if written_ok:
            whole = sum(1 for e in ends if e <= k)
            if full_ok:
                need = min(whole, len(readers))
                if len(ok2) < need:
                    ctx.fail("oracle", f"stream damaged from byte {k} on ({kind}): {whole} frames lie wholly before it but only {len(ok2)} loads returned",
                             input=desc())
                elif [ev[1] for ev in ok2[:need]] != full_snaps[:need]:
                    ctx.fail("oracle", f"stream damaged from byte {k} on ({kind}): a message whose frame lies wholly before the damage came back different",
                             input=desc())
                else:
                    ctx.count("fault:whole_frames_returned_intact", need)
                    for i in range(need):
                        if rt_flags.get(i):
                            try:
                                m, payload = case.written[i][1], case.written[i][2]
                                if not (ok2[i][3] == m and bytes(ok2[i][3]) == payload):
                                    ctx.fail("oracle", f"stream damaged from byte {k} on ({kind}): message #{i} (frame before the damage) is not == the written one",
                                             input=desc())
                                ctx.count("fault:eq_written_checked")
                            except Exception as e:  # noqa
                                ctx.fail("oracle", f"comparing message #{i} of a damaged stream raised {type(e).__name__}: {e}", input=desc())
                    if len(ok2) > need:
                        ctx.count("fault:more_messages_after_the_damage")
        frames, end = ref_pair(ctx, s2, evs2, "damaged", desc())
        ref_vs_load(ctx, s, readers, s2, evs2, frames, end, desc)
        same = all(i < len(full_snaps) and ev[1] == full_snaps[i] for i, ev in enumerate(ok2))
        err = bool(evs2) and evs2[-1][0] == "err"
        dsum.append(cl([cz(len(ok2)), lib.cbool(same), cl([cz(ev[2]) for ev in ok2]), lib.cbool(err)]))
        dks.append(k)
        ds2.append(s2)
        dwhole.append(whole)
    # the model on the damaged bytes, as components of the stream's main pair (`ms` = the written objects, `s` = the stream there)
    wf_model = f"(whole_frames_cv sc{case.si} ms {nat_list(dks)})" if written_ok else "CN"
    wf_expected = cl([cz(w) for w in dwhole]) if written_ok else "CN"
    dm_model = f"(damaged_cv sc{case.si} {nat_list(mi(c) for c in readers)} s [{'; '.join(lib.coq_bytes(x) for x in ds2)}])"
    return [(wf_model, wf_expected), (dm_model, cl(dsum))], [{"agree_upto": k, "damaged_stream_hex": x.hex()} for k, x in zip(dks, ds2)]


def past_end_stage(ctx, bp, case):
    """C10_loads_past_end / C10_load_at_end: after the last message one more load raises EOFError, returns nothing, moves nothing"""
    s, stream = case.s, case.stream
    nw = len(case.written)
    readers = list(case.readers[:nw])
    if len(readers) < nw:
        return []
    mi = lambda c: msggen.NBUILTIN + c  # noqa
    st = io.BytesIO(stream)
    for ci in readers:
        try:
            s.classes[ci].py().load(st, bp.SIZE_DELIMITED)
        except Exception:  # noqa
            ctx.count("past_end:skipped_a_reader_raises")   # parse_each fails: not the theorem's hypothesis
            return []
    if st.tell() != len(stream):
        return []   # reported by the frame-exactness oracle
    fieldless = [i for i, c in enumerate(s.classes) if not c.fields]
    extra = [ctx.rng.randrange(len(s.classes))] + ([ctx.rng.choice(fieldless)] if fieldless else [])
    first = None
    for c in extra:
        try:
            o = s.classes[c].py().load(st, bp.SIZE_DELIMITED)
            out = ("returned", o)
            ctx.fail("oracle", f"a load after the last message of the stream RETURNED a {type(o).__name__} ({o!r:.200}) instead of raising EOFError",
                     input=dict(case.describe(), extra_reader=s.classes[c].name))
        except EOFError as e:
            out = ("raised", e)
            ctx.count("past_end:raised_EOFError")
        except Exception as e:  # noqa
            out = ("raised", e)
            ctx.fail("oracle", f"a load after the last message of the stream raised {type(e).__name__} ({e}) instead of EOFError",
                     input=dict(case.describe(), extra_reader=s.classes[c].name))
        if first is None:
            first = out
        if st.tell() != len(stream):
            ctx.fail("oracle", "a load after the last message moved the stream position", input=dict(case.describe(), extra_reader=s.classes[c].name))
            break
    ctx.count("past_end:streams")
    ctx.count("past_end:streams_of_%d" % min(nw, 3) + ("+" if nw >= 3 else ""))
    expected = cl([cz(nw), ce(lib.exc_kind(first[1]))]) if first[0] == "raised" else cl([cz(nw + 1), cz(0)])
    return [(f"(loads_end sc{case.si} {nat_list(mi(c) for c in readers + [extra[0]])} s)", expected)]


def unknown_profile(m):
    """(carries unknown bytes at the top level, carries unknown bytes inside a nested message)"""
    import betterproto as bp

    def nested(x):
        for f in dataclasses.fields(x):
            raw = object.__getattribute__(x, f.name)
            kids = [raw] if isinstance(raw, bp.Message) else list(raw) if isinstance(raw, list) else list(raw.values()) if isinstance(raw, dict) else []
            for y in kids:
                if isinstance(y, bp.Message) and (object.__getattribute__(y, "_unknown_fields") or nested(y)):
                    return True
        return False
    return bool(object.__getattribute__(m, "_unknown_fields")), nested(m)


def unknown_walk(a, b, path=""):
    """a = written, b = returned: (path, unknown bytes in a, in b) for every nested message present at the same place in both"""
    import betterproto as bp
    out = []
    for f in dataclasses.fields(a):
        ra, rb = object.__getattribute__(a, f.name), object.__getattribute__(b, f.name)
        if isinstance(ra, bp.Message) and isinstance(rb, bp.Message):
            kids = [(f.name, ra, rb)]
        elif isinstance(ra, list) and isinstance(rb, list):
            kids = [(f"{f.name}[{i}]", x, y) for i, (x, y) in enumerate(zip(ra, rb))]
        elif isinstance(ra, dict) and isinstance(rb, dict):
            kids = [(f"{f.name}[{k!r}]", ra[k], rb[k]) for k in ra if k == k and k in rb]
        else:
            kids = []
        for name, x, y in kids:
            # y with its flag down is a default the returned object created lazily (== reads every attribute): x was not on the wire
            if isinstance(x, bp.Message) and isinstance(y, bp.Message) and type(x) is type(y) and object.__getattribute__(y, "_serialized_on_wire"):
                out.append((path + "." + name, bytes(object.__getattribute__(x, "_unknown_fields")), bytes(object.__getattribute__(y, "_unknown_fields"))))
                out.extend(unknown_walk(x, y, path + "." + name))
    return out


def unknown_stage(ctx, bp, case, i, got_obj, got_snap, pairs, meta, rt_ok):
    """C10_stream_roundtrip_unknown for written message #i of a stream read with the writer's classes: the message carries unknown
    bytes (top level and / or inside nested messages) and came back as got_obj. The oracle on the implementation is applied when
    C01's statement holds of the message (rt_ok: Cls().parse(bytes(m)) == m - an out-of-range int or a NaN makes it false, as for
    the == oracle above); the model side (c14u_value_ok && msg_small -> the load returned normu_obj m) always."""
    ci, m, payload, lit = case.written[i]
    top, nested = unknown_profile(m)
    if not (top or nested):
        return
    ctx.count("unk:messages_with_unknown_fields")
    if nested:
        ctx.count("unk:messages_with_unknown_fields_in_nested_messages")
    desc = lambda: dict(case.describe(), message_index=i)  # noqa
    try:
        if not rt_ok:
            ctx.count("unk:oracle_skipped_c01_roundtrip_not_eq")
            raise StopIteration
        if bytes(got_obj) != payload:
            ctx.fail("oracle", f"message #{i} carries unknown fields; the message load returned re-encodes to different bytes", input=desc())
        if bytes(object.__getattribute__(got_obj, "_unknown_fields")) != bytes(object.__getattribute__(m, "_unknown_fields")):
            ctx.fail("oracle", f"message #{i}: the top-level unknown bytes did not come back intact through the delimited stream", input=desc())
        for g in range(case.s.classes[ci].ngroups):
            if bp.which_one_of(got_obj, f"g{g}")[0] != bp.which_one_of(m, f"g{g}")[0]:
                ctx.fail("oracle", f"message #{i} (with unknown fields): which_one_of(g{g}) differs after the delimited stream", input=desc())
        walked = unknown_walk(m, got_obj)
        for path, ua, ub in walked:
            if ua != ub:
                ctx.fail("oracle", f"message #{i}: the unknown bytes of the nested message at {path} did not come back intact through the delimited "
                         f"stream (written {ua.hex()[:80]}, returned {ub.hex()[:80]})", input=desc())
                break
        ctx.count("unk:nested_unknown_byte_strings_returned_intact", sum(1 for _p, ua, _ub in walked if ua))
    except StopIteration:
        pass
    except Exception as e:  # noqa
        ctx.fail("oracle", f"comparing message #{i} (unknown fields) with the returned one raised {type(e).__name__}: {e}", input=desc())
    sc = f"sc{case.si}"
    pairs.append((f"(cbool (unk_hyp {sc} {lit}))", cz(1)))
    meta.append((case, {"message_index": i, "nested": nested}, "HYP"))
    pairs.append((f"(cbool (unk_rt {sc} {lit} {got_snap}))", cz(1)))
    meta.append((case, {"message_index": i}, "message with unknown fields: c14u_value_ok && msg_small -> load returned normu_obj (C10_stream_roundtrip_unknown)"))


def nested_user_messages(s, m):
    """[(user class index, message)] of the messages nested in m (any depth)"""
    import betterproto as bp
    out = []
    for f in dataclasses.fields(m):
        raw = object.__getattribute__(m, f.name)
        kids = [raw] if isinstance(raw, bp.Message) else list(raw) if isinstance(raw, list) else list(raw.values()) if isinstance(raw, dict) else []
        for x in kids:
            if isinstance(x, bp.Message) and type(x) in s.index_of and s.index_of[type(x)] >= msggen.NBUILTIN:
                out.append((s.index_of[type(x)] - msggen.NBUILTIN, x))
                out.extend(nested_user_messages(s, x))
    return out


def add_nested_unknown(ctx, s, m, rng):
    """unknown records inside the nested messages of m, the way a decoder of an older schema holds them (parse: flag up) or as raw
    state (flag untouched); returns the number of nested messages that got some"""
    n = 0
    for cj, x in nested_user_messages(s, m):
        if rng.random() < 0.6:
            unk = msggen.gen_unknown(rng, {f.number for f in s.classes[cj].fields})
            if rng.random() < 0.7:
                x.parse(unk)
            else:
                object.__setattr__(x, "_unknown_fields", bytes(object.__getattribute__(x, "_unknown_fields")) + unk)
            n += 1
    return n


# --------------------------------------------------------------------------------------------------
# building streams
# --------------------------------------------------------------------------------------------------
def write_message(bp, s, ci, m):
    """snapshot BEFORE dumping, then the frame and the payload; None when the message cannot be dumped / modelled"""
    try:
        lit = msggen.obj_literal(s, m)
    except msggen.Unmodellable:
        return None
    st = io.BytesIO()
    try:
        m.dump(st, bp.SIZE_DELIMITED)
        payload = bytes(m)
    except Exception:  # noqa
        return "unencodable", lit
    return st.getvalue(), payload, lit


def gen_stream(ctx, bp, si, s, old_of, rng):
    nmsg = rng.choice([0, 1, 2, 2, 3, 3, 4, 5, 6])
    nuser = len(s.classes)
    written, frames = [], []
    force = rng.choice(["empty", "unknown", "nested", "nested_unknown", "nested_unknown", None, None])
    for j in range(nmsg):
        ci = rng.randrange(nuser)
        try:
            if force == "empty" and j == 0:
                m = s.classes[ci].py()
            else:
                m = msggen.gen_message(s, ci, rng, in_range=rng.random() < 0.93, p_set=rng.choice([0.0, 0.3, 0.6]) if rng.random() < 0.6 else None)
                if force == "nested_unknown" and j <= 2:
                    # gap tie (3): unknown records INSIDE nested messages (redraw a few times until the message has nested ones)
                    for _try in range(6):
                        if nested_user_messages(s, m):
                            break
                        ci = rng.randrange(nuser)
                        m = msggen.gen_message(s, ci, rng, in_range=True, p_set=rng.choice([0.6, 0.9]))
                    if add_nested_unknown(ctx, s, m, rng):
                        ctx.count("frame_with_unknown_fields_forced_into_nested_messages")
                if force == "unknown" and j <= 1:
                    m.parse(msggen.gen_unknown(rng, {f.number for f in s.classes[ci].fields}))
                    if rng.random() < 0.5:
                        # an unknown group holding a group (proto2 data relayed by an older reader): every tag byte counts
                        # against the frame's size (seeded change C10-5)
                        known = {f.number for f in s.classes[ci].fields}
                        num = next(n for n in (19, 99, 3000, 70000) if n not in known)
                        ev = msggen.enc_varint
                        m.parse(ev((num << 3) | 3) + ev((2 << 3) | 3) + ev((1 << 3) | 0) + ev(rng.getrandbits(12))
                                + ev((2 << 3) | 4) + ev((7 << 3) | 5) + bytes(4) + ev((num << 3) | 4))
                        ctx.count("frame_with_nested_unknown_group")
        except Exception as e:  # noqa
            ctx.count("construct_error:" + type(e).__name__)
            continue
        w = write_message(bp, s, ci, m)
        if w is None:
            ctx.count("unmodellable")
            continue
        if w[0] == "unencodable":
            # a dump that raises must leave the stream as it was: the application that catches the error and goes on writing
            # gets a stream of exactly the messages whose dump returned (seeded change C10-6: the length prefix written before
            # the value error surfaces)
            try:
                st = io.BytesIO()
                st.write(b"".join(frames))
                pos = st.tell()
                try:
                    m.dump(st, bp.SIZE_DELIMITED)
                except Exception:  # noqa
                    pass
                if st.tell() != pos or st.getvalue() != b"".join(frames):
                    ctx.fail("oracle", f"dump(stream, SIZE_DELIMITED) of a message that cannot be encoded raised after writing "
                             f"{st.tell() - pos} byte(s) ({st.getvalue()[pos:].hex()[:60]}) to the stream: every later frame is mis-framed",
                             input={"schema_spec": spec_of_schema(s), "class": s.classes[ci].name, "repr": repr(m)[:600],
                                    "stream_before_hex": b"".join(frames).hex()[:400]})
                ctx.count("failed_dump_left_stream_untouched_checked")
            except Exception as e:  # noqa
                ctx.notes.append(f"failed-dump check crashed: {e!r}")
            ctx.count("unencodable_message_skipped")
            continue
        frame, payload, lit = w
        written.append((ci, m, payload, lit))
        frames.append(frame)
        ctx.count("frame_empty" if not payload else "frame_nonempty")
        if rng.random() < 0.3 and len(written) < 7:
            # the SAME object written a second time after an in-place change (list append / dict store / assignment inside a
            # child: nothing Message.__setattr__ sees) - the second frame's prefix must be the length of the second body
            # (seeded change C10-4: a size remembered from the first dump)
            import copy as _copy
            try:
                keep = _copy.deepcopy(m)
                kind = msggen.mutate_in_place(s, ci, m, rng)
            except Exception:  # noqa
                kind = None
            if kind:
                written[-1] = (ci, keep, payload, lit)
                w2 = write_message(bp, s, ci, m)
                if w2 is not None and w2[0] != "unencodable":
                    written.append((ci, m, w2[1], w2[2]))
                    frames.append(w2[0])
                    ctx.count("frame_same_object_rewritten:" + kind.split(":")[0])
        if object.__getattribute__(m, "_unknown_fields"):
            ctx.count("frame_with_unknown_fields")
        if msggen.depth_of(m) > 1:
            ctx.count("frame_nested")
    mode = rng.choice(["same", "same", "same", "older", "older", "other"])
    if force == "nested_unknown" and rng.random() < 0.7:
        mode = "same"
    if mode == "same":
        readers = [w[0] for w in written]
    elif mode == "older":
        readers = [old_of.get(w[0], w[0]) for w in written]
    else:
        readers = [rng.randrange(nuser) for _ in written]
    if rng.random() < 0.25:
        readers = readers + [rng.randrange(nuser)]  # one load more than there are frames: must raise at EOF
    ctx.count("mode_" + mode)
    return Case(mode, si, s, written, frames, readers)


def gen_fault_stream(ctx, bp, si, s, rng):
    """frames whose payload or length prefix is wrong: the three size errors, faults inside a correct frame"""
    nuser = len(s.classes)
    frames, readers, written, wellformed = [], [], [], []
    for _ in range(rng.randint(1, 3)):
        ci = rng.randrange(nuser)
        try:
            m = msggen.gen_message(s, ci, rng, in_range=True)
            payload = bytes(m)
        except Exception:  # noqa
            continue
        r = rng.random()
        if r < 0.2:
            # NOT a fault: a correct frame whose payload carries raw unknown records the writer never parsed (groups holding
            # groups included), as a relay or a newer writer produces them - every leading frame of this kind must be read
            known = {f.number for f in s.classes[ci].fields}
            ev = msggen.enc_varint
            num = next(n for n in (19, 99, 3000, 70000) if n not in known)
            nested = (ev((num << 3) | 3) + ev((2 << 3) | 3) + ev((1 << 3) | 0) + ev(rng.getrandbits(12)) + ev((2 << 3) | 3)
                      + ev((2 << 3) | 4) + ev((2 << 3) | 4) + ev((7 << 3) | 5) + bytes(4) + ev((num << 3) | 4))
            extra = msggen.gen_unknown(rng, known) + (nested if rng.random() < 0.7 else b"")
            cut = rng.randint(0, 1) * len(payload)
            payload2 = payload[:cut] + extra + payload[cut:]
            if rng.random() < 0.5 and s.classes[ci].fields:
                # ... and, as the LAST record of the frame, a KNOWN field number with a wire type its declared type cannot have
                # (what an older reader sees when a field changed its type): kept as unknown, and the frame ends right after it
                # (seeded change C10-9: the end-of-frame test missing from the non-fitting-wire-type branch)
                f = rng.choice(s.classes[ci].fields)
                want = {"string": 2, "bytes": 2, "message": 2, "map": 2, "double": 1, "fixed64": 1, "sfixed64": 1,
                        "float": 5, "fixed32": 5, "sfixed32": 5}.get(f.proto_type, 0)
                if want == 2 or (f.card == "repeated"):
                    misfit = ev((f.number << 3) | 0) + ev(rng.getrandbits(20)) if want == 2 else ev((f.number << 3) | (5 if want != 5 else 1)) + bytes(4 if want != 5 else 8)
                else:
                    misfit = ev((f.number << 3) | (5 if want != 5 else 1)) + bytes(4 if want != 5 else 8)
                payload2 = payload2 + misfit
                ctx.count("raw_frame_ends_with_misfit_record")
            frames.append(msggen.enc_varint(len(payload2)) + payload2)
            readers.append(ci)
            wellformed.append(True)
            ctx.count("raw_unknown_spliced_frame")
            continue
        wellformed.append(False)
        if r < 0.35 and payload:
            kind, payload2 = rng.choice(wiregen.faults(payload, rng, budget=8))
            frame = msggen.enc_varint(len(payload2)) + payload2
            ctx.count("fault_payload_" + kind)
        elif r < 0.6:
            n = max(0, len(payload) + rng.choice([-3, -2, -1, 1, 2, 5]))
            frame = msggen.enc_varint(n) + payload
            ctx.count("fault_prefix_wrong")
        elif r < 0.7:
            frame = wiregen.pad_varint(len(payload), rng.choice([1, 2])) + payload
            ctx.count("fault_prefix_padded")
        elif r < 0.8:
            frame = b"\xff" * 10 + b"\x01" + payload
            ctx.count("fault_prefix_too_long")
        else:
            frame = msggen.enc_varint(len(payload)) + payload
        frames.append(frame)
        readers.append(ci)
    case = Case("fault", si, s, written, frames, readers)
    case.wellformed = wellformed
    return case


def check_fault_case(ctx, bp, case, pairs, meta):
    s, stream, readers = case.s, case.stream, case.readers
    events, after = read_run(bp, s, readers, stream)
    if any(ev[0] == "ok" and ev[1] is None for ev in events):
        return
    ctx.cov["evaluations"] += 1
    # oracle: the leading frames that are correct frames around well-formed payloads are read, each exactly
    lead = 0
    for ok in getattr(case, "wellformed", []):
        if not ok:
            break
        lead += 1
    end = 0
    for i in range(lead):
        end += len(case.frames[i])
        if i >= len(events) or events[i][0] != "ok":
            what = "no load" if i >= len(events) else f"{type(events[i][1]).__name__}: {events[i][1]}"
            ctx.fail("oracle", f"frame #{i} is complete and its payload is a well-formed record sequence (unknown records and nested groups spliced in), "
                     f"but load raised ({what})", input=case.describe())
            break
        if len(stream) - events[i][2] != end:
            ctx.fail("oracle", f"load #{i} stopped at offset {len(stream) - events[i][2]}, its frame ends at {end}", input=case.describe())
            break
        try:
            n0, p0 = wiregen.read_varint(case.frames[i], 0)
            want = snapshot(s, s.classes[readers[i]].py().parse(case.frames[i][p0:]))
            if events[i][1] != want:
                ctx.fail("oracle", f"load #{i} returned an object different from Cls().parse(payload)", input=case.describe())
        except Exception:  # noqa
            pass
    # oracle: a load that returns has consumed exactly prefix + announced size
    pos = 0
    for ev in events:
        if ev[0] != "ok":
            break
        try:
            n, p2 = wiregen.read_varint(stream, pos)
        except wiregen.WireError:
            ctx.fail("oracle", "a load returned although the length prefix is not a readable varint", input=case.describe())
            break
        if len(stream) - ev[2] != p2 + n:
            ctx.fail("oracle", f"a load announced {n} bytes at offset {pos} and stopped at {len(stream) - ev[2]} instead of {p2 + n}", input=case.describe())
        pos = len(stream) - ev[2]
    if "ok" in after:
        ctx.count("fault_load_after_exception_returned")  # position after an exception is unspecified; recorded only
    mi = lambda c: msggen.NBUILTIN + c  # noqa
    # gap tie: the reference reader on the fault stream; C10_load_ref_frame and C10_loads_fault on the implementation
    gfr, gend = ref_pair(ctx, stream, events, "fault", case.describe())
    ref_vs_load(ctx, s, readers, stream, events, gfr, gend, case.describe)
    dcomps, dinfo = fault_stage(ctx, bp, case, [ev[1] for ev in events if ev[0] == "ok"], False, {}, 1)
    pairs.append((f"(let s := {lib.coq_bytes(stream)} in CL [CL (loads_trace sc{case.si} {nat_list(mi(c) for c in readers)} s); {dcomps[1][0]}])",
                  f"(CL [CL {trace_cv(events)}; {dcomps[1][1]}])"))
    meta.append((case, None, {"damaged": dinfo}))


# --------------------------------------------------------------------------------------------------
# regression corpus
# --------------------------------------------------------------------------------------------------
def corpus_cases(ctx, bp, base_si):
    out = []
    spec = json.load(open(CORPUS))
    for k, entry in enumerate(spec["cases"]):
        s = schema_of_spec(entry["schema"])
        names = {c.name: i for i, c in enumerate(s.classes)}
        written, frames = [], []
        for cname, kwargs in entry["write"]:
            ci = names[cname]
            kw = dict(kwargs)
            unknown = kw.pop("__unknown_hex__", None)
            m = s.classes[ci].py(**kw)
            if unknown:
                m.parse(bytes.fromhex(unknown))
            w = write_message(bp, s, ci, m)
            if w is None or w[0] == "unencodable":
                ctx.fail("oracle", f"corpus case {entry['name']}: message cannot be written", input=entry)
                continue
            frame, payload, lit = w
            if "frames_hex" in entry:
                want = entry["frames_hex"][len(frames)]
                if frame.hex() != want:
                    ctx.fail("oracle", f"corpus case {entry['name']}: dump(stream, SIZE_DELIMITED) wrote {frame.hex()}, expected {want}", input=entry)
            written.append((ci, m, payload, lit))
            frames.append(frame)
        readers = [names[n] for n in entry["read"]]
        label = ("corpus-same:" if entry["read"] == [w[0] for w in entry["write"]] else "corpus-older:") + entry["name"]
        out.append(Case(label, base_si + k, s, written, frames, readers))
        ctx.count("corpus_cases")
    return out


# --------------------------------------------------------------------------------------------------
def failed_dump_witnesses(ctx, bp, s):
    """messages that cannot be encoded, one per way of failing (float32 overflow, fixed-width range, varint range, lone surrogate),
    dumped delimited after a good frame: the call must raise and the stream must hold exactly the good frame afterwards"""
    names = {c.name: c for c in s.classes}
    KP, KR = names["KPlain"].py, names["KRepeated"].py
    fld = lambda c, pt, kind="scalar": [f.name for f in names[c].fields if f.elem.kind == kind and f.elem.pt == pt][0]  # noqa
    good = io.BytesIO()
    KP(**{fld("KPlain", "int32"): 5}).dump(good, bp.SIZE_DELIMITED)
    good = good.getvalue()
    bad = [("float32 overflow", KP(**{fld("KPlain", "float"): 1e39})),
           ("fixed32 out of range", KP(**{fld("KPlain", "fixed32"): 2 ** 32})),
           ("sfixed64 out of range", KP(**{fld("KPlain", "sfixed64"): 2 ** 63})),
           ("varint below -2**63", KP(**{fld("KPlain", "int64"): -2 ** 63 - 1})),
           ("lone surrogate", KP(**{fld("KPlain", "string"): "ab\ud800"})),
           ("repeated fixed32 out of range, after good elements", KR(**{fld("KRepeated", "fixed32"): [1, 2, 2 ** 32]})),
           ("second field fails after the first was encodable", KP(**{fld("KPlain", "int32"): 7, fld("KPlain", "float"): -1e39}))]
    for what, m in bad:
        st = io.BytesIO()
        st.write(good)
        raised = False
        try:
            m.dump(st, bp.SIZE_DELIMITED)
        except Exception:  # noqa
            raised = True
        ctx.count("failed_dump_witnesses")
        if not raised:
            ctx.fail("oracle", f"dump(stream, SIZE_DELIMITED) of a message that cannot be encoded ({what}) returned", input={"what": what, "repr": repr(m)[:300]})
        elif st.getvalue() != good:
            ctx.fail("oracle", f"dump(stream, SIZE_DELIMITED) of a message that cannot be encoded ({what}) raised AFTER writing "
                     f"{len(st.getvalue()) - len(good)} byte(s) ({st.getvalue()[len(good):].hex()[:60]}): the stream no longer is a sequence of frames",
                     input={"what": what, "repr": repr(m)[:300], "stream_before_hex": good.hex()})


def run(ctx):
    import betterproto as bp
    import sys, time
    tstart = time.time()
    rng = ctx.rng
    thorough = ctx.thorough
    schemas, olds = [], []
    for s0 in [msggen.matrix_schema()] + [msggen.random_schema(rng) for _ in range(5 if not thorough else 30)]:
        s, old_of = evolve(s0, rng)
        schemas.append(s)
        olds.append(old_of)
    pairs, meta = [], []
    ctx.c10_ref = ([], [])
    failed_dump_witnesses(ctx, bp, schemas[0])
    overwide_witness(ctx, bp, schemas[0])
    budget = 220 if not thorough else 600
    n_streams = 22 if not thorough else 70
    cases = []
    for si, s in enumerate(schemas):
        k = n_streams * (2 if si == 0 else 1)
        for _ in range(k):
            cases.append(gen_stream(ctx, bp, si, s, olds[si], rng))
        for _ in range(k // 2):
            fc = gen_fault_stream(ctx, bp, si, s, rng)
            if fc.frames:
                check_fault_case(ctx, bp, fc, pairs, meta)
    corpus = corpus_cases(ctx, bp, len(schemas))
    for c in corpus:
        schemas.append(c.s)
    for case in corpus + cases:
        try:
            check_case(ctx, bp, case, pairs, meta, budget, 40, ndamage=2 if not thorough else 4)
        except Exception as e:  # noqa
            ctx.fail("oracle", f"checking a stream raised {type(e).__name__}: {e}", input=case.describe())
    for case in cases[:6]:
        if case.frames:
            ctx.sample({"mode": case.label, "readers": [case.s.classes[c].name for c in case.readers], "stream": case.stream.hex()[:160]})
    prelude = "\n".join(f"Definition sc{i} : schema := {s.coq()}." for i, s in enumerate(schemas))
    # the schema hypothesis of the round-trip theorems (C10_stream_roundtrip_unknown among them) on every schema used
    for i in range(len(schemas)):
        pairs.append((f"(cbool (c01_schema_ok sc{i}))", cz(1)))
        meta.append((None, {"schema_index": i}, "a generated schema does not satisfy c01_schema_ok: the round-trip theorems would be vacuous on it"))
    import sys, time
    t0 = time.time()
    tnote = f"python stage {t0 - tstart:.1f}s; {len(pairs)} pairs, {sum(len(a) + len(b) for a, b in pairs)} chars"
    # the schema-free pairs (reference reader) have their own case files without the schema prelude; evaluated concurrently
    import threading, types
    rpairs, rmeta = ctx.c10_ref
    side = types.SimpleNamespace(work=ctx.work, cov={"traces_validated_against_impl": 0}, out=None, err=None)

    def ref_compare():
        try:
            side.out = lib.coq_compare(side, "c10ref", "Model.C10GapCv", rpairs, chunk=max(40, len(rpairs) // 12 + 1))
        except BaseException as e:  # noqa
            side.err = e
    th = threading.Thread(target=ref_compare)
    th.start()
    try:
        bad = lib.coq_compare(ctx, "c10", IMPORTS, pairs, chunk=24, prelude=prelude)
    finally:
        th.join()
    if side.err is not None:
        raise side.err
    ctx.cov["traces_validated_against_impl"] += side.cov["traces_validated_against_impl"]
    tnote += f"; coq_compare {time.time() - t0:.1f}s"
    t0 = time.time()
    hyp_false = {i for i in bad if len(meta[i]) == 3 and meta[i][2] == "HYP"}
    nhyp = sum(1 for mt in meta if len(mt) == 3 and mt[2] == "HYP")
    ctx.count("unk:c14u_value_ok_and_small_true", nhyp - len(hyp_false))
    ctx.count("unk:c14u_value_ok_and_small_true_with_nested_unknown",
              sum(1 for i, mt in enumerate(meta) if len(mt) == 3 and mt[2] == "HYP" and mt[1]["nested"] and i not in hyp_false))
    ctx.count("unk:hypothesis_false", len(hyp_false))
    if nhyp and nhyp == len(hyp_false):
        ctx.notes.append("no generated message with unknown fields satisfied c14u_value_ok && msg_small in this run")
    reported = 0
    for i in bad:
        if i in hyp_false:
            continue
        reported += 1
        if reported > 20:
            break
        if len(meta[i]) == 3 and isinstance(meta[i][2], dict):
            case = meta[i][0]
            ctx.fail("corr", "model (dump_stream / loads on the whole stream; loads_end with one load more; whole_frames and loads on the damaged "
                     "copies) and implementation disagree", input=dict(case.describe(), model_expr=pairs[i][0][:3000], implementation=pairs[i][1][:3000], **meta[i][2]))
            continue
        if len(meta[i]) == 3:
            case, extra, tag = meta[i]
            inp = dict(case.describe() if case is not None else {}, model_expr=pairs[i][0][:3000], implementation=pairs[i][1][:3000])
            if isinstance(extra, dict):
                inp.update(extra)
            elif extra is not None:
                inp["cuts"] = list(extra)[:400]
            ctx.fail("corr", "gap tie, " + tag + ": the specification-side function and the implementation / reference disagree", input=inp)
            continue
        case, ks = meta[i]
        ctx.fail("corr", "model (dump_stream / loads on the whole stream)" if ks is None else "model (loads on every cut of the stream)"
                 + " and implementation disagree", input=dict(case.describe(), model_expr=pairs[i][0][:3000], implementation=pairs[i][1][:3000]))
    rbad = side.out
    ctx.notes.append(f"timing: {tnote} (concurrently: {len(rpairs)} schema-free reference pairs, {sum(len(a) + len(b) for a, b in rpairs)} chars)")
    ctx.count("ref:pairs_evaluated_in_coq", len(rpairs))
    for i in rbad[:10]:
        inp, what = rmeta[i]
        ctx.fail("corr", f"gap tie ({what}): ref_frame / ref_frames (Model/C10GapDefs.v) disagree with google.protobuf's length-prefixed reading of the "
                 "same bytes (first two components) or with the positions betterproto's loads left (last component)",
                 input=dict(inp, model_expr=rpairs[i][0][:3000], reference_and_implementation=rpairs[i][1][:3000]))
    ctx.cov["disagreements_checked"] = len(pairs) + len(rpairs)
    t3(ctx, bp, rng)
    for s in schemas:
        s.dispose()


# --------------------------------------------------------------------------------------------------
# T3: the reference implementation reads and writes the same framing
# --------------------------------------------------------------------------------------------------
def t3(ctx, bp, rng):
    from google.protobuf import descriptor_pb2, descriptor_pool, message_factory, proto
    kinds = ["double", "float", "int32", "int64", "uint32", "uint64", "sint32", "sint64", "fixed32", "fixed64",
             "sfixed32", "sfixed64", "bool", "string", "bytes"]
    fdp = descriptor_pb2.FileDescriptorProto(name=f"c10_{ctx.seed}.proto", package="c10", syntax="proto3")
    T = descriptor_pb2.FieldDescriptorProto
    ms = fdp.message_type.add(name="S")
    for i, k in enumerate(kinds):
        ms.field.add(name=f"f_{k}", number=i + 1, type=getattr(T, "TYPE_" + k.upper()), label=T.LABEL_OPTIONAL)
    ms.field.add(name="rep", number=20, type=T.TYPE_INT32, label=T.LABEL_REPEATED)
    fdp.message_type.add(name="E")
    pool = descriptor_pool.DescriptorPool()
    pool.Add(fdp)
    RefS = message_factory.GetMessageClass(pool.FindMessageTypeByName("c10.S"))
    RefE = message_factory.GetMessageClass(pool.FindMessageTypeByName("c10.E"))
    pytypes = {"double": float, "float": float, "bool": bool, "string": str, "bytes": bytes}
    from typing import List
    S = dataclasses.make_dataclass(
        "S", [(f"f_{k}", pytypes.get(k, int), getattr(bp, f"{k}_field")(i + 1)) for i, k in enumerate(kinds)]
        + [("rep", List[int], bp.int32_field(20))], bases=(bp.Message,), eq=False, repr=False)
    E = dataclasses.make_dataclass("E", [], bases=(bp.Message,), eq=False, repr=False)
    S.__module__ = E.__module__ = __name__
    globals()["S"], globals()["E"] = S, E

    def value(k):
        if k in msggen.INT_RANGE:
            return msggen.gen_int(k, rng)
        if k == "bool":
            return True
        if k == "string":
            return rng.choice(["a", "é€", "x" * 130, "\U0001f600"])
        if k == "bytes":
            return rng.choice([b"\x00", b"abc", bytes(range(200))])
        v = rng.choice([1.0, -1.5, 0.5, 16777216.0, 2.0 ** -126, float("inf")])
        return v
    n_streams = 60 if not ctx.thorough else 400
    nframes = 0
    for _ in range(n_streams):
        seq = []
        for _ in range(rng.randint(0, 6)):
            if rng.random() < 0.25:
                seq.append((E(), RefE()))
                continue
            kw = {f"f_{k}": value(k) for k in kinds if rng.random() < 0.3}
            kw = {k: v for k, v in kw.items() if v or isinstance(v, bool) and v}
            rep = [msggen.gen_int("int32", rng) for _ in range(rng.choice([0, 0, 1, 3]))]
            seq.append((S(rep=rep, **kw), RefS(rep=rep, **kw)))
        mine, ref = io.BytesIO(), io.BytesIO()
        try:
            for m, r in seq:
                m.dump(mine, bp.SIZE_DELIMITED)
                proto.serialize_length_prefixed(r, ref)
            a, b = mine.getvalue(), ref.getvalue()
            inp = {"t3": True, "betterproto_stream": a.hex(), "reference_stream": b.hex()}
            if a != b:
                ctx.fail("oracle", "T3: betterproto's delimited stream differs from google.protobuf.proto.serialize_length_prefixed", input=inp)
                continue
            # the reference reads betterproto's stream
            st = io.BytesIO(a)
            for m, r in seq:
                got = proto.parse_length_prefixed(type(r), st)
                if got is None or got.SerializeToString() != bytes(m):
                    ctx.fail("oracle", "T3: parse_length_prefixed on betterproto's stream does not return the written message", input=inp)
                    break
            else:
                if proto.parse_length_prefixed(RefE, st) is not None:
                    ctx.fail("oracle", "T3: reference finds a further message on betterproto's stream", input=inp)
            # betterproto reads the reference's stream
            st = io.BytesIO(b)
            for m, r in seq:
                got = type(m)().load(st, bp.SIZE_DELIMITED)
                if bytes(got) != r.SerializeToString() or got != m:
                    ctx.fail("oracle", "T3: load(SIZE_DELIMITED) on the reference's stream does not return the written message", input=inp)
                    break
            if st.tell() != len(b):
                ctx.fail("oracle", "T3: betterproto did not consume the reference's stream exactly", input=inp)
            nframes += len(seq)
            if seq:
                ctx.seen_nontrivial(("t3", a))
        except Exception as e:  # noqa
            ctx.fail("oracle", f"T3 raised {type(e).__name__}: {e}", input={"t3": True})
    ctx.count("t3_streams", n_streams)
    ctx.count("t3_frames", nframes)
    ctx.cov["evaluations"] += n_streams


def finish(ctx):
    return lib.finish(
        ctx, "proof",
        "Coq theorems over the Gallina mirror of Message.dump / __len__ / load (size accounting) + executable correspondence (vm_compute) with the "
        "implementation on whole streams and every cut point + reference implementation (google.protobuf length-prefixed API) on the same streams",
        ASSUMPTIONS, TRUSTED, RULE,
        extra_cov={"explanation": "theorems are unbounded (all schemas, classes, message lists, continuations and cut points); the correspondence samples "
                                  "schemas and message lists and is exhaustive over the cut points of each sampled stream up to the size budget"})


def replay(ctx, obj):
    """re-run the read side of a recorded failing case on the current implementation"""
    import betterproto as bp
    inp = obj.get("input") or {}
    print(json.dumps({k: v for k, v in obj.items() if k != "input"}, indent=1)[:3000])
    if "schema_spec" not in inp:
        print(json.dumps(inp, indent=1)[:4000])
        return 0
    s = schema_of_spec(inp["schema_spec"])
    data = bytes.fromhex(inp["stream_hex"])
    cut = inp.get("cut")
    for label, d in [("whole stream", data)] + ([(f"cut at {cut}", data[:cut])] if cut is not None else []):
        events, after = read_run(bp, s, inp["reader_indices"], d)
        print(f"-- {label}: {len(d)} bytes, frames {inp.get('frames_hex')}")
        for ev in events:
            print("   ", "returned, %d bytes unread: %s" % (ev[2], repr(ev[3])[:300]) if ev[0] == "ok" else "raised %s: %s" % (type(ev[1]).__name__, ev[1]))
        if after:
            print("    loads after the exception:", after)
    return 0
