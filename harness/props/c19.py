"""C19 — name mapping: correspondence (T2, exhaustive sweeps by checksum + case by case),
end-to-end oracle through the public field API (to_dict -> from_dict), known findings K10/K11."""
import builtins
import dataclasses
import itertools
import keyword
import os
import re
from concurrent.futures import ThreadPoolExecutor

from .. import lib
from ..lib import cb, cl, ce, coq_bytes, cbool, CN

IMPORTS = "Model.Casing"
GAP_IMPORTS = "Model.Casing Model.C19GapDefs Model.C19GapCv"
EXTRA_TARGETS = ["Model/C19GapCv.vo"]            # evaluation helpers of the stage "gap tie"; no Properties file depends on it
A8 = "abAB01_."                 # the alphabet of the design probe: two lower, two upper, two digits, "_", "."
ABOUND = "azAZ09_.-@[`{/:"      # range ends of [a-z] [A-Z] [0-9] and the ASCII characters just outside them
ADEEP = "aB1_"                  # thorough tier: longer strings over a small alphabet

CLS_PASCAL = "pascal-not-idempotent"            # K10
CLS_CLASS = "class-name-not-sanitised"          # K11
CLS_SIBLING = "sibling-attribute-collision"     # K38
WITNESSES = ["address_line_1", "x_y_z", "a_b", "_", "_1", "none", "HTTPStatus", "fooBAR", "ipv4_address", "from",
             "a_b_c", "ab_c_d", "x_y1_z", "x_y_z1", "x_y_zz", "line_1a", "_1_a", "a1_2", "None", "true", "False"]

TRUSTED = [
    "Coq 8.16.1 kernel and vm_compute (no native_compute); full .vo build via coq_makefile",
    "axioms: none (every theorem of Properties/C19.v is 'Closed under the global context')",
    "hand-written model coq/Model/Casing.v: the three regexes of casing.py as ONE deterministic word scanner (derived by hand from "
    "the greedy/backtracking semantics of Python's re); tied to the real re.sub-based functions by this harness on every run: "
    "exhaustive sweeps compared by a checksum folded inside Coq (vm_compute) and recomputed over the real functions' outputs",
    "specification coq/Spec/C19Regex.v: parser of the regex subset, backtracking matcher (priority order, captures, negative "
    "lookahead, zero-width protection of repeats) and the re.sub loop of CPython (empty matches, must_advance) with the "
    "substitute_word callbacks of casing.py; the scanner is PROVED to compute exactly this on the live pattern strings "
    "(C19_snake_case_is_re_sub, C19_pascal_case_is_re_sub, C19_camel_case_is_re_sub); the specification itself is tied to "
    "CPython's re by correspondence on every run: random patterns of the subset x random subjects, a list of engine quirks, the "
    "two live patterns on the names of the run, every group of every match compared (stage 'regex spec')",
    "specification coq/Spec/C19Unicode.v: the same matcher on the CODE POINTS of a str, UTF-8 encoding; proved: casing on code "
    "points, then UTF-8 = the model on the UTF-8 bytes (C19_*_code_points); compared with the real functions on non-ASCII strings",
    "class-level predicates coq/Model/C19GapDefs.v (fields_of, legacy_rule_ok, json_rule_ok, keys_back), which the gap-closing theorems "
    "are stated over: evaluated by vm_compute (coq/Model/C19GapCv.v) on generated lists of 2-5 sibling proto field names on every run "
    "and compared with a real message class built from the same names through the public field API (attributes, the key each field "
    "emits under both casings, delivery of camelCase key / snake_case key / proto name by from_dict in class and instance form and by "
    "from_pydict, the whole object through to_dict -> from_dict), with a Python reading of the two protoc rules "
    "(ToLowercaseWithoutUnderscores, ToJsonName), and - on a sample - with the verdict of the real protoc and the attributes the real "
    "plugin generates (stage 'gap tie'); the rule of protoc <= 21 itself has no executable reference in this sandbox (libprotoc 35.1)",
    "translators harness/gen_c19.py (regex source strings and the patterns actually passed to re.sub, compared in Model/Casing.v) "
    "and harness/gen_tables.py (keyword.kwlist of the running interpreter)",
    "Python side: enumeration order of the sweeps, Fletcher checksum, dynamic construction of one-field / few-field message classes "
    "with dataclasses.make_dataclass(bases=(betterproto.Message,)), classification of failing inputs into finding classes",
    "oracles: CPython 3.12 re, str.isidentifier, keyword.iskeyword/kwlist/softkwlist",
]
ASSUMPTIONS = [
    "str is modelled by its UTF-8 bytes; only ASCII letters/digits are word characters for the regexes, every other code point "
    "(non-ASCII letters included) is a delimiter, so the strict casing functions are right on all UTF-8 text (now a theorem "
    "relative to Spec/C19Unicode.v: C19_snake_case_code_points, C19_pascal_case_code_points, C19_camel_case_code_points; "
    "str.lower/capitalize are modelled on ASCII letters only, which is all the callbacks receive)",
    "sanitize_name / isidentifier / lowercase_first / pythonize_enum_member_name are modelled for ASCII input only "
    "(their theorems quantify over strings of [A-Za-z0-9_])",
    "non-strict mode (strict=False) of snake_case/pascal_case/camel_case is not modelled: nothing in the library or the plugin calls it",
    "the from_dict key lookup is modelled as in fixes/c19-from-dict-key-lookup.patch (table of camelCase keys, then safe_snake_case)",
]
RULE = ("every string of length <= N over {a,b,A,B,0,1,_,.} (N=5 quick, 6 thorough) and of length <= 3/4 over the 15 range-boundary "
        "characters, by checksum; keyword.kwlist, softkwlist, dir(builtins), the corpus corpus/C19-names.txt and random word-structured "
        "identifiers case by case; one-field message classes for every distinct Python field name reached, few-field classes for "
        "colliding names; non-trivial = the name has >= 2 words or needs sanitising; distinct = distinct input string; gap tie: "
        "30-odd fixed lists plus 300 (quick) / 3000 (thorough) random lists of 2-5 sibling proto identifiers spelled from a small word "
        "list (about a third built to violate the rule of protoc <= 21: the same words spelled twice), 24 / 200 of them through protoc; "
        "counted per verdict combination under gap_class:* / gap_protoc:*")


# ----------------------------------------------------------------------------------------------
def fl_mix(h, x):
    a = h[0] + x + 1
    return (a, h[1] + a)


def fl_bytes(h, s):
    bs = s.encode("utf-8")
    h = fl_mix(h, len(bs))
    for b in bs:
        h = fl_mix(h, b)
    return h


def cs(s):
    return cb(s.encode("utf-8"))


def qb(s):
    return coq_bytes(s.encode("utf-8"))


def lower_words(C, s):
    """lower-cased words of s as the implementation sees them (snake_case joins them with '_')"""
    return [w for w in C.snake_case(s).split("_") if w]


def pascal_stable_ws(ws):
    for w, n in zip(ws, ws[1:]):
        if len(w) == 1 and not w[0].isdigit() and not n[0].isdigit() and not (len(n) >= 2 and "a" <= n[1] <= "z"):
            return False
    return True


class Impl:
    """the real functions, imported from ${VERIF_REPO:-/repo}/src"""

    def __init__(self):
        import betterproto as bp
        from betterproto import casing
        from betterproto.compile import naming

        self.bp, self.C, self.N = bp, casing, naming
        self._cls = {}
        self.reserved = set(dir(bp.Message))

    def camel_key(self, f):
        return self.C.camel_case(f).rstrip("_")

    def snake_key(self, f):
        return self.C.snake_case(f).rstrip("_")

    def code(self, s, h):
        C = self.C
        f = C.safe_snake_case(s)
        p = C.pascal_case(s)
        ck = self.camel_key(f)
        h = fl_bytes(h, C.snake_case(s))
        h = fl_bytes(h, f)
        h = fl_bytes(h, p)
        h = fl_bytes(h, C.camel_case(s))
        h = fl_bytes(h, C.sanitize_name(s))
        h = fl_bytes(h, ck)
        h = fl_bytes(h, self.snake_key(f))
        h = fl_mix(h, 1 if C.safe_snake_case(ck) == f else 0)
        h = fl_mix(h, 1 if C.pascal_case(p) == p else 0)
        ok = 1 if (p.isidentifier() and not keyword.iskeyword(p)) else 0
        h = fl_mix(h, ok)
        return fl_mix(h, ok)

    def case(self, s):
        C, N = self.C, self.N
        f = N.pythonize_field_name(s)
        if N.pythonize_method_name(s) != f:
            raise AssertionError("pythonize_method_name differs from pythonize_field_name")
        p = N.pythonize_class_name(s)
        ck = self.camel_key(f)
        ok = p.isidentifier() and not keyword.iskeyword(p)
        return cl([cs(C.snake_case(s)), cs(f), cs(p), cs(C.camel_case(s)), cs(C.sanitize_name(s)),
                   cs(C.lowercase_first(s)), cs(ck), cs(self.snake_key(f)),
                   cbool(C.safe_snake_case(ck) == f), cbool(C.pascal_case(p) == p), cbool(ok), cbool(ok)])

    def cls_for(self, fields):
        key = tuple(fields)
        if key not in self._cls:
            bp = self.bp
            self._cls[key] = dataclasses.make_dataclass(
                "M", [(f, int, bp.int32_field(i + 1)) for i, f in enumerate(fields)],
                bases=(bp.Message,), eq=False, repr=False)
        return self._cls[key]

    def usable(self, f):
        return f.isidentifier() and not keyword.iskeyword(f) and f not in self.reserved and not f.startswith("__")

    def field_for_key(self, fields, key):
        """which field the three dict readers give the value of `key` to (they must agree)"""
        M = self.cls_for(fields)
        got = []
        for how in ("from_dict(instance)", "from_dict(class)", "from_pydict"):
            if how == "from_dict(instance)":
                m = M().from_dict({key: 7})
            elif how == "from_dict(class)":
                m = M.from_dict({key: 7})
            else:
                m = M().from_pydict({key: 7})
            hit = [f for f in fields if getattr(m, f) == 7]
            got.append(tuple(hit))
        if len(set(got)) != 1 or len(got[0]) > 1:
            raise AssertionError(f"dict readers disagree on key {key!r}: {got}")
        return got[0][0] if got[0] else None


def sweep_strings(alpha, n, prefix):
    """depth-first pre-order, as sweep_go in Model/Casing.v"""
    yield prefix
    if n:
        for c in alpha:
            yield from sweep_strings(alpha, n - 1, prefix + c)


def rand_ident(rng):
    toks = []
    for _ in range(rng.randint(1, 5)):
        k = rng.random()
        w = "".join(rng.choice("abcxyz") for _ in range(rng.choice([1, 1, 2, 3, 5])))
        if k < 0.35:
            t = w
        elif k < 0.55:
            t = w.capitalize()
        elif k < 0.7:
            t = w.upper()
        elif k < 0.85:
            t = str(rng.choice([0, 1, 2, 9, 10, 256]))
        else:
            t = w + str(rng.randint(0, 99))
        toks.append(t)
        if rng.random() < 0.6:
            toks.append(rng.choice(["_", "_", "_", "__", "."]) if rng.random() < 0.9 else "")
    s = "".join(toks)
    return s


# ----------------------------------------------------------------------------------------------
def oracle_name(I, s, e2e=True):
    """the property itself on the implementation for one proto identifier; yields (cls, what)"""
    C, N, bp = I.C, I.N, I.bp
    F = N.pythonize_field_name(s)
    for nm, v in (("field", F), ("method", N.pythonize_method_name(s))):
        if not (v.isidentifier() and not keyword.iskeyword(v)):
            yield ("name-not-identifier", f"pythonize_{nm}_name({s!r}) = {v!r} is not a usable Python identifier")
    if N.pythonize_field_name(F) != F:
        yield ("snake-not-idempotent", f"pythonize_field_name is not idempotent on {s!r}: {F!r} -> {N.pythonize_field_name(F)!r}")
    P = N.pythonize_class_name(s)
    ws = lower_words(C, s)
    if not (P.isidentifier() and not keyword.iskeyword(P)):
        unsanitised = (not ws) or ws[0][0].isdigit() or P in keyword.kwlist
        yield (CLS_CLASS if unsanitised else "class-name-unexpected",
               f"pythonize_class_name({s!r}) = {P!r} is not a usable Python identifier")
    if N.pythonize_class_name(P) != P:
        yield (CLS_PASCAL if not pascal_stable_ws(ws) else "pascal-unexpected",
               f"pythonize_class_name is not idempotent on {s!r}: {P!r} -> {N.pythonize_class_name(P)!r}")
    for en in ("Color", s, "E") if s.isidentifier() else ():
        for mem in (s, s.upper(), C.snake_case(en).upper() + "_" + s.upper()):
            v = N.pythonize_enum_member_name(mem, en)
            if not (v.isidentifier() and not keyword.iskeyword(v)):
                yield ("name-not-identifier", f"pythonize_enum_member_name({mem!r}, {en!r}) = {v!r} is not a usable Python identifier")
    if e2e and I.usable(F):
        M = I.cls_for([F])
        m = M(**{F: 7})
        for cname, casing in (("CAMEL", bp.Casing.CAMEL), ("SNAKE", bp.Casing.SNAKE)):
            for wr, rd in ((lambda: m.to_dict(casing), lambda d: M().from_dict(d)),
                           (lambda: m.to_dict(casing), lambda d: M.from_dict(d)),
                           (lambda: m.to_pydict(casing), lambda d: M().from_pydict(d))):
                d = wr()
                if list(d.values()) != [7]:
                    yield ("to-dict-lost-field", f"field {F!r}: to_dict({cname}) = {d!r}")
                    continue
                back = rd(d)
                if getattr(back, F) != 7:
                    yield (f"{cname.lower()}-key-not-mapped-back",
                           f"proto field {s!r} (Python {F!r}): to_dict(Casing.{cname}) emits key {list(d)[0]!r}, "
                           f"which from_dict does not map back: the value is silently dropped")
                    break
        for rd in (lambda d: M().from_dict(d), lambda d: M.from_dict(d), lambda d: M().from_pydict(d)):
            if getattr(rd({s: 7}), F) != 7:
                yield ("proto-name-not-mapped", f"original proto name {s!r} is not mapped to its field {F!r} by from_dict")
                break


def run_oracle(ctx, I, s, e2e=True):
    try:
        res = list(oracle_name(I, s, e2e))
    except Exception as e:  # noqa
        res = [("raised", f"the name mapping raised {e!r} on {s!r}")]
    for cls_, what in res:
        ctx.fail("oracle", what, cls=cls_, input=s)
    return res


def compare(ctx, name, pairs):
    """lib.coq_compare; if the .vo files were being rebuilt under us (another check holds the build lock),
    wait for the build and try once more"""
    try:
        return lib.coq_compare(ctx, name, IMPORTS, pairs)
    except RuntimeError:
        ok, log = ctx.build_ok, ctx.build_log
        lib.build(ctx, ["Properties/C19.vo"])
        rebuilt = ctx.build_ok
        ctx.build_ok, ctx.build_log = ok, log
        if not rebuilt:
            raise
        return lib.coq_compare(ctx, name + "r", IMPORTS, pairs)


# ----------------------------------------------------------------------------------------------
# Spec/C19Regex.v (regex AST, backtracking matcher, the re.sub loop) against CPython's re
RX_LIT = "abAB1_-"
RX_SETS = ["[ab]", "[^a]", "[a-b]", "[A-Z]", "[^a-zA-Z0-9]", "[0-9]", "[a-z]", "[^_]", "[b1-]", "[^ab]", "[aA]"]
# greedy repetition of bodies that can match empty, captures kept across iterations, alternation order, lookahead, ^ inside
# repetitions; the last three are outside the subset (lazy quantifier, $, backslash): the parser must refuse them (CN)
RX_QUIRKS = ["(|a)*", "(|a)+", "(a|ab)(c|bcd)?", "(a*)*", "(a*)+", "(a?)*b", "((a)|b)*", "(a)|b", "(?!a)(b|)", "((a)|(b))+",
             "(a*)(a|b)*", "(a+|b*)*", "(^)*", "(^a|b)*", "(a|^)+", "((?!b)a|b(?!a))*", "(a?)+", "((a)?b)*", "(a(?!b))*|(b)",
             "x*", "(a|)", "(a|b)*?", "^(a|)+$", "\\d+"]


def rx_atom(rng, d):
    k = rng.random()
    if k < 0.35:
        return rng.choice(RX_LIT)
    if k < 0.6:
        return rng.choice(RX_SETS)
    if k < 0.85 and d > 0:
        return "(" + rx_alt(rng, d - 1) + ")"
    if k < 0.92 and d > 0:
        return "(?!" + rx_alt(rng, d - 1) + ")"
    if k < 0.95:
        return "^"
    return rng.choice(RX_LIT)


def rx_seq(rng, d):
    out = []
    for _ in range(rng.choice([0, 1, 1, 2, 2, 3])):
        a = rx_atom(rng, d)
        if a != "^" and not a.startswith("(?!"):
            a += rng.choice(["", "", "*", "+", "?"])
        out.append(a)
    return "".join(out)


def rx_alt(rng, d):
    return "|".join(rx_seq(rng, d) for _ in range(rng.choice([1, 1, 2, 3])))


def rx_show(m):
    return "<" + "".join((g if g is not None else "~") + "|" for g in m.groups()) + ">"


def regex_spec_stage(ctx, I, names):
    """re.sub(pattern, show-all-groups, subject) of CPython against [sub_show] of Spec/C19Regex.v: random patterns of the
    modelled subset, the quirk list, and the two live patterns of casing.py on the names of this run"""
    import warnings
    rng = ctx.rng
    cases = []
    sup = re.compile(r"[^\\.${}]*")          # no backslash, dot, dollar, braces: inside the parser's subset

    def add_case(pat, subj, kind):
        try:
            with warnings.catch_warnings():
                warnings.simplefilter("ignore")
                c = re.compile(pat)
            exp = cs(c.sub(rx_show, subj))
        except re.error:
            return
        if not sup.fullmatch(pat) or "*?" in pat or "+?" in pat or "??" in pat:
            exp = CN                          # outside the subset: the specification's parser must refuse it
        cases.append((f"sub_show {qb(pat)} {qb(subj)}", exp, (kind, pat, subj)))
        ctx.count("regex_spec:" + kind)

    for pat in RX_QUIRKS:
        for n in range(0, 4):
            for t in itertools.product("ab", repeat=n):
                add_case(pat, "".join(t), "quirk")
    nrand = 250 if not ctx.thorough else 4000
    tries = 0
    while ctx.dist.get("regex_spec:random", 0) < 3 * nrand and tries < 20 * nrand:
        tries += 1
        pat = rx_alt(rng, 2)
        for _ in range(3):
            add_case(pat, "".join(rng.choice(RX_LIT) for _ in range(rng.randrange(0, 8))), "random")
    try:
        C = I.C
        live = [f"(^)?({C.SYMBOLS})({C.WORD_UPPER}|{C.WORD})", f"({C.SYMBOLS})({C.WORD_UPPER}|{C.WORD})"]
    except AttributeError:
        live = []                             # constants renamed: gen/C19Tables.v (T1) decides whether the build still stands
    for pat in live:
        for s in [n for n in names if n.isascii()][:400 if not ctx.thorough else 4000]:
            add_case(pat, s, "live-pattern")
    # the three casing functions on code points (Spec/C19Unicode.v) against the real functions on str
    UPOOL = "abzAZ09_. -" + "\u00e9\u00c9\u00df\u4e2d\u03a9\U0001f600\u00a0\u01c5\u0131\u0130\u00aa\u0660\u2160\uff21\uff41\uff11"
    ustrs = [n for n in names if not n.isascii()]
    for _ in range(150 if not ctx.thorough else 3000):
        ustrs.append("".join(rng.choice(UPOOL) for _ in range(rng.randrange(1, 10))))
    for u in ustrs:
        try:
            u.encode("utf-8")
            exp = cl([cs(I.C.snake_case(u)), cs(I.C.pascal_case(u)), cs(I.C.camel_case(u))])
        except UnicodeEncodeError:
            continue
        except Exception as e:  # noqa
            exp = ce(lib.exc_kind(e))
        cases.append(("cp_case [" + "; ".join(str(ord(ch)) for ch in u) + "]%N", exp, ("code-points", "casing.py", u)))
        ctx.count("regex_spec:code-points")
    try:
        bad = lib.coq_compare(ctx, "c19rx", "Model.Casing Spec.C19Regex Spec.C19Unicode", [(m, e) for m, e, _ in cases])
    except RuntimeError as e:
        ctx.fail("corr", "the regex specification could not be evaluated: " + str(e)[-500:], no_input=True,
                 theorem_or_correspondence="T2 Spec/C19Regex.v <-> CPython re")
        return
    ctx.cov["disagreements_checked"] += len(cases)
    ctx.cov["evaluations"] += len(cases)
    for i in bad[:10]:
        ctx.fail("corr", f"Spec/C19Regex.v and CPython's re.sub disagree on pattern {cases[i][2][1]!r}, subject {cases[i][2][2]!r}",
                 input=list(cases[i][2]), expected_model=lib.coq_eval(ctx, "Model.Casing Spec.C19Regex Spec.C19Unicode", cases[i][0]),
                 observed_impl=cases[i][1], no_input=True, theorem_or_correspondence="T2 Spec/C19Regex.v <-> CPython re")
    if cases:
        i = len(cases) // 2
        ctx.sample({"case": list(cases[i][2]), "model_expr": cases[i][0], "impl": cases[i][1]})


# ----------------------------------------------------------------------------------------------
def plugin_stage(ctx, I, names, add):
    """the names the real protoc plugin writes into a generated module (fields, classes, enum members)"""
    import ast
    from .. import plugin_util

    def json_name(n):
        out, up = [], False
        for ch in n:
            if ch == "_":
                up = True
            else:
                out.append(ch.upper() if up else ch)
                up = False
        return "".join(out).lower()

    fields, seen_json, seen_py = [], set(), set()
    for s in names:
        if not re.fullmatch(r"[A-Za-z_][A-Za-z0-9_]*", s):
            continue
        f = I.N.pythonize_field_name(s)
        j = json_name(s)
        if j in seen_json or f in seen_py or not j or f in I.reserved or f.startswith("__") or s.lower() in ("descriptor",):
            continue
        seen_json.add(j)
        seen_py.add(f)
        fields.append(s)
    fields = fields[:160]
    members = ["COLOR_UNSPECIFIED", "COLOR_RED", "COLOR_None", "COLOR_1", "COLOR_class", "GREEN", "MY_COLOR_BLUE", "COLOR___X__"]
    classes = ["HTTPStatus", "address_line", "foo_bar", "a_b", "fooBAR", "X1y", "lowercase"]
    proto = "syntax = \"proto3\";\npackage c19;\n"
    proto += "enum Color {\n" + "".join(f"  {m} = {i};\n" for i, m in enumerate(members)) + "}\n"
    proto += "message Holder {\n" + "".join(f"  int32 {s} = {i + 1};\n" for i, s in enumerate(fields)) + "}\n"
    proto += "".join(f"message {c} {{ int32 v = 1; }}\n" for c in classes)
    rc, out, out_dir = plugin_util.generate(ctx.work, {"c19.proto": proto}, f"c19gen{ctx.seed}")
    if rc != 0:
        ctx.fail("oracle", "the plugin rejected a schema of plain int32 fields: " + out[-600:], cls="raised", input=fields[:5])
        return
    src = open(os.path.join(out_dir, "c19", "__init__.py")).read()
    try:
        tree = ast.parse(src)
    except SyntaxError as e:
        ctx.fail("oracle", f"generated module is not valid Python: {e!r}", cls="name-not-identifier", input=fields[:5])
        return
    got = {}
    for node in tree.body:
        if isinstance(node, ast.ClassDef):
            got[node.name] = [st.target.id if isinstance(st, ast.AnnAssign) else st.targets[0].id
                              for st in node.body if isinstance(st, (ast.AnnAssign, ast.Assign))
                              and isinstance(getattr(st, "target", None) or st.targets[0], ast.Name)]
    order = [n.name for n in tree.body if isinstance(n, ast.ClassDef)]
    holder = got.get("Holder", [])
    if len(holder) != len(fields):
        ctx.fail("oracle", f"generated Holder has {len(holder)} fields for {len(fields)} proto fields (a name was lost or merged)",
                 cls="raised", input=fields[:5])
    for s, g in zip(fields, holder):
        add(f"CB (pythonize_field_name {qb(s)})", cs(g), ("plugin field name", s))
        if not (g.isidentifier() and not keyword.iskeyword(g)):
            ctx.fail("oracle", f"the plugin names proto field {s!r} {g!r}", cls="name-not-identifier", input=s)
    for m, g in zip(members, got.get("Color", [])):
        add(f"CB (pythonize_enum_member_name {qb(m)} {qb('Color')})", cs(g), ("plugin enum member name", m, "Color"))
    for c in classes:
        p = I.N.pythonize_class_name(c)
        add(f"CB (pythonize_class_name {qb(c)})", cs(p if p in order else "<missing>"), ("plugin class name", c))
    ctx.count("plugin_generated_names", len(holder) + len(members) + len(classes))
    # K11 through the plugin: a message called `none` becomes `class None(...)`
    rc, out, out_dir = plugin_util.generate(ctx.work, {"k11.proto": "syntax = \"proto3\";\npackage k11;\nmessage none { int32 v = 1; }\n"},
                                            f"c19k11{ctx.seed}")
    if rc == 0:
        try:
            compile(open(os.path.join(out_dir, "k11", "__init__.py")).read(), "k11", "exec")
        except SyntaxError as e:
            ctx.fail("oracle", f"message `none`: the generated module does not compile ({e.msg}): class name {I.N.pythonize_class_name('none')!r}",
                     cls=CLS_CLASS, input="none")
    # K38 through the plugin: two proto3 fields protoc (>= 22: names compared by their case-sensitive JSON names only) accepts
    # side by side and the plugin maps to ONE Python attribute (C19_json_rule_collision_refuted; the generators above keep
    # sibling names apart, `seen_py`)
    for a, b in (("FooBar", "foo_bar"), ("HTTPStatus", "http_status"), ("a1b", "a1_b")):
        rc, out, out_dir = plugin_util.generate(ctx.work, {"k38.proto": f"syntax = \"proto3\";\npackage k38;\nmessage M {{ int32 {a} = 1; int32 {b} = 2; }}\n"},
                                                f"c19k38{ctx.seed}{a}")
        ctx.count("sibling_attribute_probes")
        if rc != 0:
            ctx.count("sibling_attribute_probes_rejected_by_protoc")
            continue
        code = (f"import importlib; m = importlib.import_module('c19k38{ctx.seed}{a}.k38'); x = m.M.FromString(bytes.fromhex('08051007')); "
                "print('K38', sorted(x.to_dict().items()), len(x._betterproto.meta_by_field_name))")
        rc2, out2 = plugin_util.run_in_subprocess(ctx.work, code, timeout=120)
        line = [l for l in out2.splitlines() if l.startswith("K38 ")]
        if not line or " 2" != line[0][-2:]:
            ctx.fail("oracle", f"protoc accepts sibling fields {a!r} and {b!r}; the plugin maps both to the attribute {I.N.pythonize_field_name(a)!r}: "
                               f"the class has one field and a value is silently dropped ({(line or [out2[-200:]])[0]})",
                     cls="sibling-attribute-collision" if I.N.pythonize_field_name(a) == I.N.pythonize_field_name(b) else "raised", input=[a, b])
    # K39: siblings with DISTINCT attributes whose camelCase keys coincide (Foo1 / foo_1 -> foo1 / foo_1, both keyed "foo1"):
    # protoc >= 22 accepts them (JSON names Foo1 / foo1 differ), to_dict writes one key for two fields and a value is lost
    for a, b in (("Foo1", "foo_1"), ("A42", "a_42")):
        rc, out, out_dir = plugin_util.generate(ctx.work, {"k39.proto": f"syntax = \"proto3\";\npackage k39;\nmessage M {{ int32 {a} = 1; int32 {b} = 2; }}\n"},
                                                f"c19k39{ctx.seed}{a}")
        ctx.count("sibling_key_probes")
        if rc != 0:
            ctx.count("sibling_key_probes_rejected_by_protoc")
            continue
        code = (f"import importlib; m = importlib.import_module('c19k39{ctx.seed}{a}.k39'); x = m.M.FromString(bytes.fromhex('08051007')); "
                "d = x.to_dict(); y = m.M().from_dict(d); print('K39', len(x._betterproto.meta_by_field_name), len(d), bytes(y).hex())")
        rc2, out2 = plugin_util.run_in_subprocess(ctx.work, code, timeout=120)
        line = [l for l in out2.splitlines() if l.startswith("K39 ")]
        if not line or line[0].split()[1:] != ["2", "2", "08051007"]:
            camel_same = I.C.camel_case(I.N.pythonize_field_name(a)) == I.C.camel_case(I.N.pythonize_field_name(b))
            ctx.fail("oracle", f"protoc accepts sibling fields {a!r} and {b!r} (attributes {I.N.pythonize_field_name(a)!r} / {I.N.pythonize_field_name(b)!r}); "
                               f"to_dict writes one key for both and from_dict(to_dict(m)) loses a value ({(line or [out2[-200:]])[0]}; expected 'K39 2 2 08051007')",
                     cls="sibling-key-collision" if camel_same and I.N.pythonize_field_name(a) != I.N.pythonize_field_name(b) else "raised", input=[a, b])



# ----------------------------------------------------------------------------------------------
# stage "gap tie": the class-level predicates of Model/C19GapDefs.v (fields_of, legacy_rule_ok, json_rule_ok, keys_back) against
# real message classes built from the same lists of sibling proto field names, and against the real protoc
GAP_WORDS = ["foo", "bar", "x", "y", "z", "a", "b", "id", "http", "status", "line", "ip", "v4", "a1", "from", "class", "none",
             "my", "url", "n", "1", "42", "is", "x1y"]
GAP_FIXED = [["FooBar", "foo_bar"], ["foo_bar", "FooBar"], ["x_y_z", "x_yz"], ["x_yz", "x_y_z"], ["xYZ", "x_y_z"], ["x_y_z", "xYZ"],
             ["a1b", "a1_b"], ["foo", "foo_"], ["foo_", "foo"], ["x", "x_", "y"], ["HTTPStatus", "http_status"],
             ["address_line_1", "address_line1"], ["address_line_1", "x_y_z", "from", "HTTPStatus", "ipv4_address", "_1"][:5],
             ["from", "from_"], ["_x", "x"], ["a_b", "ab", "a__b"], ["fooBar", "foo_bar"], ["foo", "Foo", "FOO"],
             ["class", "Class_"], ["x_yz", "x_y_z", "xyz"], ["a_1", "a1"], ["i_d", "id", "ID"], ["x_y", "x__y"],
             ["pos_x_y", "pos_xy", "posXY"], ["a", "b", "c", "d", "e"], ["none", "None", "true"], ["x1y", "x1_y", "x_1y"],
             ["URLPath", "url_path", "urlPath"], ["my_id", "myID", "my_i_d"], ["_1", "_2", "a1"], ["_", "_1", "x"], ["_a", "a_", "_"],
             ["__", "_"], ["to_dict", "parse", "x"], ["Foo1", "foo_1"], ["A42", "a_42", "b"]]


def gap_spell(rng, ws):
    """one spelling of a word sequence as a proto identifier; every spelling of the same words has the same
    ToLowercaseWithoutUnderscores key, so two spellings side by side violate the proto3 rule of protoc <= 21"""
    out = "_" if rng.random() < 0.07 else ""
    for i, w in enumerate(ws):
        if i:
            out += rng.choice(["_", "_", "_", "", "", "__"])
        out += rng.choice([w, w, w, w.capitalize(), w.capitalize(), w.upper()])
    if rng.random() < 0.1:
        out += "_"
    if not (out[0].isalpha() or out[0] == "_"):
        out = rng.choice(["_", "a", "A"]) + out
    return out


def gap_list(rng):
    n = rng.choice([2, 2, 3, 3, 4, 5])
    names = []
    k = rng.random()
    if k < 0.35:                 # built to violate the legacy rule: the same words spelled in two ways
        ws = [rng.choice(GAP_WORDS) for _ in range(rng.choice([1, 2, 2, 3, 3]))]
        for _ in range(20):
            a, b = gap_spell(rng, ws), gap_spell(rng, ws)
            if k < 0.08:
                b = a + "_" if not a.endswith("_") else a[:-1]          # differing only by a trailing underscore
            if a != b and b:
                names = [a, b]
                break
    tries = 0
    while len(names) < n and tries < 50:
        tries += 1
        s = gap_spell(rng, [rng.choice(GAP_WORDS) for _ in range(rng.choice([1, 2, 2, 3, 3, 4]))])
        if s not in names:
            names.append(s)
    rng.shuffle(names)
    return names


def py_legacy_key(s):
    return s.replace("_", "").lower()


def py_json_name(s):
    """protoc's ToJsonName (descriptor.cc), second reading in Python"""
    out, cap = [], False
    for ch in s:
        if ch == "_":
            cap = True
        else:
            out.append(ch.upper() if cap and "a" <= ch <= "z" else ch)
            cap = False
    return "".join(out)


def py_rules(names):
    ident = all(re.fullmatch(r"[A-Za-z_][A-Za-z0-9_]*", s) for s in names)
    lk, jn = [py_legacy_key(s) for s in names], [py_json_name(s) for s in names]
    return ident and len(set(lk)) == len(lk), ident and len(set(jn)) == len(jn)


def distinct(l):
    return len(set(l)) == len(l)


def coq_names(names):
    return "[" + "; ".join(qb(s) for s in names) + "]"


def gap_observe(I, names):
    """what a real class with one int32 field per proto name does. Returns a dict; raises on anything unexpected."""
    bp = I.bp
    attrs = [I.N.pythonize_field_name(s) for s in names]
    py_leg, py_json = py_rules(names)
    ob = {"names": names, "attrs": attrs, "py_legacy": py_leg, "py_json": py_json, "oracle": [], "built": False}
    ob["lk_jn"] = [(py_legacy_key(s), py_json_name(s)) for s in names]
    if not distinct(attrs):
        ob["skip"] = "attribute-collision"
        # keys of the attributes, each from a one-field class (the class of the list itself cannot be built)
        keys = []
        for F in attrs:
            if not I.usable(F):
                ob["skip"] = "attribute-collision+unusable"
                return ob
            m = I.cls_for([F])(**{F: 7})
            keys.append((list(m.to_dict(bp.Casing.CAMEL))[0], list(m.to_dict(bp.Casing.SNAKE))[0]))
            I._cls.pop((F,), None)
        ob["keys"] = keys
        return ob
    if not all(I.usable(F) for F in attrs):
        ob["skip"] = "unusable-attribute"
        return ob
    M = I.cls_for(attrs)
    vals = [11 + 3 * i for i in range(len(attrs))]
    readers = (("from_dict(class)", lambda d: M.from_dict(d)), ("from_dict(instance)", lambda d: M().from_dict(d)),
               ("from_pydict", lambda d: M().from_pydict(d)))
    keys = []
    for F, v in zip(attrs, vals):
        one = M(**{F: v})
        kk = []
        for cname, casing in (("CAMEL", bp.Casing.CAMEL), ("SNAKE", bp.Casing.SNAKE)):
            d = one.to_dict(casing)
            if list(d.values()) != [v] or one.to_pydict(casing) != d:
                raise AssertionError(f"field {F!r}: to_dict({cname}) = {d!r}, to_pydict = {one.to_pydict(casing)!r}")
            kk.append(list(d)[0])
        keys.append(tuple(kk))
    ob["keys"] = keys

    def delivered(key, v, F):
        got = []
        for how, rd in readers:
            back = rd({key: v})
            got.append(tuple(g for g in attrs if getattr(back, g) == v))
        if len(set(got)) != 1:
            raise AssertionError(f"dict readers disagree on key {key!r}: {got}")
        return got[0] == (F,)

    back3 = []
    for s, F, v, (kc, ks) in zip(names, attrs, vals, keys):
        back3.append((delivered(kc, v, F), delivered(ks, v, F), delivered(s, v, F)))
    ob["back3"] = back3
    # the whole object through to_dict -> from_dict, both casings, both forms
    full = M(**dict(zip(attrs, vals)))
    lossless = []
    for cname, casing in (("CAMEL", bp.Casing.CAMEL), ("SNAKE", bp.Casing.SNAKE)):
        d = full.to_dict(casing)
        res = set()
        for how, rd in readers:
            back = rd(d)
            res.add(all(getattr(back, F) == v for F, v in zip(attrs, vals)))
        if len(res) != 1:
            raise AssertionError(f"dict readers disagree on {d!r}")
        lossless.append((res.pop(), len(d)))
    ob["lossless"] = lossless
    ob["built"] = True
    I._cls.pop(tuple(attrs), None)
    return ob


def gap_expected(ob):
    """the cv literal the model expression of this observation must evaluate to, and the expression"""
    names = ob["names"]
    nm = cl([cl([cs(a) for a in ob["attrs"]]), cbool(ob["py_legacy"]), cbool(ob["py_json"]),
             cl([cl([cs(kc), cs(ks)]) for kc, ks in ob["keys"]]),
             cl([cl([cs(a), cs(b)]) for a, b in ob["lk_jn"]])])
    if not ob["built"]:
        return f"gap_names {coq_names(names)}", nm
    b3 = ob["back3"]
    return (f"gap_class {coq_names(names)}",
            cl([nm, cl([cbool(all(t)) for t in b3]), cl([cl([cbool(x) for x in t]) for t in b3]),
                cbool(all(all(t) for t in b3))]))


def gap_oracle(ob):
    """C19_legacy_rule_keys_back / C19_legacy_rule_attrs_distinct on the real class: under the proto3 rule of protoc <= 21
    attributes, camelCase keys and snake_case keys are pairwise distinct, the three keys of every field map back and the
    whole object survives to_dict -> from_dict in both casings. Also, for ANY class that could be built: the object
    survives a casing exactly when every field's key of that casing maps back. Yields (cls, what)."""
    names = ob["names"]
    if ob["built"]:
        for ci, cname in ((0, "CAMEL"), (1, "SNAKE")):
            allback = all(t[ci] for t in ob["back3"])
            if ob["lossless"][ci][0] != allback:
                yield ("class-roundtrip-differs-from-keys",
                       f"class of proto fields {names}: to_dict(Casing.{cname}) -> from_dict is "
                       f"{'lossless' if ob['lossless'][ci][0] else 'lossy'} although the single keys map back: "
                       f"{[t[ci] for t in ob['back3']]}")
    if not ob["py_legacy"]:
        return
    if not distinct(ob["attrs"]):
        yield ("legacy-rule-attribute-collision",
               f"proto fields {names} are unique after lower-casing and removing underscores, yet share a Python attribute: {ob['attrs']}")
        return
    if not ob["built"]:
        return
    for ci, cname in ((0, "camelCase"), (1, "snake_case")):
        ks = [k[ci] for k in ob["keys"]]
        if not distinct(ks):
            yield ("legacy-rule-key-collision", f"proto fields {names} (legacy rule holds): two fields share a {cname} key: {ks}")
    for s, F, t in zip(names, ob["attrs"], ob["back3"]):
        for ok, what in zip(t, ("camelCase key", "snake_case key", "proto name")):
            if not ok:
                yield ("legacy-rule-key-not-mapped-back",
                       f"class of proto fields {names} (unique after lower-casing and removing underscores): the {what} of field "
                       f"{s!r} (attribute {F!r}) is not delivered to it by from_dict")
    for (ok, nk), cname in zip(ob["lossless"], ("CAMEL", "SNAKE")):
        if not ok or nk != len(names):
            yield ("legacy-rule-roundtrip-lossy",
                   f"class of proto fields {names} (legacy rule holds): to_dict(Casing.{cname}) has {nk} keys for {len(names)} fields "
                   f"and from_dict {'restores' if ok else 'does not restore'} every value")


def gap_protoc_one(ctx, I, idx, names):
    """the real protoc (and the real plugin behind it) on a one-message proto3 file with these fields"""
    import ast
    from .. import plugin_util
    proto = ("syntax = \"proto3\";\npackage gap;\nmessage M {\n"
             + "".join(f"  int32 {s} = {i + 1};\n" for i, s in enumerate(names)) + "}\n")
    rc, out, out_dir = plugin_util.generate(ctx.work, {"gap.proto": proto}, f"c19gap{ctx.seed}x{idx}")
    res = {"names": names, "rc": rc, "out": out[-400:], "fields": None}
    if rc != 0:
        # protoc's own diagnostics name the .proto file and a position; anything else is the plugin failing
        res["protoc_rejected"] = bool(re.search(r"gap\.proto:\d+:\d+:", out))
        res["json_conflict"] = "JSON name" in out
        return res
    tree = ast.parse(open(os.path.join(out_dir, "gap", "__init__.py")).read())
    for node in tree.body:
        if isinstance(node, ast.ClassDef) and node.name == "M":
            res["fields"] = [st.target.id for st in node.body if isinstance(st, ast.AnnAssign) and isinstance(st.target, ast.Name)]
    return res


def gap_fail(ctx, kind, what, cls=None, **kw):
    """ctx.fail, and the evidence counts what this stage reported (on the unchanged tree: only the K38 reports of the protoc sample)"""
    ctx.count(f"gap_failures:{kind}:{cls or kw.get('input', ['?'])[0]}")
    ctx.fail(kind, what, cls=cls, **kw)


def gap_stage_impl(ctx, I):
    """implementation side of the gap tie: observations of real classes, the oracle, the protoc sample. Returns the cases
    [(model_expr, expected, descr)] for gap_stage_model."""
    rng = ctx.rng
    lists = [list(l) for l in GAP_FIXED]
    for _ in range(300 if not ctx.thorough else 3000):
        lists.append(gap_list(rng))
    cases, obs, seen = [], [], set()
    for names in lists:
        if tuple(names) in seen or not (2 <= len(names) <= 5) or not distinct(names):
            continue
        seen.add(tuple(names))
        try:
            ob = gap_observe(I, names)
        except Exception as e:  # noqa
            gap_fail(ctx, "oracle", f"class of proto fields {names}: the public field API raised {e!r}", cls="raised", input=["gap_class", names])
            continue
        obs.append(ob)
        ctx.count("gap_lists")
        if ob.get("skip") in ("unusable-attribute", "attribute-collision+unusable"):
            ctx.count("gap_class:class not built (reserved or unusable attribute): attributes and rules compared only")
            cases.append((f"gap_rules {coq_names(names)}", cl([cl([cs(a) for a in ob["attrs"]]), cbool(ob["py_legacy"]), cbool(ob["py_json"])]),
                          ["gap_class", names]))
            for cls_, what in gap_oracle(ob):
                gap_fail(ctx, "oracle", what, cls=cls_, input=["gap_class", names])
            continue
        m, e = gap_expected(ob)
        cases.append((m, e, ["gap_class", names]))
        if ob["built"]:
            kb = all(all(t) for t in ob["back3"])
            ctx.count(f"gap_class:legacy_rule={int(ob['py_legacy'])},json_rule={int(ob['py_json'])},attrs_distinct=1,"
                      f"keys_back_all={int(kb)},lossless_camel={int(ob['lossless'][0][0])},lossless_snake={int(ob['lossless'][1][0])}")
            ctx.count("gap_keys_back_fields", len(names))
            ctx.count("gap_keys_back_fields_false", sum(1 for t in ob["back3"] if not all(t)))
            ctx.count("gap_from_dict_calls", len(names) * 9 + 6)
            if len(names) >= 3 or not kb:
                ctx.seen_nontrivial(("gap",) + tuple(names))
        else:
            # two names -> one attribute: the K38 class; the class cannot be built with the field API (counted, not compared)
            ctx.count(f"gap_class:legacy_rule={int(ob['py_legacy'])},json_rule={int(ob['py_json'])},attrs_distinct=0 "
                      f"(K38 class {CLS_SIBLING}: class not built)")
        for cls_, what in gap_oracle(ob):
            gap_fail(ctx, "oracle", what, cls=cls_, input=["gap_class", names])
        if ob["built"] and ob["py_json"] and not (ob["lossless"][0][0] and ob["lossless"][1][0]):
            # outside both theorems (the legacy rule fails) and outside K38 (the attributes differ): protoc >= 22 accepts the
            # names, two attributes share a camelCase key (Foo1 / foo_1 -> foo1), to_dict(CAMEL) merges them and from_dict gives
            # the snake key of one to the other. Model and implementation AGREE on it (keys_back is false); counted and noted.
            ctx.count("gap_class:json_rule=1,attrs_distinct=1,value lost in to_dict->from_dict (sibling camelCase keys collide; not K38)")
            if not any("sibling camelCase keys collide" in n for n in ctx.notes):
                ctx.notes.append(f"gap tie: proto fields {names} pass protoc >= 22's JSON-name rule and get distinct attributes {ob['attrs']}, "
                                 f"but sibling camelCase keys collide {[k[0] for k in ob['keys']]}: to_dict -> from_dict loses a value "
                                 f"(lossless CAMEL/SNAKE = {ob['lossless'][0][0]}/{ob['lossless'][1][0]}); keys_back of the model says so too "
                                 f"(legacy_rule_ok = false, so no theorem is contradicted); not reported as a violation")
    ctx.cov["evaluations"] += len(obs)
    # ---- protoc's own verdict on a sample: every fixed list's kind, then random ones, a third of them expected to be refused
    usable = [ob for ob in obs if ob.get("skip") != "unusable-attribute" and "attribute-collision+unusable" != ob.get("skip")]
    nprot = 24 if not ctx.thorough else 200
    fixed = [ob for ob in usable if ob["names"] in GAP_FIXED][:nprot // 2]
    rest = [ob for ob in usable if ob["names"] not in GAP_FIXED]
    rej = [ob for ob in rest if not ob["py_json"]]
    coll = [ob for ob in rest if ob["py_json"] and not distinct(ob["attrs"])]
    acc = [ob for ob in rest if ob["py_json"] and distinct(ob["attrs"])]
    room = nprot - len(fixed)
    sample = fixed + rej[:room // 3] + coll[:room // 3]
    sample += acc[:nprot - len(sample)]
    from .. import plugin_util
    plugin_util.shim_dir(ctx.work)
    with ThreadPoolExecutor(max_workers=lib.JOBS) as ex:
        def one(a):
            try:
                return gap_protoc_one(ctx, I, a[0], a[1]["names"])
            except Exception as e:  # noqa
                return {"names": a[1]["names"], "error": repr(e)}
        results = list(ex.map(one, enumerate(sample)))
    for ob, r in zip(sample, results):
        names = ob["names"]
        if "error" in r:
            gap_fail(ctx, "oracle", f"running protoc and the plugin on a message with fields {names} raised {r['error']}", cls="raised",
                     input=["gap_protoc", names])
            continue
        if r["rc"] != 0 and not r["protoc_rejected"]:
            gap_fail(ctx, "oracle", f"protoc accepts fields {names} but the plugin fails: {r['out']}", cls="raised", input=["gap_protoc", names])
            continue
        accepted = r["rc"] == 0
        collide = not distinct(ob["attrs"])
        ctx.count(f"gap_protoc:protoc_accepts={int(accepted)},json_rule(py)={int(ob['py_json'])},legacy_rule={int(ob['py_legacy'])},"
                  f"attrs_distinct={int(not collide)}")
        cases.append((f"gap_json_rule {coq_names(names)}", cbool(accepted), ["gap_protoc", names, r["out"][-200:] if not accepted else "accepted"]))
        if accepted != ob["py_json"]:
            gap_fail(ctx, "corr", f"protoc {'accepts' if accepted else 'refuses'} sibling fields {names}; the JSON-name rule read in Python says "
                             f"{ob['py_json']} ({r['out'][-200:]})", input=["gap_protoc", names], no_input=True,
                     theorem_or_correspondence="T3 json_rule_ok (Model/C19GapDefs.v) <-> protoc CheckFieldJsonNameUniqueness")
        if not accepted:
            if not r["json_conflict"]:
                ctx.count("gap_protoc:refused for another reason than the JSON names")
            continue
        flds = r["fields"]
        if flds is None:
            gap_fail(ctx, "oracle", f"generated module for fields {names} has no class M", cls="raised", input=["gap_protoc", names])
            continue
        cases.append((f"CL (map CB (fields_of {coq_names(names)}))", cl([cs(f) for f in flds]), ["gap_plugin_fields", names]))
        if len(set(flds)) != len(names):
            # protoc accepts the message and the generated class has fewer attributes than the message has fields
            gap_fail(ctx, "oracle", f"protoc accepts sibling fields {names}; the plugin declares the attributes {flds}: "
                               f"{len(names) - len(set(flds))} field(s) of the message are lost in the class",
                     cls=CLS_SIBLING if collide and flds == ob["attrs"] else "generated-class-lost-field", input=["gap_protoc", names])
        if ob["py_legacy"] and collide:
            pass        # already reported by gap_oracle (legacy-rule-attribute-collision)
    ctx.count("gap_protoc_runs", len(sample))
    return cases


def gap_stage_model(ctx, cases):
    """model side: gap_class / gap_names / gap_json_rule of Model/C19GapCv.v by vm_compute against the observations"""
    if not cases:
        return
    try:
        bad = lib.coq_compare(ctx, "c19gap", GAP_IMPORTS, [(m, e) for m, e, _ in cases], chunk=40)
    except RuntimeError as e:
        gap_fail(ctx, "corr", "the class-level predicates could not be evaluated: " + str(e)[-500:], no_input=True,
                 theorem_or_correspondence="T2 Model/C19GapDefs.v <-> real message classes")
        return
    ctx.cov["disagreements_checked"] += len(cases)
    ctx.cov["evaluations"] += len(cases)
    ctx.count("gap_model_cases_compared", len(cases))
    for i in bad[:10]:
        d = cases[i][2]
        if d[0] == "gap_protoc":
            what = (f"json_rule_ok of the model and the real protoc disagree on sibling fields {d[1]} (protoc: {d[2]})")
            thm = "T3 json_rule_ok (Model/C19GapDefs.v) <-> protoc CheckFieldJsonNameUniqueness"
        elif d[0] == "gap_plugin_fields":
            what = f"fields_of of the model and the attributes the real plugin generates differ for proto fields {d[1]}"
            thm = "T2 fields_of (Model/C19GapDefs.v) <-> generated class"
        else:
            what = (f"the class-level predicates of the model (fields_of / legacy_rule_ok / json_rule_ok / keys / keys_back) and the real "
                    f"class disagree on proto fields {d[1]}")
            thm = "T2 keys_back, legacy_rule_ok, json_rule_ok, fields_of (Model/C19GapDefs.v) <-> real message class / from_dict"
        gap_fail(ctx, "corr", what, input=list(d), expected_model=lib.coq_eval(ctx, GAP_IMPORTS, cases[i][0]), observed_impl=cases[i][1],
                 theorem_or_correspondence=thm)
    i = len(cases) // 2
    ctx.sample({"case": cases[i][2], "model_expr": cases[i][0], "impl": cases[i][1]})


# ----------------------------------------------------------------------------------------------
def run(ctx):
    rng = ctx.rng
    I = Impl()
    C = I.C

    # ---------------------------------------------------------------- names handled case by case
    corpus = [l.strip() for l in open(os.path.join(lib.VERIF, "corpus", "C19-names.txt")) if l.strip() and not l.startswith("#")]
    groups = [
        ("witness", WITNESSES),
        ("keyword", list(keyword.kwlist)),
        ("softkeyword", list(keyword.softkwlist)),
        ("builtin", [n for n in dir(builtins)]),
        ("corpus", corpus),
        ("random", [rand_ident(rng) for _ in range(600 if not ctx.thorough else 6000)]),
        ("keyword-variant", [f(k) for k in keyword.kwlist for f in (str.upper, str.capitalize, lambda k: k + "_", lambda k: "_" + k,
                                                                     lambda k: k + "1", lambda k: k[:1] + "_" + k[1:])]),
        # names of the public Message API, in the three spellings a .proto author may use (a field with such a name is K9 on
        # this tree - unusable, skipped below; a plugin that renames them must keep the runtime's key lookup in step: C19-5)
        ("message-api", [f(n) for n in sorted(I.reserved) if not n.startswith("_")
                         for f in (lambda n: n, lambda n: C.camel_case(n), lambda n: n.upper())]),
        ("non-ascii", ["é", "aéb", "Éa", "a中b", "ßA", "naïve_name", "Ωmega_1", "a\nb", "tab\tsep", "emoji😀Name", ""]),
    ]
    names, seen = [], set()
    for g, l in groups:
        for s in l:
            if s not in seen:
                seen.add(s)
                names.append((g, s))
                ctx.count("names:" + g)
    pairs, descr = [], []

    def add(model, expected, d):
        pairs.append((model, expected))
        descr.append(d)

    def guarded(f, conv=lambda x: x):
        try:
            return conv(f())
        except Exception as e:  # noqa
            return ce(lib.exc_kind(e))

    for g, s in names:
        if g == "non-ascii":
            # strict casing functions only (the model's sanitize_name/lowercase_first are ASCII-only)
            add(f"CL [CB (snake_case {qb(s)}); CB (safe_snake_case {qb(s)}); CB (pascal_case {qb(s)}); CB (camel_case {qb(s)})]",
                guarded(lambda: cl([cs(C.snake_case(s)), cs(C.safe_snake_case(s)), cs(C.pascal_case(s)), cs(C.camel_case(s))])),
                ("casing(non-ascii)", s))
        else:
            add(f"case_name {qb(s)}", guarded(lambda: I.case(s)), ("case_name", s))
        if len(lower_words(C, s)) >= 2 or C.safe_snake_case(s) != s:
            ctx.seen_nontrivial(s)

    # enum member names
    enum_cases = [("COLOR_RED", "Color"), ("RED", "Color"), ("COLOR_", "Color"), ("COLOR", "Color"), ("MY_COLOR_RED", "Color"),
                  ("HTTP_STATUS_OK", "HTTPStatus"), ("HTTPSTATUS_OK", "HTTPStatus"), ("FOO_1", "Foo"), ("FOO_NONE", "Foo"),
                  ("FOO_None", "Foo"), ("FOO_class", "Foo"), ("FOO___", "Foo"), ("_", "_"), ("A", "_"), ("__x__", "_"),
                  ("ARITHMETIC_OPERATOR_0_PREFIXED", "ArithmeticOperator"), ("x", ""), ("None", "E"), ("E_None", "E"), ("E_1", "E"),
                  ("E_E_X", "E"), ("XE_", "E"), ("value", "value")]
    pool = [s for _, s in names if s.isascii() and s and re.fullmatch(r"[A-Za-z0-9_]+", s)]
    for _ in range(300 if not ctx.thorough else 3000):
        en = rng.choice(pool)
        pre = C.snake_case(en).upper()
        mem = rng.choice(pool)
        k = rng.random()
        if k < 0.5:
            mem = pre + rng.choice(["_", "__", ""]) + mem.upper() + rng.choice(["", "_", ""])
        elif k < 0.7:
            mem = rng.choice(["X_", "_", ""]) + pre + "_" + mem
        enum_cases.append((mem, en))
    for mem, en in enum_cases:
        add(f"CB (pythonize_enum_member_name {qb(mem)} {qb(en)})",
            guarded(lambda: cs(I.N.pythonize_enum_member_name(mem, en))), ("pythonize_enum_member_name", mem, en))
        ctx.count("enum_member_cases")

    # ---------------------------------------------------------------- which field a key addresses (real from_dict / from_pydict)
    fsets = [["x_y_z", "x_yz"], ["x_yz", "x_y_z"], ["address_line_1", "address_line1"], ["address_line1", "address_line_1"],
             ["a_b", "ab"], ["a_1", "a1"], ["from_", "from_x"], ["fooBar"], ["HTTPStatus", "http_status"], ["X"], ["a__b", "a_b"],
             ["_x", "x"], ["x_", "x"], ["x_y_z", "x_yz", "xyz"], ["x_y_z", "x_y__z"], ["xYZ", "x_y_z"], ["x_y_z", "xYZ"],
             ["class_", "klass"], ["_1", "_2"], ["a", "b", "c"]]
    fpool = []
    for _, s in names:
        if s.isascii():
            try:
                f = C.safe_snake_case(s)
            except Exception:  # noqa
                continue
            if I.usable(f):
                fpool.append(f)
            if I.usable(s):
                fpool.append(s)
    fpool = sorted(set(fpool))
    for _ in range(150 if not ctx.thorough else 1500):
        fsets.append(rng.sample(fpool, rng.choice([1, 2, 2, 3, 4])))
    fsets += [["x_y_z", "x_yz"], ["pos_x_y", "pos_xy"], ["address_line_1", "address_line1"], ["a_b_c", "a_bc", "ab_c"], ["i_d", "id"]]
    nkeys = 0
    for fs in fsets:
        if not all(I.usable(f) for f in fs) or len(set(fs)) != len(fs):
            continue
        keys = []
        for f in fs:
            keys += [I.camel_key(f), I.snake_key(f), f, C.camel_case(I.camel_key(f)), f.upper(), f.replace("_", "")]
        keys += [rng.choice(fpool), "", "_", "unknownKey"]
        for k in dict.fromkeys(keys):
            fl = "[" + "; ".join(qb(f) for f in fs) + "]"
            add(f"copt CB (field_for_key {fl} {qb(k)})",
                guarded(lambda: (lambda r: CN if r is None else cs(r))(I.field_for_key(fs, k))),
                ("field_for_key", fs, k))
            nkeys += 1
    ctx.count("field_for_key_cases", nkeys)
    # oracle on multi-field classes: a key that exactly one field of the class owns (it is that field's camelCase key, its
    # snake key or its proto name, and no other field's) must be delivered to that field by all three dict readers
    nown = 0
    for fs in fsets:
        if not all(I.usable(f) for f in fs) or len(set(fs)) != len(fs) or len(fs) < 2:
            continue
        if not all(C.safe_snake_case(f) == f for f in fs):
            continue        # only Python field names the plugin can produce (fixed points of pythonize_field_name) coexist in a class
        for f in fs:
            for key in dict.fromkeys([I.camel_key(f), I.snake_key(f), f]):
                owners = [g for g in fs if key in (I.camel_key(g), I.snake_key(g), g)]
                if owners != [f]:
                    continue
                nown += 1
                try:
                    got = I.field_for_key(fs, key)
                except Exception as e:  # noqa
                    got = f"<{type(e).__name__}: {e}>"
                if got != f:
                    ctx.fail("oracle", f"class with fields {fs}: key {key!r}, which only field {f!r} owns, is delivered to {got!r} by from_dict",
                             cls="sibling-key-misdelivered", input=["field_for_key", fs, key])
    ctx.count("owned_key_oracle_cases", nown)

    # ---------------------------------------------------------------- one-field classes: emitted keys and the end-to-end oracle
    n5 = 5 if not ctx.thorough else 6
    e2e_names = {}                                    # python field name -> (proto names of the groups, of the sweep)
    for _, s in names:
        if s.isascii() and s.isidentifier():
            e2e_names.setdefault(I.N.pythonize_field_name(s), ([], []))[0].append(s)     # the name the PLUGIN gives the field
    for s in sweep_strings(A8[:-1], n5, ""):
        if s.isidentifier() and s not in seen:
            e2e_names.setdefault(I.N.pythonize_field_name(s), ([], []))[1].append(s)
    ne2e = 0
    for F, (gsrcs, ssrcs) in e2e_names.items():
        # oracle: every proto name of the case-by-case groups; for the sweep, two proto names per field
        srcs = gsrcs + ssrcs[:2]
        if not I.usable(F):
            ctx.count("e2e_skipped(reserved or unusable name)")
            for s in srcs:
                run_oracle(ctx, I, s, e2e=False)
            continue
        try:
            M = I.cls_for([F])
            m = M(**{F: 7})
            kc, ks = list(m.to_dict(I.bp.Casing.CAMEL)), list(m.to_dict(I.bp.Casing.SNAKE))
            if ne2e < 1500 or ctx.thorough and ne2e < 6000:
                add(f"CL [CB (camel_key {qb(F)}); CB (snake_key {qb(F)})]", cl([cs(kc[0]), cs(ks[0])]), ("to_dict keys", F))
                add(f"copt CB (field_for_key [{qb(F)}] {qb(kc[0])})",
                    guarded(lambda: (lambda r: CN if r is None else cs(r))(I.field_for_key([F], kc[0]))),
                    ("field_for_key", [F], kc[0]))
        except Exception as e:  # noqa
            ctx.fail("oracle", f"one-field message with field {F!r} raised {e!r}", cls="raised", input=srcs[0])
            continue
        ne2e += 1
        for s in srcs:
            run_oracle(ctx, I, s)
        I._cls.pop((F,), None)
    ctx.count("e2e_one_field_classes", ne2e)
    # names that are not identifiers themselves never reach the plugin as field names; pure part of the oracle only
    for _, s in names:
        if s.isascii() and s and not s.isidentifier() and re.fullmatch(r"[A-Za-z0-9_.]+", s) and not s[0].isdigit():
            run_oracle(ctx, I, s, e2e=False)

    try:
        plugin_stage(ctx, I, WITNESSES + list(keyword.kwlist) + [s for s in corpus if s.isascii()], add)
    except Exception as e:  # noqa
        ctx.fail("oracle", f"running the real plugin raised {e!r}", cls="raised", input="plugin")
    ctx.cov["evaluations"] += len(pairs) + ne2e * 8
    try:
        gap_cases = gap_stage_impl(ctx, I)
    except Exception as e:  # noqa
        gap_cases = []
        ctx.fail("oracle", f"the class-level stage (gap tie) raised {e!r}", cls="raised", input="gap tie")
    if ctx.build_ok is False:
        # gen/C19Tables.v or the proofs no longer build against this tree: the model cannot be evaluated; the oracle
        # above has already looked for a failing input, lib.finish reports the proof break
        ctx.notes.append("Coq build failed: correspondence and sweeps skipped, oracle results only")
        return
    bad = compare(ctx, "c19", pairs)
    ctx.cov["disagreements_checked"] += len(pairs)
    for i in bad[:20]:
        model_val = lib.coq_eval(ctx, IMPORTS, pairs[i][0])
        ctx.fail("corr", f"model and implementation disagree on {descr[i][0]}", input=list(descr[i]),
                 expected_model=model_val, observed_impl=pairs[i][1],
                 theorem_or_correspondence="T2 correspondence Model/Casing.v <-> betterproto.casing / compile.naming / from_dict")
    for i in (0, len(pairs) // 3, len(pairs) // 2, len(pairs) - 1):
        ctx.sample({"case": descr[i], "model_expr": pairs[i][0], "impl": pairs[i][1]})

    # ---------------------------------------------------------------- the class-level predicates of the gap closing
    gap_stage_model(ctx, gap_cases)

    # ---------------------------------------------------------------- the regex specification against CPython's re
    regex_spec_stage(ctx, I, [s for _, s in names])

    # ---------------------------------------------------------------- exhaustive sweeps, by checksum
    shards = []
    for alpha, n in [(A8, n5), (ABOUND, 3 if not ctx.thorough else 4)] + ([(ADEEP, 8)] if ctx.thorough else []):
        if len(alpha) > 8 or not ctx.thorough:
            shards.append((alpha, 0, ""))
            shards += [(alpha, n - 1, a) for a in alpha]
        else:
            shards.append((alpha, 1, ""))
            shards += [(alpha, n - 2, a + b) for a in alpha for b in alpha]

    def model_sum(sh):
        alpha, n, prefix = sh
        out = lib.coq_eval(ctx, IMPORTS, f"sweep {qb(alpha)} {n}%nat {qb(prefix)}")
        m = re.search(r"=\s*\(\s*(-?\d+)\s*,\s*(-?\d+)\s*\)", out)
        return (int(m.group(1)), int(m.group(2))) if m else ("model-eval-failed", out[-400:])

    def impl_sum(sh):
        alpha, n, prefix = sh
        h = (0, 0)
        k = 0
        try:
            for s in sweep_strings(alpha, n, prefix):
                h = I.code(s, h)
                k += 1
        except Exception as e:  # noqa
            return ("impl-raised", repr(e)), k
        return h, k

    with ThreadPoolExecutor(max_workers=lib.JOBS) as ex:
        fut = ex.map(model_sum, shards)
        isums = [impl_sum(sh) for sh in shards]
        msums = list(fut)
    total = 0
    drill = []
    for sh, ms, (is_, k) in zip(shards, msums, isums):
        total += k
        ctx.count(f"exhaustive:{sh[0]}", k)
        if ms != is_:
            drill.append((sh, ms, is_))
    ctx.cov["evaluations"] += total
    ctx.cov["traces_validated_against_impl"] += total
    ctx.cov["exhaustive_sweeps"] = [{"alphabet": a, "max_len": n} for a, n in
                                    [(A8, n5), (ABOUND, 3 if not ctx.thorough else 4)] + ([(ADEEP, 8)] if ctx.thorough else [])]
    for s in sweep_strings(A8, 3, ""):
        if len(lower_words(C, s)) >= 2:
            ctx.seen_nontrivial(s)
    # a differing checksum: find the strings on which model and implementation differ
    for sh, ms, is_ in drill[:3]:
        strs = list(sweep_strings(*sh))[:4096]
        dp = [(f"case_name {qb(s)}", guarded(lambda: I.case(s))) for s in strs]
        try:
            dbad = lib.coq_compare(ctx, f"c19drill{len(ctx.failures)}", IMPORTS, dp)
        except RuntimeError:
            dbad = []
        if dbad:
            s = strs[dbad[0]]
            ctx.fail("corr", "model and implementation disagree on a string of the exhaustive sweep", input=s,
                     expected_model=lib.coq_eval(ctx, IMPORTS, dp[dbad[0]][0]), observed_impl=dp[dbad[0]][1],
                     n_differing_in_shard=len(dbad),
                     theorem_or_correspondence="T2 exhaustive sweep Model/Casing.v <-> betterproto.casing")
            for s2 in [strs[i] for i in dbad[:50]]:
                if s2 and re.fullmatch(r"[A-Za-z_][A-Za-z0-9_.]*", s2):
                    run_oracle(ctx, I, s2)
        else:
            ctx.fail("corr", f"checksum of the sweep over {sh[0]!r} with prefix {sh[2]!r} differs between model and implementation",
                     input=list(sh), expected_model=ms, observed_impl=is_, no_input=True,
                     theorem_or_correspondence="T2 exhaustive sweep Model/Casing.v <-> betterproto.casing")
    if not [f for f in ctx.failures if f["kind"] == "oracle" and f.get("cls") not in (CLS_PASCAL, CLS_CLASS)]:
        # the model is off but no proto identifier was found on which the property itself fails
        for f in ctx.failures:
            if f["kind"] == "corr":
                f["no_input"] = True

    # ---------------------------------------------------------------- build / proof broken: hunt for a failing input anyway
    # (done above: the oracle always runs over the same names)
    ctx.notes.append("key_safe / pascal_stable / class_name_ok of the model are compared bit by bit with the behaviour of the real "
                     "functions on every string of the sweeps; in the model they are proved exact for every string "
                     "(C19_key_safe_iff, C19_pascal_stable_iff, C19_class_name_ok_iff)")


def finish(ctx):
    return lib.finish(
        ctx, "proof",
        "Coq theorems over a Gallina mirror of casing.py / naming.py / the from_dict key lookup (one deterministic word scanner for the "
        "three regexes, proved equal to a regex-semantics specification of re.sub on the live pattern strings) + executable correspondence with the real functions: exhaustive sweeps by checksum inside Coq (vm_compute), "
        "keywords/builtins/corpus case by case, and an end-to-end to_dict -> from_dict oracle on dynamically built message classes",
        ASSUMPTIONS, TRUSTED, RULE,
        extra_cov={"exhaustive": False,
                   "explanation": "theorems are unbounded; the correspondence is exhaustive for all strings up to the stated length "
                                  "over the two alphabets, sampled elsewhere"})


def replay(ctx, obj):
    I = Impl()
    inp = obj.get("input")
    print("replaying", inp)
    if isinstance(inp, str):
        res = run_oracle(ctx, I, inp)
    elif isinstance(inp, list) and len(inp) == 3 and inp[0] == "field_for_key":
        got = I.field_for_key(inp[1], inp[2])
        fl = "[" + "; ".join(qb(f) for f in inp[1]) + "]"
        bad = lib.coq_compare(ctx, "c19replay", IMPORTS,
                              [(f"copt CB (field_for_key {fl} {qb(inp[2])})", CN if got is None else cs(got))])
        print(f"from_dict gives key {inp[2]!r} of a class with fields {inp[1]} to field {got!r}; "
              + ("the model disagrees" if bad else "the model agrees"))
        return 1 if bad else 0
    elif isinstance(inp, list) and len(inp) >= 2 and inp[0] in ("gap_class", "gap_protoc", "gap_plugin_fields"):
        names = inp[1]
        known = {k["cls"] for k in lib.load_known(ctx.pid) if k["status"] == "open"}
        rc = 0
        try:
            ob = gap_observe(I, names)
        except Exception as e:  # noqa
            print(f"FAILS [raised] class of proto fields {names}: the public field API raised {e!r}")
            return 1
        print(f"proto fields {names}: attributes {ob['attrs']}, legacy rule {ob['py_legacy']}, JSON-name rule {ob['py_json']}, "
              f"keys {ob.get('keys')}, (camel, snake, proto name) mapped back {ob.get('back3')}, whole object lossless {ob.get('lossless')}")
        pairs = []
        if ob.get("skip") in ("unusable-attribute", "attribute-collision+unusable"):
            pairs.append((f"gap_rules {coq_names(names)}", cl([cl([cs(a) for a in ob["attrs"]]), cbool(ob["py_legacy"]), cbool(ob["py_json"])])))
        else:
            pairs.append(gap_expected(ob))
            for cls_, what in gap_oracle(ob):
                print(("KNOWN-FINDING " if cls_ in known else "FAILS ") + f"[{cls_}] {what}")
                rc = rc or (0 if cls_ in known else 1)
        if inp[0] != "gap_class":
            r = gap_protoc_one(ctx, I, 0, names)
            print(f"protoc: rc={r['rc']} {r['out'][-200:] if r['rc'] else 'accepted'}; generated attributes {r['fields']}")
            if r["rc"] == 0 or r.get("protoc_rejected"):
                pairs.append((f"gap_json_rule {coq_names(names)}", cbool(r["rc"] == 0)))
            if r["fields"] is not None:
                pairs.append((f"CL (map CB (fields_of {coq_names(names)}))", cl([cs(f) for f in r["fields"]])))
                if len(set(r["fields"])) != len(names):
                    c = CLS_SIBLING if r["fields"] == ob["attrs"] else "generated-class-lost-field"
                    print(("KNOWN-FINDING " if c in known else "FAILS ") + f"[{c}] the generated class has the attributes {r['fields']}")
                    rc = rc or (0 if c in known else 1)
        bad = lib.coq_compare(ctx, "c19replay", GAP_IMPORTS, pairs)
        print("the model disagrees on: " + "; ".join(pairs[i][0] for i in bad) if bad else "the model agrees")
        return 1 if bad else rc
    elif isinstance(inp, list) and len(inp) == 2 and inp[0] in ("case_name", "casing(non-ascii)"):
        s = inp[1]
        if inp[0] == "case_name":
            pair = (f"case_name {qb(s)}", I.case(s))
        else:
            C = I.C
            pair = (f"CL [CB (snake_case {qb(s)}); CB (safe_snake_case {qb(s)}); CB (pascal_case {qb(s)}); CB (camel_case {qb(s)})]",
                    cl([cs(C.snake_case(s)), cs(C.safe_snake_case(s)), cs(C.pascal_case(s)), cs(C.camel_case(s))]))
        bad = lib.coq_compare(ctx, "c19replay", IMPORTS, [pair])
        print(f"casing functions on {s!r}: implementation gives {pair[1]}; " + ("the model disagrees" if bad else "the model agrees"))
        res = run_oracle(ctx, I, s) if s.isascii() and s.isidentifier() else []
        known = {k["cls"] for k in lib.load_known(ctx.pid) if k["status"] == "open"}
        for cls_, what in res:
            print(("KNOWN-FINDING " if cls_ in known else "FAILS ") + f"[{cls_}] {what}")
        return 1 if bad or [c for c, _ in res if c not in known] else 0
    elif isinstance(inp, list) and inp and isinstance(inp[-1], str):
        res = run_oracle(ctx, I, inp[-1])
    else:
        print("nothing to replay on the implementation:", obj.get("theorem_or_correspondence"))
        return 1
    known = {k["cls"] for k in lib.load_known(ctx.pid) if k["status"] == "open"}
    rc = 0
    for cls_, what in res:
        print(("KNOWN-FINDING " if cls_ in known else "FAILS ") + f"[{cls_}] {what}")
        if cls_ not in known:
            rc = 1
    if not res:
        print("the property holds on this input now")
    return rc
