"""C16 — scalar codec primitives: source-translation tie (non-alarming, recorded only), correspondence (T2),
reference comparison (T3), oracle."""
import io
import struct
from concurrent.futures import ThreadPoolExecutor

from .. import lib
from ..lib import cz, cb, cl, ce, coq_bytes, coq_z

IMPORTS = "Model.Types Model.Varint Model.Scalar Model.Sweep Model.Float Model.Object Model.Encode Model.Decode Model.Canon gen.Tables"
EXTRA_TARGETS = ["Model/Canon.vo", "Model/Decode.vo", "Model/Sweep.vo"]

TRUSTED = [
    "Coq 8.16.1 kernel and vm_compute (no native_compute); full .vo build via coq_makefile",
    "axioms: none declared; every theorem of Properties/C16.v outside its last section is 'Closed under the global context'; the float theorems "
    "of the last section (Flocq's real-number semantics of IEEE 754) use the standard library's real-number axioms named there",
    "Flocq 4.1.0 (Core, IEEE754.Binary, IEEE754.Bits) as the specification of IEEE 754 binary32 / binary64 and of round-to-nearest-even",
    "hand-written model coq/Model/Varint.v, Scalar.v tied to /repo by executable correspondence (this harness): "
    "model expressions are evaluated by vm_compute inside Coq on the same inputs the implementation ran",
    "translator harness/gen_tables.py (reflection of _pack_fmt and the type tables into coq/gen/Tables.v)",
    "Python side: harness generators, canonicalisation of exceptions to error kinds, Fletcher checksum for exhaustive ranges",
    "float/double: the model's conversions (Model/Float.v d2f / f2d) are PROVED to be the IEEE 754 round-to-nearest-even narrowing / exact "
    "widening (C16_d2f_correctly_rounded, C16_f2d_exact ...); that struct.pack / unpack on this platform (C's (float)x, IEEE 754 hardware) "
    "compute them is sampled by the correspondence (ties, subnormals, carries, overflow boundary, random) and against google.protobuf",
    "oracles: CPython 3.12 struct/io, google.protobuf 7.x (upb) for byte identity of single-field messages",
]
ASSUMPTIONS = [
    "Python int is modelled as Z; bytes as list byte; BytesIO.read(1) returns b'' at EOF",
    "math.ceil(bit_length/7) is exact for bit_length < 2^53 (float division of small ints)",
]
RULE = ("integers: exhaustive ranges (checksummed), +-64 around every 7-bit/32-bit/64-bit boundary, random 64-bit and wider; "
        "byte strings: all of length <= 2 (checksummed), random length <= 12 incl. padded and over-long varints; "
        "non-trivial = anything other than 0 / the empty string; distinct = distinct input value per primitive")


def fl_mix(h, x):
    a = h[0] + x + 1
    return (a, h[1] + a)


def fl_bytes(h, bs):
    h = fl_mix(h, len(bs))
    for b in bs:
        h = fl_mix(h, b)
    return h


ERRCODE = {"EEof": 1, "ETooLong": 3, "EValue": 3, "EUnicode": 4, "EStruct": 5, "EAttribute": 6,
           "EType": 7, "EKey": 8, "EOverflow": 9, "EFuel": 10, "EOther": 11}


def res(f, conv):
    try:
        return conv(f())
    except Exception as e:  # noqa
        return ce(lib.exc_kind(e))


def res_any(f, conv):
    try:
        return conv(f())
    except Exception:  # noqa
        return ce("EOther")



# --------------------------------------------------------------------------------------------------------------------
# Source-translation tie (second, tighter tie for the varint primitives; NON-ALARMING on its own).
#   harness/gen_c16_src.py translates the CURRENT source text of dump/encode/size/load/decode_varint (and the two zig-zag
#   expressions) into coq/gen/C16Src.v; Proofs/C16Src*.v prove the translation equal to the hand-written model;
#   Properties/C16Src.v / C16SrcZigzag.v state it.  These files are NOT among the targets of the main build (EXTRA_TARGETS):
#   a behaviour-preserving rewrite of the Python functions may make the translator reject or the proof scripts fail while
#   C16 still holds.  So this stage only RECORDS whether the tie held (evidence: input_distribution "source_tie:*",
#   coverage.source_translation_tie, an assumptions line, the theorems + Print Assumptions verdicts when it held) and NEVER
#   calls ctx.fail: when it does not hold, the sampled correspondence and the oracles below decide, as before.
# --------------------------------------------------------------------------------------------------------------------
SRC_TIE_PARTS = [
    ("varint", "C16Src.v", "dump_varint / encode_varint / size_varint / load_varint / decode_varint"),
    ("zigzag", "C16SrcZigzag.v", "the zig-zag expressions of _preprocess_single / _postprocess_single"),
]


class _AuditSink:
    """lib.audit stores its result in `.proof` of whatever it is given; keeps the main ctx.proof untouched"""
    proof = None


def source_tie_stage(ctx):
    import os
    import re

    report = {"translator": None, "parts": {}}
    ctx.cov["source_translation_tie"] = report
    lines = []
    try:
        # (a) the translator's verdict on the current source (dry run: writes nothing; setup.sh below regenerates gen/C16Src.v
        #     under the build lock)
        rc, out = lib.run([lib.PY, os.path.join(lib.VERIF, "harness", "gen_c16_src.py"), "--dry-run"], timeout=300, cwd=lib.VERIF)
        # the translator's own regression snippets (constructs outside the subset must be rejected): a translator that
        # fails them is not trusted to tie anything
        src, sout = lib.run([lib.PY, os.path.join(lib.VERIF, "harness", "gen_c16_src.py"), "--selftest"], timeout=300, cwd=lib.VERIF)
        report["translator_selftest"] = sout.strip().splitlines()[-1][:200] if sout.strip() else "no output"
        ctx.count("source_tie:translator_selftest_ok", 1 if src == 0 else 0)
        verdicts = {}
        for l in ([] if src != 0 else out.splitlines()):
            m = re.match(r"C16SRC-TRANSLATION-(OK|REJECTED): (\w+)(?:: (.*))?$", l)
            if m:
                verdicts[m.group(2)] = (m.group(1) == "OK", m.group(3) or "")
        report["translator"] = {k: {"accepted": ok, "message": why or "accepted"} for k, (ok, why) in verdicts.items()}
        for key, prop_file, what in SRC_TIE_PARTS:
            part = {"what": what, "held": False, "reason": None, "theorems": []}
            report["parts"][key] = part
            ok, why = verdicts.get(key, (False, "translator self-test failed" if src != 0 else "no verdict from the translator: " + out.strip()[-300:]))
            ctx.count(f"source_tie:{key}_translated", 1 if ok else 0)
            if not ok:
                part["reason"] = "translator rejected the current source (construct outside its subset): " + why
            else:
                brc, bout = lib.run([os.path.join(lib.VERIF, "setup.sh"), "Properties/" + prop_file + "o"], timeout=1500, cwd=lib.VERIF)
                if brc != 0:
                    err = re.findall(r'File "[^"]*", line \d+[^\n]*\n(?:[^\n]*\n){0,6}', bout)
                    part["reason"] = ("gen/C16Src.v or its proofs do not compile against the current source (the proof scripts are tied "
                                      "to the shape of the code): " + (err[0] if err else bout[-600:]).strip()[:900])
                else:
                    sink = _AuditSink()
                    pr = lib.audit(sink, prop_file)
                    part["theorems"] = pr["theorems"]
                    if pr["problems"] or pr["discharged"] != pr["obligations"] or not pr["obligations"]:
                        part["reason"] = "audit of Properties/%s: %s" % (prop_file, "; ".join(pr["problems"])[:600] or "no theorem")
                    else:
                        part["held"] = True
                        part["print_assumptions"] = "all %d theorems closed under the global context" % pr["obligations"]
                        # the audit of the main file must have succeeded for the merged counts to mean anything
                        if ctx.proof and not ctx.proof.get("problems") and ctx.build_ok:
                            ctx.proof["obligations"] += pr["obligations"]
                            ctx.proof["discharged"] += pr["discharged"]
                            ctx.proof["theorems"] = list(ctx.proof["theorems"]) + pr["theorems"]
                            ctx.proof["verdicts"] = list(ctx.proof["verdicts"]) + pr["verdicts"]
            ctx.count(f"source_tie:{key}_held", 1 if part["held"] else 0)
            lines.append(f"{key} ({what}): " + ("HELD, %d theorems of Properties/%s closed" % (len(part["theorems"]), prop_file) if part["held"]
                                                 else "DID NOT HOLD on this tree - " + str(part["reason"])[:400]))
    except Exception as e:  # noqa  - this stage must never decide the check
        report["stage_error"] = repr(e)[:500]
        lines.append("stage could not complete: " + repr(e)[:300])
        for key, _, _ in SRC_TIE_PARTS:
            if key not in report["parts"] or not report["parts"][key].get("held"):
                ctx.dist.setdefault(f"source_tie:{key}_held", 0)
    held_all = all(report["parts"].get(k, {}).get("held") for k, _, _ in SRC_TIE_PARTS)
    ctx.src_tie_line = ("source-translation tie (harness/gen_c16_src.py -> coq/gen/C16Src.v, proved equal to the model in Properties/C16Src*.v): "
                        + "; ".join(lines)
                        + (". Where it did not hold the check FELL BACK to the sampled correspondence and the oracles (no verdict is drawn "
                           "from a failed translation or a failed equality proof)." if not held_all else ""))
    ctx.notes.append(ctx.src_tie_line)
    return report


def run(ctx):
    import betterproto as bp

    source_tie_stage(ctx)

    # ------------------------------------------------------------------ inputs
    rng = ctx.rng
    ints = set()
    bounds = [0] + [1 << (7 * k) for k in range(1, 11)] + [1 << 31, 1 << 32, 1 << 63, 1 << 64]
    for b in bounds:
        for d in range(-64, 65):
            ints.add(b + d)
            ints.add(-b + d)
    for _ in range(600 if not ctx.thorough else 6000):
        bits = rng.choice([7, 14, 21, 28, 31, 32, 33, 35, 42, 49, 56, 62, 63, 64, 65, 70, 90])
        ints.add(rng.getrandbits(bits))
        ints.add(-rng.getrandbits(bits))
    ints = sorted(ints)
    ctx.count("ints_individual", len(ints))

    pairs = []
    descr = []

    def add(model, expected, d):
        pairs.append((model, expected))
        descr.append(d)

    # encode / size
    for v in ints:
        add(f"cres CB (encode_varint {coq_z(v)})", res(lambda: bp.encode_varint(v), cb), ("encode_varint", v))
        add(f"cres CZ (size_varint {coq_z(v)})", res(lambda: bp.size_varint(v), cz), ("size_varint", v))
        if v:
            ctx.seen_nontrivial(("enc", v))
    # zigzag through _preprocess_single, and postprocess paths
    FM = bp.FieldMetadata
    for v in ints:
        if abs(v) > (1 << 66):
            continue
        add(f"cres CB (encode_varint (zigzag {coq_z(v)}))",
            res(lambda: bp._preprocess_single(bp.TYPE_SINT64, "", v), cb), ("preprocess sint64", v))
        if v >= 0:
            for t, m in [("int32", f"sign_recover 32 {coq_z(v)}"), ("int64", f"sign_recover 64 {coq_z(v)}"),
                         ("sint32", f"unzigzag {coq_z(v)}"), ("sint64", f"unzigzag {coq_z(v)}"),
                         ("uint32", coq_z(v)), ("uint64", coq_z(v))]:
                add(f"CZ ({m})", res(lambda: bp.Message._postprocess_single(None, 0, FM(1, t), "f", v), cz),
                    (f"postprocess {t}", v))
            add(f"cbool (bool_of_varint {coq_z(v)})",
                res(lambda: bp.Message._postprocess_single(None, 0, FM(1, "bool"), "f", v), lib.cbool),
                ("postprocess bool", v))
    # fixed-width integer formats
    fixed = [("fixed32", "TFixed32", 5), ("sfixed32", "TSFixed32", 5), ("fixed64", "TFixed64", 1), ("sfixed64", "TSFixed64", 1)]
    for v in ints:
        if abs(v) > (1 << 65):
            continue
        for t, ct, wt in fixed:
            add(f"match pack_fmt {ct} with Some f => cres CB (pack_int f {coq_z(v)}) | None => CN end",
                res(lambda: bp._preprocess_single(t, "", v), cb), (f"pack {t}", v))
    for _ in range(300 if not ctx.thorough else 3000):
        n = rng.choice([0, 3, 4, 4, 4, 5, 7, 8, 8, 8, 9])
        bs = bytes(rng.getrandbits(8) for _ in range(n))
        if rng.random() < 0.3 and n:
            bs = bytes([rng.choice([0, 0xFF, 0x80, 0x7F])] * n)
        for t, ct, wt in fixed:
            add(f"match pack_fmt {ct} with Some f => cres CZ (unpack_int f {coq_bytes(bs)}) | None => CN end",
                res(lambda: bp.Message._postprocess_single(None, wt, FM(1, t), "f", bs), cz), (f"unpack {t}", bs.hex()))
            ctx.seen_nontrivial(("unpack", t, bs))

    def bits(x):
        return struct.unpack("<Q", struct.pack("<d", x))[0]

    # float / double packing and unpacking at the primitive level (bit patterns; -0.0, NaN, inf, subnormals, float32 rounding)
    fvals = [0.0, -0.0, 1.0, -1.5, 0.1, 1e300, 5e-324, float("inf"), float("-inf"), float("nan"), 3.4028234663852886e38,
             3.4028235677973366e38, 1e39, -1e39, 2.0 ** -149, 2.0 ** -150, 1.5 * 2.0 ** -149, 2.0 ** -126, 16777217.0, 1e-50]
    fvals += [struct.unpack("<d", struct.pack("<Q", rng.getrandbits(64)))[0] for _ in range(150 if not ctx.thorough else 3000)]
    fvals += [struct.unpack("<f", struct.pack("<I", rng.getrandbits(32)))[0] for _ in range(150 if not ctx.thorough else 3000)]
    # float32 rounding cases the theorems C16_d2f_correctly_rounded / C16_f2d_exact speak about (the tie of the model to struct stays
    # sampled): doubles lying between two adjacent binary32 numbers - exactly half way (ties to even), one binary64 ulp either side,
    # random - in the normal and the subnormal binary32 range, carries into the next binade, and the overflow boundary, both signs
    import math
    for _ in range(60 if not ctx.thorough else 1500):
        w = rng.getrandbits(32)
        if (w >> 23) & 255 == 255:
            continue
        d = bits(struct.unpack("<f", struct.pack("<I", w))[0])
        if (w >> 23) & 255 != 0:                      # normal binary32: the low 29 fraction bits of the double are the discarded ones
            for low in (1 << 28, (1 << 28) - 1, (1 << 28) + 1, rng.getrandbits(29)):
                fvals.append(struct.unpack("<d", struct.pack("<Q", d + low))[0])
        k = w & 0x7FFFFF                              # subnormal binary32 range: (k + 1/2) * 2^-149 and its binary64 neighbours
        t = math.ldexp(k + 0.5, -149) * (-1 if w >> 31 else 1)
        fvals += [t, math.nextafter(t, 0.0), math.nextafter(t, math.copysign(math.inf, t))]
    for e in (-126, -1, 0, 100, 127):                # carry: 1.ffffff8p+e and neighbours round up into the next binade (127: overflow)
        t = math.ldexp(2.0 - 2.0 ** -24, e)
        fvals += [t, -t, math.nextafter(t, 0.0), math.nextafter(t, math.inf), math.ldexp(2.0 - 2.0 ** -23, e)]
    fvals += [math.ldexp(1.0, -150), math.nextafter(math.ldexp(1.0, -150), 1.0), math.nextafter(math.ldexp(1.0, -150), 0.0),
              -math.ldexp(1.0, -150), math.ldexp(1.0, -1022), 2.5e-320, -2.5e-320, math.ldexp(1.0, 128), math.nextafter(math.ldexp(1.0, 128), 0.0)]

    for v in fvals:
        for t, ct in (("double", "TDouble"), ("float", "TFloat")):
            add(f"cv_bytes_res (pack_value {ct} (PFloat ({bits(v)})))", res_any(lambda: bp._preprocess_single(t, "", v), cb), (f"pack {t}", repr(v)))
            ctx.seen_nontrivial(("fpack", t, bits(v)))
    for _ in range(150 if not ctx.thorough else 3000):
        for t, ct, n, wt in (("double", "TDouble", 8, 1), ("float", "TFloat", 4, 5)):
            bs = bytes(rng.getrandbits(8) for _ in range(n))
            if rng.random() < 0.2:
                bs = rng.choice([b"\x00" * (n - 1) + b"\x80", b"\x00" * n, b"\xff" * n, b"\x00" * (n - 2) + (b"\xf0\x7f" if n == 8 else b"\x80\x7f")])
            add(f"cv_pv_res (unpack_value {ct} {coq_bytes(bs)})",
                res_any(lambda: bp.Message._postprocess_single(None, wt, FM(1, t), "f", bs), lambda x: f"(cv_of_pv (PFloat ({bits(x)})))"),
                (f"unpack {t}", bs.hex()))

    # decoder inputs
    streams = set()

    def enc_padded(n, pad):
        out = bytearray()
        while True:
            b = n & 0x7F
            n >>= 7
            if n or pad:
                out.append(b | 0x80)
            else:
                out.append(b)
                break
            if not n and pad:
                out += bytes([0x80] * (pad - 1)) + b"\x00"
                break
        return bytes(out)

    for _ in range(1500 if not ctx.thorough else 40000):
        kind = rng.random()
        if kind < 0.35:
            n = rng.randint(0, 12)
            s = bytes(rng.getrandbits(8) for _ in range(n))
        elif kind < 0.6:
            n = rng.randint(0, 12)
            s = bytes(rng.getrandbits(8) | 0x80 for _ in range(n))
            if rng.random() < 0.5:
                s += bytes([rng.getrandbits(7)])
        else:
            v = rng.getrandbits(rng.choice([1, 7, 8, 14, 32, 56, 63, 64]))
            s = enc_padded(v, rng.choice([0, 0, 1, 2, 5]))
            s = s[: rng.randint(max(0, len(s) - 2), len(s))] if rng.random() < 0.3 else s
            s += bytes(rng.getrandbits(8) for _ in range(rng.randint(0, 3)))
        streams.add(s)
    for n in range(8, 13):
        streams.add(b"\xff" * n)
        streams.add(b"\x80" * n + b"\x01")
        streams.add(b"\xff" * (n - 1) + b"\x7f")
    streams = sorted(streams)
    ctx.count("decoder_streams_individual", len(streams))

    def impl_load(s):
        st = io.BytesIO(s)
        v, raw = bp.load_varint(st)
        return cl([cz(v), cb(raw), cb(st.read())])

    for s in streams:
        add(f"cres (fun '(v, raw, rest) => CL [CZ v; CB raw; CB rest]) (load_varint {coq_bytes(s)})",
            res(lambda: impl_load(s), lambda x: x), ("load_varint", s.hex()))
        pos = rng.choice([0, 0, 1, 2, len(s), len(s) + 1])
        add(f"cres (fun '(v, p) => CL [CZ v; CZ p]) (decode_varint {coq_bytes(s)} {coq_z(pos)})",
            res(lambda: bp.decode_varint(s, pos), lambda r: cl([cz(r[0]), cz(r[1])])), ("decode_varint", s.hex(), pos))
        if s:
            ctx.seen_nontrivial(("load", s))

    ctx.cov["evaluations"] += len(pairs)
    bad = lib.coq_compare(ctx, "c16", IMPORTS, pairs)
    ctx.cov["disagreements_checked"] += len(pairs)
    for i in bad[:20]:
        model_val = lib.coq_eval(ctx, IMPORTS, pairs[i][0])
        ctx.fail("corr", f"model and implementation disagree on {descr[i][0]}", input=descr[i],
                 expected_model=model_val, observed_impl=pairs[i][1],
                 theorem_or_correspondence="T2 correspondence Model/Varint.v, Model/Scalar.v <-> betterproto")
    for i in (0, 5, len(pairs) // 2, len(pairs) - 1):
        ctx.sample({"case": descr[i], "model_expr": pairs[i][0], "impl": pairs[i][1]})

    # ------------------------------------------------------------------ exhaustive ranges (checksummed)
    top = 1 << 21
    nchunks = 32
    step = top // nchunks
    ranges = [("sweep_encode", lo, step) for lo in range(0, top, step)]
    ranges += [("sweep_encode", -(1 << 63) - 2048, 4096), ("sweep_encode", -4096, 4096), ("sweep_encode", (1 << 64) - 2048, 4096)]
    sc = 1 << (13 if not ctx.thorough else 16)
    ranges += [("sweep_scalar", lo, sc) for lo in (-sc // 2, (1 << 31) - sc // 2, -(1 << 31) - sc // 2,
                                                    (1 << 32) - sc // 2, (1 << 63) - sc // 2, -(1 << 63) - sc // 2,
                                                    (1 << 64) - sc // 2)]
    ranges += [("sweep_load_short", 0, 0)]

    def impl_sum(r):
        name, lo, n = r
        h = (0, 0)
        if name == "sweep_encode":
            for v in range(lo, lo + n):
                try:
                    h = fl_bytes(h, bp.encode_varint(v))
                except Exception as e:  # noqa
                    h = fl_mix(h, -ERRCODE[lib.exc_kind(e)])
                try:
                    h = fl_mix(h, bp.size_varint(v))
                except Exception as e:  # noqa
                    h = fl_mix(h, -ERRCODE[lib.exc_kind(e)])
        elif name == "sweep_scalar":
            P = bp.Message._postprocess_single
            for v in range(lo, lo + n):
                u = v % (1 << 64)
                z = bp.decode_varint(bp._preprocess_single("sint64", "", v), 0)[0] if -(1 << 62) < v < (1 << 62) else (v << 1 if v >= 0 else (v << 1) ^ (~0))
                h = fl_mix(h, z)
                h = fl_mix(h, P(None, 0, FM(1, "sint64"), "f", u))
                h = fl_mix(h, P(None, 0, FM(1, "int32"), "f", u))
                h = fl_mix(h, P(None, 0, FM(1, "int64"), "f", u))
                h = fl_mix(h, 1 if P(None, 0, FM(1, "bool"), "f", u) else 0)
        else:
            def code(s, h):
                try:
                    st = io.BytesIO(s)
                    v, raw = bp.load_varint(st)
                    return fl_mix(fl_mix(fl_mix(h, v), len(raw)), len(st.read()))
                except Exception as e:  # noqa
                    return fl_mix(h, -ERRCODE[lib.exc_kind(e)])
            h = code(b"", h)
            for a in range(256):
                h = code(bytes([a]), h)
            for n2 in range(65536):
                h = code(bytes([n2 % 256, n2 // 256]), h)
        return h

    def model_sum(r):
        name, lo, n = r
        expr = name if name == "sweep_load_short" else f"{name} {coq_z(lo)} {n}%N"
        out = lib.coq_eval(ctx, IMPORTS, expr)
        import re
        m = re.search(r"=\s*\(\s*(-?\d+)\s*,\s*(-?\d+)\s*\)", out)
        return (int(m.group(1)), int(m.group(2))) if m else ("model-eval-failed", out[-500:])

    with ThreadPoolExecutor(max_workers=lib.JOBS) as ex:
        msums = list(ex.map(model_sum, ranges))
    total = 0
    for r, ms in zip(ranges, msums):
        is_ = impl_sum(r)
        n = r[2] if r[0] != "sweep_load_short" else 65536 + 257
        total += n
        ctx.count(f"exhaustive:{r[0]}", n)
        if ms != is_:
            # locate a concrete failing input with the oracle below; record the range
            ctx.fail("corr", f"checksum of {r[0]} over [{r[1]}, {r[1] + r[2]}) differs between model and implementation",
                     input=list(r), expected_model=ms, observed_impl=is_, no_input=True,
                     theorem_or_correspondence=f"T2 exhaustive sweep {r[0]}")
    ctx.cov["evaluations"] += total
    ctx.cov["traces_validated_against_impl"] += total
    ctx.cov["exhaustive_ranges"] = [list(r) for r in ranges]
    for v in range(1, 1 << 12):
        ctx.seen_nontrivial(("enc", v))
    ctx._distinct_extra = total

    # ------------------------------------------------------------------ oracle: the property itself on the implementation
    def canonical(n):
        out = bytearray()
        while n >= 0x80:
            out.append((n & 0x7F) | 0x80)
            n >>= 7
        out.append(n)
        return bytes(out)

    def oracle_int(v):
        if -(1 << 63) <= v < (1 << 64):
            try:
                bs = bp.encode_varint(v)
            except Exception as e:  # noqa
                return f"encode_varint raised {e!r}"
            if bs != canonical(v % (1 << 64)):
                return f"encode_varint gives {bs.hex()}, canonical is {canonical(v % (1 << 64)).hex()}"
            st = io.BytesIO(bs + b"\x55")
            val, raw = bp.load_varint(st)
            if val != v % (1 << 64) or raw != bs or st.read() != b"\x55":
                return f"load_varint(encode) = {val}, raw {raw.hex()}"
            val, pos = bp.decode_varint(b"\xaa" + bs, 1)
            if val != v % (1 << 64) or pos != 1 + len(bs):
                return f"decode_varint gives ({val},{pos})"
            if bp.size_varint(v) != len(bs):
                return f"size_varint {bp.size_varint(v)} != {len(bs)}"
        elif v < -(1 << 63):
            for f in (bp.encode_varint, bp.size_varint):
                try:
                    f(v)
                    return f"{f.__name__} accepted a value below -2**63"
                except ValueError:
                    pass
        return None

    ovals = list(ints) + list(range(0, 1 << 14)) + [rng.getrandbits(64) for _ in range(20000)]
    for v in ovals:
        try:
            why = oracle_int(v)
        except Exception as e:  # noqa
            why = f"raised {e!r}"
        if why:
            ctx.fail("oracle", "varint primitive violates C16: " + why, input=v)
            break
    def oracle_signed(v):
            for t in ("sint32", "sint64"):
                enc = bp._preprocess_single(t, "", v)
                exp = canonical((2 * v) if v >= 0 else (-2 * v - 1))
                back = bp.Message._postprocess_single(None, 0, FM(1, t), "f", bp.decode_varint(enc, 0)[0])
                if enc != exp or back != v:
                    ctx.fail("oracle", f"zig-zag of {v} as {t}: bytes {enc.hex()} (spec {exp.hex()}), back {back}", input=v)
            for t, bits in (("int32", 32), ("int64", 64)):
                back = bp.Message._postprocess_single(None, 0, FM(1, t), "f", bp.decode_varint(bp.encode_varint(v), 0)[0])
                if back != v:
                    ctx.fail("oracle", f"{t} {v} decodes as {back}", input=v)

    for v in ints:
        if -(1 << 31) <= v < (1 << 31):
            try:
                oracle_signed(v)
            except Exception as e:  # noqa
                ctx.fail("oracle", f"signed round trip of {v} raised {e!r}", input=v)
    for s in streams:
        st = io.BytesIO(s)
        cont = 0
        while cont < len(s) and s[cont] & 0x80:
            cont += 1
        try:
            bp.load_varint(st)
            got = "ok"
        except EOFError:
            got = "eof"
        except ValueError:
            got = "toolong"
        exp = "toolong" if cont >= 10 else ("eof" if cont >= len(s) else "ok")
        if got != exp:
            ctx.fail("oracle", f"load_varint on {s.hex()} gives {got}, property says {exp}", input=s.hex())
            break
    ctx.cov["evaluations"] += len(ovals) + len(streams)

    # ------------------------------------------------------------------ T3: byte identity with the reference
    t3(ctx, ints, rng)


def t3(ctx, ints, rng):
    """single-field messages of all 15 scalar kinds, byte-for-byte against google.protobuf"""
    import dataclasses
    import betterproto as bp
    from google.protobuf import descriptor_pb2, descriptor_pool, message_factory

    kinds = ["double", "float", "int32", "int64", "uint32", "uint64", "sint32", "sint64", "fixed32", "fixed64",
             "sfixed32", "sfixed64", "bool", "string", "bytes"]
    fdp = descriptor_pb2.FileDescriptorProto(name=f"c16_{ctx.seed}.proto", package="c16", syntax="proto3")
    m = fdp.message_type.add(name="S")
    T = descriptor_pb2.FieldDescriptorProto
    for i, k in enumerate(kinds):
        m.field.add(name=f"f_{k}", number=i + 1, type=getattr(T, "TYPE_" + k.upper()), label=T.LABEL_OPTIONAL)
    pool = descriptor_pool.DescriptorPool()
    pool.Add(fdp)
    Ref = message_factory.GetMessageClass(pool.FindMessageTypeByName("c16.S"))
    pytypes = {"double": float, "float": float, "bool": bool, "string": str, "bytes": bytes}
    S = dataclasses.make_dataclass(
        "S", [(f"f_{k}", pytypes.get(k, int), getattr(bp, f"{k}_field")(i + 1)) for i, k in enumerate(kinds)],
        bases=(bp.Message,), eq=False, repr=False)
    rngs = {"int32": (-(1 << 31), 1 << 31), "int64": (-(1 << 63), 1 << 63), "uint32": (0, 1 << 32), "uint64": (0, 1 << 64),
            "sint32": (-(1 << 31), 1 << 31), "sint64": (-(1 << 63), 1 << 63), "fixed32": (0, 1 << 32),
            "fixed64": (0, 1 << 64), "sfixed32": (-(1 << 31), 1 << 31), "sfixed64": (-(1 << 63), 1 << 63)}
    floats = [0.0, -0.0, 1.0, -1.5, 3.4028234663852886e38, 1e-45, 5e-324, 1.7976931348623157e308, float("inf"), float("-inf"),
              0.1, 16777217.0, 2.0 ** -126, 2.0 ** -149]
    floats += [struct.unpack("<d", struct.pack("<Q", rng.getrandbits(64)))[0] for _ in range(200)]
    floats = [f for f in floats if f == f]
    n = 0
    for k in kinds:
        if k in rngs:
            lo, hi = rngs[k]
            vals = [v for v in ints if lo <= v < hi]
            vals = vals if ctx.thorough else vals[:: max(1, len(vals) // 400)]
        elif k == "bool":
            vals = [True, False]
        elif k == "string":
            vals = ["", "a", "é", "€", "\U0001f600", "x" * 200]
        elif k == "bytes":
            vals = [b"", b"\x00", b"\xff" * 130]
        elif k == "float":
            vals = []
            for f in floats:
                try:
                    vals.append(struct.unpack("<f", struct.pack("<f", f))[0])
                except OverflowError:
                    pass
        else:
            vals = floats
        for v in vals:
            mine = bytes(S(**{f"f_{k}": v}))
            ref = Ref(**{f"f_{k}": v}).SerializeToString()
            n += 1
            if mine != ref:
                negzero = k in ("float", "double") and v == 0 and str(v) == "-0.0"
                ctx.fail("oracle", f"{k} value {v!r}: betterproto bytes {mine.hex()} != reference {ref.hex()}",
                         cls="neg-zero-skipped" if negzero and mine == b"" else None, input=[k, repr(v)])
                if not negzero:
                    break
            if v:
                ctx.seen_nontrivial(("t3", k, repr(v)))
    # repeated (packed) float/double incl. -0.0 elements: element encodings byte-identical to the reference
    from typing import List
    fdp2 = descriptor_pb2.FileDescriptorProto(name=f"c16r_{ctx.seed}.proto", package="c16r", syntax="proto3")
    m2 = fdp2.message_type.add(name="R")
    m2.field.add(name="rf", number=1, type=T.TYPE_FLOAT, label=T.LABEL_REPEATED)
    m2.field.add(name="rd", number=2, type=T.TYPE_DOUBLE, label=T.LABEL_REPEATED)
    pool.Add(fdp2)
    RefR = message_factory.GetMessageClass(pool.FindMessageTypeByName("c16r.R"))
    R = dataclasses.make_dataclass("R", [("rf", List[float], bp.float_field(1)), ("rd", List[float], bp.double_field(2))],
                                   bases=(bp.Message,), eq=False, repr=False)
    f32s = [struct.unpack("<f", struct.pack("<f", f))[0] for f in floats if abs(f) < 3.5e38 or f in (float("inf"), float("-inf"))]
    for _ in range(60):
        rf = [rng.choice(f32s + [-0.0, 0.0]) for _ in range(rng.randint(1, 4))]
        rd = [rng.choice(floats + [-0.0, 0.0]) for _ in range(rng.randint(1, 4))]
        mine = bytes(R(rf=rf, rd=rd))
        ref = RefR(rf=rf, rd=rd).SerializeToString()
        n += 1
        if mine != ref:
            ctx.fail("oracle", f"repeated float/double {rf!r} {rd!r}: betterproto bytes {mine.hex()} != reference {ref.hex()}",
                     input=["repeated", repr(rf), repr(rd)])
            break
    ctx.count("t3_single_field_messages", n)
    ctx.cov["evaluations"] += n
    ctx.notes.append("T3: a singular float/double field holding -0.0 is skipped by betterproto (== default) and emitted by the reference: "
                     "known finding K14 (class neg-zero-skipped); inside packed repeated fields -0.0 must be (and is) byte-identical")


def finish(ctx):
    tie = ctx.cov.get("source_translation_tie") or {}
    held = [k for k, p in (tie.get("parts") or {}).items() if p.get("held")]
    assumptions = list(ASSUMPTIONS) + [getattr(ctx, "src_tie_line", "source-translation tie: stage not run")]
    trusted = list(TRUSTED)
    if held:
        trusted.append("source-translation tie (held for: " + ", ".join(held) + "): the translator harness/gen_c16_src.py (Python `ast`, fail-closed, "
                       "accepted subset documented in its header) and the semantics of the Python primitives it targets, coq/Model/C16SrcLib.v "
                       "(ints as Z, bytes as lists, streams as byte lists, exceptions by class only, stream state dropped on an exception); "
                       "for these functions the hand-written model is no longer trusted beyond that: it is PROVED equal to the translation")
    return lib.finish(
        ctx, "proof",
        "Coq theorems over a Gallina mirror of the varint/zig-zag/fixed primitives + executable correspondence (vm_compute) with the implementation"
        + ("; varint primitives additionally tied by mechanical source translation proved equal to the model" if "varint" in held else ""),
        assumptions, trusted, RULE,
        extra_cov={"exhaustive": False,
                   "explanation": "theorems are unbounded; the correspondence is exhaustive below 2**21 and on all byte strings of length <= 2, sampled elsewhere"})


def replay(ctx, obj):
    print(obj)
    return 0
