"""C13 — cross-package type references in generated code resolve to the right class.

Stages (after build + audit done by harness.main):
  H   the hypotheses the Coq theorems make about casing.pascal_case / safe_snake_case, sampled on the real functions
  T2  string-level correspondence Model/Importing.v <-> betterproto.compile.importing
      (parse_source_type_name; get_type_reference for ALL ordered pairs of package paths of depth 0..3 over {a,b,c}
       x 4 referenced kinds, plus google.protobuf / betterproto / odd-name cases; output file names of parser.py)
  G   real generation: .proto files -> the real plugin -> import under a unique root package in a subprocess ->
      identity of the resolved annotation / cls_by_field / rpc handler types with the class generated for the target
      (found by a marker field, independently of any naming function); sites field, repeated, map value, oneof,
      rpc input, rpc output (unary and streaming); all-at-once (protoc + plugin binary) and pairwise in isolation
      (plugin's generate_code on protoc's descriptors); circular packages throughout.
  L   (K32 mechanism) every field annotation of the generated packages of G (standard dataclasses) is evaluated on the REAL
      classes BOTH ways - betterproto's own Message._type_hints (module namespace only) and with the class namespace in scope
      (typing.get_type_hints with localns = vars(cls), what typing's default and pydantic do) - and success / failure of each is
      compared, inside Coq, with Model/C13Hints.v betterproto_hint / class_scope_hint (Spec/PyImportLocals.v resolve_with_locals)
      evaluated on the model's get_type_reference in the world of the real modules, with the REAL keys of vars(cls) as namespace.
      The class-scoped evaluation failing on the fields called like their import alias (and on aliases that are dunder names of
      every class: packages doc / module referenced from a child) is the K32 mechanism: REPORTED AS A COUNT, not a C13 failure
      (K32 is recorded under C18); a disagreement between model and real classes is a correspondence violation.
"""
import itertools
import json
import os
import subprocess
import sys
import time
import traceback

from .. import lib
from ..lib import cb, cl, cz, CN, coq_bytes

TRUSTED = [
    "Coq 8.16.1 kernel and vm_compute; full .vo build via coq_makefile",
    "axioms: none (every theorem of Properties/C13.v is 'Closed under the global context')",
    "specification coq/Spec/PyImport.v (what `import m as z` / `from ..x import y as z` bind inside a package, what a dotted "
    "annotation denotes): final bindings only, import-time ordering of circular packages is exercised by real generation, not modelled",
    "hand-written model coq/Model/Importing.v tied to /repo by executable correspondence (this harness, vm_compute inside Coq)",
    "specification coq/Spec/PyImportLocals.v (eval of a dotted annotation with a class namespace as locals: typing.get_type_hints' default "
    "for classes, pydantic) and coq/Model/C13Hints.v (Message._type_hints passes an EMPTY locals mapping), tied by stage L: both evaluations "
    "of every generated field annotation on the real classes vs the model inside Coq, with the real keys of vars(cls)",
    "the field-name theorems (C13_locals_fields_exact, C13_field_name_no_double_underscore, C13_desc_alias_is_field_name) are about the casing "
    "MODEL coq/Model/Casing.v (safe_snake_case = pythonize_field_name), whose correspondence with casing.py is property C19's check",
    "translator harness/gen_c13.py (WRAPPER_TYPES and sample values of the casing functions -> coq/gen/C13Tables.v)",
    "casing.pascal_case / safe_snake_case are parameters of the theorems; the hypotheses made about them are sampled here on the real functions",
    "Python side: .proto writer, marker-based identification of the target class, typing.get_type_hints, grpc_tools.protoc 1.84, "
    "pass-through `ruff` shim (ruff is not installed: formatting / unused-import removal are not exercised)",
]
ASSUMPTIONS = [
    "str is modelled as its UTF-8 bytes; re's [^A-Z] and . act bytewise the same as on code points",
    "hypotheses of the theorems about the casing functions (parameters cls_name = pythonize_class_name/pascal_case, snake = "
    "safe_snake_case), each sampled on the real functions by this check: (i) snake's result consists of [A-Za-z0-9_] for every input; "
    "(ii) snake('.'.join(l)) = '_'.join(l) for segments of the form [a-z]+[0-9]* that are not keywords (C13_no_alias_clash, C13_coexist); "
    "(iii) for each referenced type name T: cls_name(T) is an ASCII identifier, not a keyword, starting with an upper-case letter or digit; "
    "(iv) cls_name('Foo.Bar') = cls_name('_Foo_Bar') (reference vs. class statement, C13_class_name)",
    "the generated tree is placed inside a package (root <> []): betterproto's relative imports climb to the parent of the "
    "top-level proto package (C13_toplevel_refuted shows the statement is false otherwise; README generates into ./lib)",
    "side conditions of C13_resolves: package segments are ASCII identifiers without upper-case letters, not keywords, first segment "
    "not `betterproto` (K30), target not google.protobuf itself (C13_wellknown covers it); type names have no '.' before their first "
    "upper-case letter (K2); C13_coexist additionally: segments of the form [a-z]+[0-9]* (K31 otherwise)",
    "world model of Spec/PyImport.v: module attributes = its classes, then its sub-packages; names a module binds through its own "
    "imports are not attributes visible to OTHER modules' from-imports; final bindings only (no import-time ordering)",
    "Jinja rendering and Python's importer are exercised for real in the generation tie but no theorem speaks about them",
    "class-scoped evaluation (Spec/PyImportLocals.v): an object a class body binds (a field's default, a method, the __module__ / __doc__ "
    "strings) is neither a module nor a generated class and has no attribute named like a generated class, so a reference whose first name "
    "is a key of the class namespace denotes nothing; which keys a class namespace has is NOT modelled - the theorems hold for any list of "
    "names, the field-name corollaries for the pythonised field names, and stage L feeds the model the real keys of vars(cls)",
]
RULE = ("T2: exhaustive over ordered pairs of package paths of depth 0..3 over {a,b,c} x {message, nested message, enum, nested enum}; "
        "all strings over {a,B,.,_,newline} up to length 5 for the regex; random odd names. "
        "Generation: all ordered pairs over the path set of the tier, each pair x 4 kinds x {field, repeated, map value, oneof} "
        "+ rpc in/out unary and streaming; non-trivial = referencing package differs from target package; "
        "distinct = distinct (referencing path, target path, kind, site). "
        "L: every field of the generated message classes of G's unlabelled jobs plus four own jobs (parent packages doc / module = dunder alias; "
        "shop / shop.item with and without a field called like the alias), each evaluated module-level and class-scoped; class-scoped failures are "
        "counted by cause, not failures of C13")

IMPORTS_BASE = "Model.Importing gen.C13Tables"
KINDS = ["Msg", "Outer.Inner", "En", "Outer.NEn"]          # top-level message, nested message, enum, nested enum
MARK = {"Msg": "mk_msg", "Outer.Inner": "mk_inner", "En": "TOP_ONE", "Outer.NEn": "NEST_ONE"}
SITES = ["field", "repeated", "map", "oneof"]


# ======================================================================================================
# helpers
# ======================================================================================================
def paths_over(alpha, depth):
    out = [()]
    for d in range(1, depth + 1):
        out += list(itertools.product(alpha, repeat=d))
    return out


def relation(cur, tgt):
    if cur == tgt:
        return "same"
    if not tgt:
        return "root"
    if tgt[:len(cur)] == cur:
        return "descendant"
    if cur[:len(tgt)] == tgt:
        return "ancestor"
    if len(cur) == len(tgt) and cur[:-1] == tgt[:-1]:
        return "sibling"
    return "cousin"


def coq_tbl(d):
    return "[" + "; ".join(f"({coq_bytes(k.encode())}, {coq_bytes(v.encode())})" for k, v in sorted(d.items())) + "]"


def contiguous_joins(segs):
    out = set()
    n = len(segs)
    for i in range(n):
        for j in range(i + 1, n + 1):
            out.add(".".join(segs[i:j]))
    return out


# ======================================================================================================
# H: hypotheses about the casing functions, sampled on the real code
# ======================================================================================================
def hypotheses(ctx):
    import keyword
    import re
    from betterproto import casing
    from betterproto.compile.naming import pythonize_class_name as cls_name

    rng = ctx.rng
    ident = re.compile(r"^[A-Za-z_][A-Za-z0-9_]*$")
    n = 0
    # type names: proto identifiers, nested with '.', first segment upper-initial (conventional) or arbitrary
    def seg(upper):
        first = rng.choice("ABCXYZ" if upper else "abcxyz_ABC")
        rest = "".join(rng.choice("abcXYZ019_") for _ in range(rng.randint(0, 6)))
        return first + rest
    names = ["Msg", "Outer.Inner", "En", "Outer.NEn", "Foo", "Foo.Bar", "FooBar", "HTTPServer.V2", "A", "A.B.C", "X_Y.Z_W"]
    for _ in range(3000 if not ctx.thorough else 30000):
        k = rng.randint(1, 3)
        names.append(".".join(seg(i == 0 or rng.random() < 0.7) for i in range(k)))
    for T in names:
        n += 1
        c = cls_name(T)
        flat = "_" + T.replace(".", "_")
        # H_cls_flat: reference and flattened definition agree
        if cls_name(flat) != c:
            ctx.fail("oracle", f"hypothesis H_cls_flat fails: pythonize_class_name({T!r})={c!r} but the class is defined as "
                     f"pythonize_class_name({flat!r})={cls_name(flat)!r}", cls="hyp-cls-flat", input=T)
            break
        if T[0].isupper():
            # H_cls_ident / no underscore / first char not lower-case, for upper-initial names
            if not ident.match(c) or keyword.iskeyword(c) or "_" in c or not (c[0].isupper() or c[0].isdigit()) or not c.isascii():
                ctx.fail("oracle", f"hypothesis on class names fails: pythonize_class_name({T!r})={c!r}", cls="hyp-cls-ident", input=T)
                break
    # snake: plain segments [a-z]+[0-9]* ; safe_snake_case(".".join(l)) == "_".join(l)
    def plain():
        return "".join(rng.choice("abcxyz") for _ in range(rng.randint(1, 5))) + "".join(rng.choice("019") for _ in range(rng.choice([0, 0, 1, 2])))
    cases = [["a"], ["a", "b"], ["betterproto", "lib", "google", "protobuf"], ["betterproto", "lib", "pydantic", "google", "protobuf"]]
    for _ in range(3000 if not ctx.thorough else 30000):
        cases.append([plain() for _ in range(rng.randint(1, 4))])
    for l in cases:
        if len(l) == 1 and keyword.iskeyword(l[0]):
            continue
        n += 1
        s = casing.safe_snake_case(".".join(l))
        if s != "_".join(l):
            ctx.fail("oracle", f"hypothesis H_snake fails: safe_snake_case({'.'.join(l)!r})={s!r}", cls="hyp-snake", input=l)
            break
    # snake output is always an identifier (any input of identifier-ish segments)
    for _ in range(2000):
        l = [seg(False) for _ in range(rng.randint(1, 4))]
        s = casing.safe_snake_case(".".join(l))
        n += 1
        if not ident.match(s) or keyword.iskeyword(s):
            ctx.fail("oracle", f"hypothesis H_snake_ident fails: safe_snake_case({'.'.join(l)!r})={s!r}", cls="hyp-snake-ident", input=l)
            break
    # snake output consists of identifier characters for ANY input (hypothesis `forall s, ident_chars (snake s)`)
    chars = re.compile(r"^[A-Za-z0-9_]*$")
    for _ in range(3000 if not ctx.thorough else 30000):
        s0 = "".join(rng.choice("abzABZ019_.-/ é\u00df\u4e2d\n$") for _ in range(rng.randint(0, 12)))
        s = casing.safe_snake_case(s0)
        n += 1
        if not chars.match(s):
            ctx.fail("oracle", f"hypothesis snake_chars fails: safe_snake_case({s0!r})={s!r}", cls="hyp-snake-chars", input=s0)
            break
    ctx.count("hypothesis_samples", n)
    ctx.cov["evaluations"] += n


# ======================================================================================================
# T2
# ======================================================================================================
def hmix(h, x):
    a = h[0] + x + 1
    return (a, h[1] + a)


def hmix_bytes(h, bs):
    h = hmix(h, len(bs))
    for c in bs:
        h = hmix(h, c)
    return h


def hcv(h):
    return cl([cz(h[0]), cz(h[1])])


def t2(ctx):
    from betterproto import casing
    from betterproto.compile import importing
    from betterproto.compile.naming import pythonize_class_name
    from betterproto.plugin import typing_compiler as tcm

    rng = ctx.rng
    pairs, descr = [], []

    compilers = {"direct": tcm.DirectImportTypingCompiler, "root": tcm.TypingImportTypingCompiler, "310": tcm.NoTyping310TypingCompiler}
    opt_expr = {}
    for k, C in compilers.items():
        s = C().optional("@")
        pre, suf = s.split("@")
        opt_expr[k] = f"(fun s => {coq_bytes(pre.encode())} ++ s ++ {coq_bytes(suf.encode())})"

    def impl(package, source_type, unwrap, pydantic, comp):
        imps = set()
        r = importing.get_type_reference(package=package, imports=imps, source_type=source_type,
                                         typing_compiler=compilers[comp](), unwrap=unwrap, pydantic=pydantic)
        if len(imps) > 1:
            raise RuntimeError("more than one import added")
        return r, (sorted(imps)[0] if imps else None)

    def tables_for(source_type):
        """real values of the two casing functions on everything the model may look up for this input"""
        sp, st = importing.parse_source_type_name(source_type)
        py = sp.split(".") if sp else []
        snk = set()
        for pre in ([], ["betterproto", "lib"], ["betterproto", "lib", "pydantic"]):
            l = pre + py
            for i in range(len(l)):
                snk.add(".".join(l[i:]))
        return {st: pythonize_class_name(st)}, {x: casing.safe_snake_case(x) for x in snk}

    def ref_case(package, source_type, unwrap=True, pydantic=False, comp="direct", tag="pair", CLS=None, SNK=None):
        if CLS is None:
            c, k = tables_for(source_type)
            CLS, SNK = f"(tbl_fun {coq_tbl(c)})", f"(tbl_fun {coq_tbl(k)})"
        try:
            r, imp = impl(package, source_type, unwrap, pydantic, comp)
            exp = cl([cb(r.encode()), cb(imp.encode()) if imp is not None else CN])
        except Exception as e:  # noqa
            exp = lib.ce(lib.exc_kind(e))
        m = (f"(let '(r, i) := get_type_reference {CLS} {SNK} {opt_expr[comp]} {coq_bytes(package.encode())} "
             f"{coq_bytes(source_type.encode())} {lib.coq_bool(unwrap)} {lib.coq_bool(pydantic)} in CL [CB r; copt CB i])")
        return (m, exp), ("get_type_reference", package, source_type, unwrap, pydantic, comp, tag)

    def parse_case(s):
        try:
            p, n = importing.parse_source_type_name(s)
            exp = cl([cb(p.encode()), cb(n.encode())])
        except Exception as e:  # noqa
            exp = lib.ce(lib.exc_kind(e))
        return (f"(let '(p, n) := parse_source_type_name {coq_bytes(s.encode())} in CL [CB p; CB n])", exp), ("parse_source_type_name", s)

    # ================= exhaustive families, as checksums computed on both sides =================
    sweeps = []      # (model expr, expected, descr, fallback: function producing detailed cases)
    alpha = "aB._\n"
    maxlen = 5 if not ctx.thorough else 6
    nstr = 0
    for L in range(0, maxlen + 1):
        for pre in ([""] if L < maxlen else list(alpha)):
            n = L - len(pre)
            h = (0, 0)
            ss = [pre + "".join(t) for t in itertools.product(alpha, repeat=n)]
            for s in ss:
                p, t = importing.parse_source_type_name(s)
                h = hmix_bytes(hmix_bytes(h, p.encode()), t.encode())
            nstr += len(ss)
            sweeps.append((f"hcv (sweep_parse {coq_bytes(alpha.encode())} {coq_bytes(pre.encode())} {n}%nat)", hcv(h),
                           ("sweep_parse", alpha, pre, n), (lambda ss=ss: [parse_case(s) for s in ss])))
    ctx.count("t2_parse_strings_exhaustive", nstr)
    for s in [".a.B", ".a.b.B", "a.B.B", ".B.a", "..a.B", ".a.b\nB"]:
        ctx.seen_nontrivial(("parse", s))

    P3 = paths_over("abc", 3)
    # fixed tables for the exhaustive pairs
    cls_t = {k: pythonize_class_name(k) for k in KINDS}
    snk_in = set()
    for p in P3:
        snk_in |= contiguous_joins(list(p))
    snk_t = {x: casing.safe_snake_case(x) for x in snk_in}
    prelude = (f"Definition CLS := tbl_fun {coq_tbl(cls_t)}.\nDefinition SNK := tbl_fun {coq_tbl(snk_t)}.\n"
               f"Definition OPT := {opt_expr['direct']}.\n"
               "Definition ALPHA : list (list byte) := [[x61]; [x62]; [x63]].\n"
               f"Definition KINDS : list (list byte) := [{'; '.join(coq_bytes(k.encode()) for k in KINDS)}].\n"
               "Definition P3 := paths_upto ALPHA 3.\n")

    def coq_path(p):
        return "[" + "; ".join(coq_bytes(x.encode()) for x in p) + "]"

    raised = 0
    for cur in P3:
        h = (0, 0)
        for tgt in P3:
            for kind in KINDS:
                try:
                    r, imp = impl(".".join(cur), "." + ".".join(tgt + (kind,)), True, False, "direct")
                except Exception as e:  # noqa  the plugin itself would crash on this reference
                    if raised < 3:
                        ctx.fail("oracle", f"get_type_reference(package={'.'.join(cur)!r}, source_type={'.' + '.'.join(tgt + (kind,))!r}) "
                                 f"raised {type(e).__name__}: {e}", cls=None, input={"package": ".".join(cur), "source_type": "." + ".".join(tgt + (kind,))})
                    raised += 1
                    h = hmix(h, -2)
                    continue
                h = hmix_bytes(h, r.encode())
                h = hmix_bytes(h, imp.encode()) if imp is not None else hmix(h, -1)
                ctx.count("t2_rel:" + relation(cur, tgt))
                if cur != tgt:
                    ctx.seen_nontrivial(("t2", cur, tgt, kind))

        def fb(cur=cur):
            return [ref_case(".".join(cur), "." + ".".join(tgt + (kind,)), True, False, "direct", "pair", "CLS", "SNK")
                    for tgt in P3 for kind in KINDS]
        sweeps.append((f"hcv (sweep_refs CLS SNK OPT {coq_path(cur)} P3 KINDS true false)", hcv(h), ("sweep_refs", cur), fb))
    ctx.count("t2_pairs_depth3_x_kinds_exhaustive", len(P3) * len(P3) * len(KINDS))

    bad_sw = lib.coq_compare(ctx, "c13sw", IMPORTS_BASE, [(m, e) for m, e, _, _ in sweeps], chunk=4, prelude=prelude)
    ctx.cov["traces_validated_against_impl"] += nstr + len(P3) * len(P3) * len(KINDS) - len(sweeps)
    ctx.cov["evaluations"] += nstr + len(P3) * len(P3) * len(KINDS)
    for i in bad_sw[:6]:            # localise: case by case inside the families that differ
        det = sweeps[i][3]()
        pairs += [d[0] for d in det]
        descr += [d[1] for d in det]
    if bad_sw:
        ctx.notes.append(f"checksums differ for {[sweeps[i][2] for i in bad_sw[:6]]}; compared case by case")

    # ================= individually compared cases =================
    def add(c):
        pairs.append(c[0])
        descr.append(c[1])

    extra = [".a.b.Msg", "a.b.Msg", ".Msg", ".a.Cap.M", ".a.foo.Bar", ".google.protobuf.Struct", "..a.B", ".a.", "a..B", ".A.b.c",
             ".a.b.C\nD.e", ".é.B", ".a.Éb.c", ".a1.b2.C3", ".a_b.c_d.E_f.G_h", "", ".", "..", "Z", "z"]
    strs = set(extra)
    for _ in range(300 if not ctx.thorough else 3000):
        strs.add("".join(rng.choice("abzABZ..._09\né") for _ in range(rng.randint(0, 14))))
    for s in sorted(strs):
        add(parse_case(s))
        if "." in s.strip("."):
            ctx.seen_nontrivial(("parse", s))
    ctx.count("t2_parse_strings_individual", len(strs))

    # regression corpus first
    cpath = os.path.join(lib.VERIF, "corpus", "C13_cases.json")
    if os.path.exists(cpath):
        cp = json.load(open(cpath))
        for pkg, st in cp.get("get_type_reference", []):
            for unwrap in (True, False):
                add(ref_case(pkg, st, unwrap, False, tag="corpus"))
        for st in cp.get("parse_source_type_name", []):
            add(parse_case(st))
        ctx.count("t2_corpus_cases", 2 * len(cp.get("get_type_reference", [])) + len(cp.get("parse_source_type_name", [])))
    # well-known types, google.protobuf itself, all compilers
    wk = sorted(importing.WRAPPER_TYPES) + [".google.protobuf.Duration", ".google.protobuf.Timestamp", ".google.protobuf.Struct",
                                            ".google.protobuf.Empty", ".google.protobuf.Any", ".google.protobuf.FieldMask",
                                            ".google.protobuf.compiler.Version", ".google.Foo", ".google.protobuf2.X",
                                            "google.protobuf.Int32Value", ".google.protobuf.int32value"]
    nwk = 0
    wk_curs = ["", "a", "a.b", "google", "google.protobuf", "google.protobuf.compiler", "betterproto", "betterproto.lib"]
    for cur in (wk_curs if ctx.thorough else wk_curs[:5]):
        for s in wk:
            for unwrap, pyd, comp in [(True, False, "direct"), (True, True, "root"), (True, False, "310"),
                                      (False, False, "direct"), (False, True, "direct")]:
                add(ref_case(cur, s, unwrap, pyd, comp, tag="wellknown"))
                nwk += 1
                ctx.seen_nontrivial(("t2wk", cur, s, unwrap, pyd))
    ctx.count("t2_wellknown_cases", nwk)
    # a sample of the exhaustive family also individually, with random flags (guards the checksum path itself)
    for _ in range(150):
        cur, tgt = rng.choice(P3), rng.choice(P3)
        add(ref_case(".".join(cur), "." + ".".join(tgt + (rng.choice(KINDS),)), rng.random() < 0.5, rng.random() < 0.5, tag="pair-sample"))
    # odd segments
    segs = ["a", "b", "c", "a_b", "a1", "a1b", "Cap", "x", "betterproto", "google", "protobuf", "_p", "class", "é", ""]
    tnames = ["Msg", "Outer.Inner", "foo", "foo.Bar", "fooBar", "_X", "X_y.Z", "HTTPReq", "m"]
    nodd = 700 if not ctx.thorough else 10000
    for _ in range(nodd):
        cur = [rng.choice(segs) for _ in range(rng.choice([0, 1, 1, 2, 2, 3, 4]))]
        if rng.random() < 0.6 and cur:
            k = rng.randint(0, len(cur))
            tgt = cur[:k] + [rng.choice(segs) for _ in range(rng.choice([0, 1, 2]))]
        else:
            tgt = [rng.choice(segs) for _ in range(rng.choice([0, 1, 2, 3, 4]))]
        T = rng.choice(tnames)
        add(ref_case(".".join(cur), ("." if rng.random() < 0.9 else "") + ".".join(tgt + [T]), rng.random() < 0.5, rng.random() < 0.3, tag="odd"))
        ctx.seen_nontrivial(("t2odd", tuple(cur), tuple(tgt), T))
    ctx.count("t2_odd_cases", nodd)

    # ---- output files: model's response_files vs names the plugin puts in its response
    from .. import plugin_util as pu
    shim = pu.shim_dir(ctx.work)
    if shim not in os.environ.get("PATH", "").split(":"):
        os.environ["PATH"] = shim + ":" + os.environ.get("PATH", "")
    out_cases = [[""], ["a"], ["a.b.c"], ["a.b", "a"], ["a.b.c", "x.y", ""], ["a..b"], ["a.b", "a.b.c.d", "c"]]
    for pk in out_cases:
        real = plugin_response_names(pk)
        cand = set(real) | {"__init__.py", "a/__init__.py", "a/b/__init__.py", "x/__init__.py", "b/__init__.py", "a/b/c/d/e/__init__.py"}
        plist = "[" + "; ".join(coq_bytes(p.encode()) for p in pk) + "]"
        for f in sorted(cand):
            pairs.append((f"cbool (existsb (bytes_eqb {coq_bytes(f.encode())}) (response_files {plist}))", lib.cbool(f in real)))
            descr.append(("response_files", pk, f))
        pairs.append((f"CZ (Z.of_nat (length (response_files {plist})))", cz(len(real))))
        descr.append(("response_files_count", pk))
    ctx.count("t2_output_file_cases", len(out_cases))

    # ---- traverse(): the flattened names the class statements are made from
    try:
        from betterproto.lib.google.protobuf import DescriptorProto, EnumDescriptorProto, FileDescriptorProto
        from betterproto.plugin.parser import traverse

        leaf = DescriptorProto(name="Leaf_x")
        inner = DescriptorProto(name="Inner", nested_type=[leaf], enum_type=[EnumDescriptorProto(name="NEn")])
        outer = DescriptorProto(name="Outer", nested_type=[inner, DescriptorProto(name="second")])
        fd = FileDescriptorProto(name="t.proto", package="p", message_type=[outer, DescriptorProto(name="Msg")],
                                 enum_type=[EnumDescriptorProto(name="En")])
        want = {(5, 0): ["En"], (4, 0): ["Outer"], (4, 0, 3, 0): ["Outer", "Inner"], (4, 0, 3, 0, 4, 0): ["Outer", "Inner", "NEn"],
                (4, 0, 3, 0, 3, 0): ["Outer", "Inner", "Leaf_x"], (4, 0, 3, 1): ["Outer", "second"], (4, 1): ["Msg"]}
        got = {tuple(path): item.name for item, path in traverse(fd)}
        for path, nested in want.items():
            nl = "[" + "; ".join(coq_bytes(x.encode()) for x in nested) + "]"
            pairs.append((f"CB (flat_name [] {nl})", cb(got.get(path, "<missing>").encode())))
            descr.append(("traverse_flat_name", list(path), nested))
        if set(got) != set(want):
            ctx.fail("corr", f"traverse yields paths {sorted(got)} , expected {sorted(want)}", input="traverse", no_input=True,
                     theorem_or_correspondence="T2 traverse / flat_name")
        ctx.count("t2_traverse_names", len(want))
    except Exception:  # noqa
        ctx.fail("corr", "traverse correspondence raised: " + traceback.format_exc()[-800:], no_input=True,
                 theorem_or_correspondence="T2 traverse / flat_name")

    ctx.cov["evaluations"] += len(pairs)
    bad = lib.coq_compare(ctx, "c13", IMPORTS_BASE, pairs, chunk=200, prelude=prelude)
    ctx.cov["disagreements_checked"] += len(pairs) + len(sweeps)
    for i in bad[:12]:
        d = descr[i]
        ctx.fail("corr", f"model and implementation disagree on {d[0]}", input=list(d), model_expr=pairs[i][0][:900],
                 observed_impl=pairs[i][1], theorem_or_correspondence="T2 correspondence Model/Importing.v <-> betterproto.compile.importing / plugin.parser")
    if bad_sw and not bad:
        ctx.fail("corr", "exhaustive checksum differs but no individual case does (harness enumeration out of step with the model)",
                 input=[list(map(str, sweeps[i][2])) for i in bad_sw[:6]], no_input=True,
                 theorem_or_correspondence="T2 exhaustive sweep Model/Importing.v")
    for i in (0, 30, 400, len(pairs) - 1):
        if i < len(pairs):
            ctx.sample({"case": list(descr[i]), "impl": pairs[i][1]})
    return bad, descr


def plugin_response_names(pkgs):
    """file names in the CodeGeneratorResponse of the real generate_code for one empty file per package"""
    from betterproto.lib.google.protobuf import FileDescriptorProto
    from betterproto.lib.google.protobuf.compiler import CodeGeneratorRequest
    from betterproto.plugin.parser import generate_code

    cwd = os.getcwd()
    files = [FileDescriptorProto(name=f"f{i}.proto", package=p, syntax="proto3") for i, p in enumerate(pkgs)]
    req = CodeGeneratorRequest(file_to_generate=[f.name for f in files], proto_file=files)
    d = os.path.join("/tmp", f"c13-empty-{os.getpid()}")
    os.makedirs(d, exist_ok=True)
    try:
        os.chdir(d)                      # `.exists()` in parser.py looks at the cwd
        with _quiet_stderr():
            resp = generate_code(req)
    finally:
        os.chdir(cwd)
        try:
            os.rmdir(d)
        except OSError:
            pass
    return sorted(f.name for f in resp.file)


class _quiet_stderr:
    def __enter__(self):
        self.old = sys.stderr
        sys.stderr = open(os.devnull, "w")

    def __exit__(self, *a):
        sys.stderr.close()
        sys.stderr = self.old


# ======================================================================================================
# G: real generation
# ======================================================================================================
def pkg_stmt(P):
    return f"package {'.'.join(P)};\n" if P else ""


def fq(P, kind):
    return "." + ".".join(tuple(P) + (kind,))


def types_proto(P, lower=False):
    return ('syntax = "proto3";\n' + pkg_stmt(P) +
            "message Msg { int32 mk_msg = 1; }\n"
            "message Outer {\n  message Inner { int32 mk_inner = 1; }\n  enum NEn { NEST_ZERO = 0; NEST_ONE = 1; }\n  int32 mk_outer = 1;\n}\n"
            "enum En { TOP_ZERO = 0; TOP_ONE = 1; }\n")


def refs_proto(P, targets, jobdir, full, services=True, alias_fields=True):
    """message Refs in package P referencing the 4 kinds of every target package.
    Returns (text, expectations) ; expectations: list of dicts {field|rpc, site, target, kind}"""
    lines = ['syntax = "proto3";', pkg_stmt(P)]
    for t in sorted(set(targets)):
        if tuple(t) != tuple(P) or True:
            lines.append(f'import "t/types_{"-".join(t) or "root"}.proto";')
    exp = []
    body, n = [], 1
    rpcs = []
    used_names = set()
    for ti, Q in enumerate(targets):
        combos = [(s, k) for s in range(4) for k in range(4)] if full else [(s, (s + ti) % 4) for s in range(4)]
        for s, k in combos:
            kind = KINDS[k]
            site = SITES[s]
            fname = f"f{ti}_{site}_{k}"
            rest = list(Q)[len(P):]
            if alias_fields and site == "field" and (s, k) == combos[0] and len(Q) > len(P) and list(Q)[:len(P)] == list(P) and "_".join(rest) not in used_names:
                # the field is called exactly like the alias under which the descendant package is imported (`from . import b`,
                # `from .b import c as b_c`): annotations must resolve against the MODULE, not against the class attribute of
                # that name (seeded change C13-5)
                fname = "_".join(rest)
            used_names.add(fname)
            ty = fq(Q, kind)
            if site == "field":
                body.append(f"  {ty} {fname} = {n};")
            elif site == "repeated":
                body.append(f"  repeated {ty} {fname} = {n};")
            elif site == "map":
                body.append(f"  map<string, {ty}> {fname} = {n};")
            else:
                body.append(f"  oneof g{ti}_{k} {{ {ty} {fname} = {n}; int32 alt{ti}_{k} = {n + 1}; }}")
                n += 1
            n += 1
            exp.append({"field": fname, "site": site, "target": list(Q), "kind": kind})
        if services:
            a, b = ("Msg", "Outer.Inner") if ti % 2 == 0 or full else ("Outer.Inner", "Msg")
            rpcs.append(f"  rpc U{ti}({fq(Q, a)}) returns ({fq(Q, b)});")
            rpcs.append(f"  rpc S{ti}(stream {fq(Q, b)}) returns (stream {fq(Q, a)});")
            exp.append({"rpc": f"u{ti}", "in": a, "out": b, "target": list(Q), "streaming": False})
            exp.append({"rpc": f"s{ti}", "in": b, "out": a, "target": list(Q), "streaming": True})
    lines.append(f"message Refs{jobdir.upper()} {{\n" + "\n".join(body) + "\n}")
    if services and rpcs:
        lines.append(f"service Svc{jobdir.upper()} {{\n" + "\n".join(rpcs) + "\n}")
    return "\n".join(lines) + "\n", exp


def make_job(jid, edges, full, label=None, root_mode="pkg", services=True, alias_fields=True):
    """edges: {P: [Q, ...]} referencing package -> target packages. Every package mentioned gets a types file."""
    jobdir = f"j{jid}"
    pk = set(edges)
    for qs in edges.values():
        pk |= set(qs)
    protos, expect = {}, {}
    for P in sorted(pk):
        protos[f"t/types_{'-'.join(P) or 'root'}.proto"] = types_proto(P)
    for P, qs in sorted(edges.items()):
        text, exp = refs_proto(P, qs, jobdir, full, services=services, alias_fields=alias_fields)
        protos[f"{jobdir}/refs_{'-'.join(P) or 'root'}.proto"] = text
        expect[".".join(P)] = exp
    return {"id": jid, "root": f"c13r{os.getpid()}_{jid}", "refs": f"RefsJ{jid}", "svc": f"SvcJ{jid}", "protos": protos, "expect": expect, "label": label,
            "packages": sorted(".".join(P) for P in pk), "root_mode": root_mode}


# ---- the part that runs in the worker subprocess -------------------------------------------------------
CHECK_SNIPPET = r'''
import dataclasses, importlib, sys, typing, traceback
import betterproto

def leaves(h, acc):
    args = typing.get_args(h)
    if args:
        for a in args:
            leaves(a, acc)
    elif isinstance(h, type):
        acc.append(h)
    return acc

def find_target(mod, kind):
    marks = {"Msg": "mk_msg", "Outer.Inner": "mk_inner", "En": "TOP_ONE", "Outer.NEn": "NEST_ONE"}
    mk = marks[kind]
    found = []
    for nm, v in vars(mod).items():
        if not isinstance(v, type) or getattr(v, "__module__", None) != mod.__name__:
            continue
        if kind in ("Msg", "Outer.Inner"):
            if issubclass(v, betterproto.Message) and dataclasses.is_dataclass(v) and [f.name for f in dataclasses.fields(v)] == [mk]:
                found.append(v)
        else:
            if issubclass(v, betterproto.Enum) and mk in getattr(v, "__members__", {}):
                found.append(v)
    return found

def check_job(job, modname):
    """returns list of failure strings; [] = every reference resolved to the generated class"""
    fails = []
    root = job["root"]
    n = 0
    def mname(dotted):
        if job["root_mode"] == "top":
            return dotted
        return root + ("." + dotted if dotted else "")
    mods = {}
    for p in job["packages"]:
        try:
            mods[p] = importlib.import_module(mname(p))
        except BaseException as e:
            fails.append({"what": f"importing package {p!r} raised {type(e).__name__}: {e}", "pkg": p})
    if fails:
        return fails, 0
    for p, exps in job["expect"].items():
        mod = mods[p]
        try:
            Refs = getattr(mod, job["refs"])
            hints = typing.get_type_hints(Refs, vars(mod), {})   # evaluated in the MODULE namespace (a field may be named like an import alias)
            bp_hints = Refs._type_hints()
        except BaseException as e:
            fails.append({"what": f"type hints of {p or '<root>'}.Refs raised {type(e).__name__}: {e}", "pkg": p})
            continue
        svc_hints = {}
        for e in exps:
            q = ".".join(e["target"])
            try:
                if "field" in e:
                    tg = find_target(mods[q], e["kind"])
                    if len(tg) != 1:
                        fails.append({"what": f"target {q}:{e['kind']} not uniquely generated ({[t.__name__ for t in tg]})", "pkg": p, "exp": e}); continue
                    tg = tg[0]
                    lv = [c for c in leaves(hints[e["field"]], []) if c not in (str, type(None))]
                    lv2 = [c for c in leaves(bp_hints[e["field"]], []) if c not in (str, type(None))]
                    n += 1
                    if lv != [tg] or lv2 != [tg]:
                        fails.append({"what": f"{p or '<root>'}.Refs.{e['field']} ({e['site']}) resolves to {lv} instead of {tg}", "pkg": p, "exp": e}); continue
                    key = e["field"] + (".value" if e["site"] == "map" else "")
                    cbf = Refs._betterproto.cls_by_field.get(key)
                    if cbf is not tg:
                        fails.append({"what": f"cls_by_field[{key}] is {cbf} instead of {tg}", "pkg": p, "exp": e}); continue
                    # use it: round trip through the referencing field
                    if e["site"] == "field" and e["kind"] in ("Msg", "Outer.Inner"):
                        mk = "mk_msg" if e["kind"] == "Msg" else "mk_inner"
                        back = Refs().parse(bytes(Refs(**{e["field"]: tg(**{mk: 7})})))
                        got = getattr(back, e["field"])
                        if type(got) is not tg or getattr(got, mk) != 7:
                            fails.append({"what": f"round trip through {e['field']} gives {got!r}", "pkg": p, "exp": e})
                    if e["site"] == "repeated" and e["kind"] in ("En", "Outer.NEn"):
                        back = Refs().parse(bytes(Refs(**{e["field"]: [tg(1)]})))
                        got = getattr(back, e["field"])
                        if got != [tg(1)] or type(got[0]) is not tg:
                            fails.append({"what": f"round trip through {e['field']} gives {got!r}", "pkg": p, "exp": e})
                else:
                    tin = find_target(mods[q], e["in"]); tout = find_target(mods[q], e["out"])
                    if len(tin) != 1 or len(tout) != 1:
                        fails.append({"what": f"rpc target classes of {q} not uniquely generated", "pkg": p, "exp": e}); continue
                    tin, tout = tin[0], tout[0]
                    n += 1
                    for cname in (job["svc"] + "Stub", job["svc"] + "Base"):
                        fn = getattr(getattr(mod, cname), e["rpc"])
                        # (Deadline / MetadataLike are TYPE_CHECKING-only names: evaluate the message annotations only)
                        h = {k: (eval(v, dict(vars(mod))) if isinstance(v, str) else v) for k, v in fn.__annotations__.items()
                             if k not in ("timeout", "deadline", "metadata")}
                        ins = [c for k, v in h.items() if k != "return" for c in leaves(v, []) if isinstance(c, type) and issubclass(c, betterproto.Message)]
                        outs = [c for c in leaves(h.get("return"), []) if isinstance(c, type) and issubclass(c, betterproto.Message)]
                        if set(ins) != {tin} or set(outs) != {tout}:
                            fails.append({"what": f"{cname}.{e['rpc']} annotations resolve to in={ins} out={outs}, expected {tin} / {tout}", "pkg": p, "exp": e})
                    if not svc_hints:
                        svc_hints = getattr(mod, job["svc"] + "Base")().__mapping__()
                    route = [r for r in svc_hints if r.endswith("/" + e["rpc"][0].upper() + e["rpc"][1:])]
                    hd = svc_hints[route[0]]
                    if hd.request_type is not tin or hd.reply_type is not tout:
                        fails.append({"what": f"handler {route[0]} has types {hd.request_type} / {hd.reply_type}", "pkg": p, "exp": e})
            except BaseException as ex:
                fails.append({"what": f"checking {e} raised {type(ex).__name__}: {ex}", "pkg": p, "exp": e})
    return fails, n
'''


# ---- stage L: both evaluations of every field annotation on the real classes (runs in the same subprocesses as CHECK_SNIPPET,
#      after check_job; uses its helpers leaves / find_target) ---------------------------------------------------------------
LOCALS_SNIPPET = r'''
def fwd_strings(a, acc):
    if isinstance(a, str):
        acc.append(a)
    elif isinstance(a, typing.ForwardRef):
        acc.append(a.__forward_arg__)
    else:
        for x in typing.get_args(a):
            fwd_strings(x, acc)
    return acc

def locals_job(job):
    out = {"fields": [], "classes": {}, "ns": {}, "whole": {}, "error": None}
    root = job["root"]
    def mname(dotted):
        if job["root_mode"] == "top":
            return dotted
        return root + ("." + dotted if dotted else "")
    try:
        mods = {p: importlib.import_module(mname(p)) for p in job["packages"]}
    except BaseException as e:
        out["error"] = f"import raised {type(e).__name__}: {e}"
        return out
    for p, mod in mods.items():
        out["classes"][p] = sorted(n for n, v in vars(mod).items() if isinstance(v, type) and getattr(v, "__module__", None) == mod.__name__)
    for p, exps in job["expect"].items():
        mod = mods[p]
        try:
            Refs = getattr(mod, job["refs"])
            ns = dict(vars(Refs))
        except BaseException as e:
            out["error"] = f"{p}: {type(e).__name__}: {e}"
            continue
        out["ns"][p] = sorted(ns)
        try:
            bp = Refs._type_hints()                       # betterproto's own evaluation: get_type_hints(cls, module.__dict__, {})
        except BaseException as e:
            bp = None
        try:
            typing.get_type_hints(Refs, vars(mod))        # the whole class at once, class namespace in scope (localns defaults to vars(cls))
            out["whole"][p] = True
        except BaseException as e:
            out["whole"][p] = False
        for e in exps:
            if "field" not in e:
                continue
            rec = {"pkg": p, "target": e["target"], "kind": e["kind"], "field": e["field"], "site": e["site"]}
            try:
                q = ".".join(e["target"])
                tg = find_target(mods[q], e["kind"])
                if len(tg) != 1:
                    rec["error"] = "target class not uniquely generated"
                    out["fields"].append(rec); continue
                tg = tg[0]
                bound = [n for n, v in vars(mods[q]).items() if v is tg]
                rec["tname"] = bound[0] if bound else tg.__name__
                ann = Refs.__annotations__[e["field"]]
                rec["fwd"] = fwd_strings(ann, [])
                H = type("H", (), {"__annotations__": {e["field"]: ann}})    # one annotation, evaluated in explicitly given namespaces
                def is_tg(h):
                    return [c for c in leaves(h, []) if c not in (str, type(None))] == [tg]
                rec["bp_ok"] = bool(bp is not None and is_tg(bp[e["field"]]))
                try:
                    rec["mod_ok"] = bool(is_tg(typing.get_type_hints(H, vars(mod), {})[e["field"]]))
                except BaseException as ex:
                    rec["mod_ok"] = False
                try:
                    rec["cls_ok"] = bool(is_tg(typing.get_type_hints(H, vars(mod), dict(ns))[e["field"]]))
                    rec["cls_err"] = None
                except BaseException as ex:
                    rec["cls_ok"] = False
                    rec["cls_err"] = f"{type(ex).__name__}: {ex}"[:160]
            except BaseException as ex:
                rec["error"] = f"{type(ex).__name__}: {ex}"[:300]
            out["fields"].append(rec)
    return out
'''


def worker_main(argv):
    """python -m harness.props.c13 --worker <jobs.json> <descriptor set> <base dir> <out json>
    For every job: plugin's generate_code on a request holding exactly the job's files, write the response under
    <base>/<root>/, import and check."""
    jobs = json.load(open(argv[0]))
    from google.protobuf import descriptor_pb2, compiler
    from google.protobuf.compiler import plugin_pb2
    from betterproto.lib.google.protobuf.compiler import CodeGeneratorRequest
    from betterproto.plugin.models import monkey_patch_oneof_index
    from betterproto.plugin.parser import generate_code

    base = argv[2]
    fds = descriptor_pb2.FileDescriptorSet()
    with open(argv[1], "rb") as f:
        fds.ParseFromString(f.read())
    by_name = {f.name: f for f in fds.file}
    monkey_patch_oneof_index()
    ns = {}
    exec(CHECK_SNIPPET, ns)
    exec(LOCALS_SNIPPET, ns)
    sys.path.insert(0, base)
    os.environ["PATH"] = os.path.join(base, "shim") + ":" + os.environ.get("PATH", "")
    results = []
    devnull = open(os.devnull, "w")
    for job in jobs:
        res = {"id": job["id"], "fails": [], "checked": 0}
        try:
            req = plugin_pb2.CodeGeneratorRequest()
            names = sorted(job["protos"])
            # dependencies first (types before refs), as protoc orders them
            names.sort(key=lambda n: (0 if n.startswith("t/types_") else 1, n))
            for nme in names:
                req.proto_file.append(by_name[nme])
                req.file_to_generate.append(nme)
            request = CodeGeneratorRequest().parse(req.SerializeToString())
            old = sys.stderr
            sys.stderr = devnull
            try:
                resp = generate_code(request)
            finally:
                sys.stderr = old
            rootdir = os.path.join(base, job["root"]) if job["root_mode"] != "top" else os.path.join(base, job["root"] + "_top")
            for f in resp.file:
                p = os.path.join(rootdir, f.name)
                os.makedirs(os.path.dirname(p), exist_ok=True)
                with open(p, "w") as fh:
                    fh.write(f.content)
            res["files"] = sorted(f.name for f in resp.file)
            if job["root_mode"] == "top":
                sys.path.insert(0, rootdir)
            import importlib
            importlib.invalidate_caches()
            fails, n = ns["check_job"](job, None)
            res["fails"] = fails
            res["checked"] = n
            if not job.get("label") and not fails:
                try:                                  # stage L (additional; never alters the result of the checks above)
                    res["locals"] = ns["locals_job"](job)
                except BaseException as e:  # noqa
                    res["locals"] = {"error": f"locals_job raised {type(e).__name__}: {e}", "fields": [], "classes": {}, "ns": {}, "whole": {}}
            if job["root_mode"] == "top":
                sys.path.remove(rootdir)
                for k in [k for k in sys.modules if k.split(".")[0] in {p.split(".")[0] for p in job["packages"] if p}]:
                    del sys.modules[k]
        except BaseException as e:  # noqa
            res["fails"].append({"what": f"generation raised {type(e).__name__}: {e}", "trace": traceback.format_exc()[-1500:]})
        results.append(res)
    with open(argv[3], "w") as f:
        json.dump(results, f)


def run_jobs_inprocess(ctx, jobs, nproc=None):
    """descriptor set for all jobs with one protoc call, then worker subprocesses"""
    from .. import plugin_util as pu

    base = ctx.work
    pu.shim_dir(base)
    protos = {}
    for j in jobs:
        protos.update(j["protos"])
    proto_dir = os.path.join(base, "pw_proto")
    pu.write_protos(proto_dir, protos)
    ds = os.path.join(base, "pw.pb")
    names = sorted(protos)
    # protoc in slices (command-line length)
    parts = []
    for i in range(0, len(names), 1500):
        out = f"{ds}.{i}"
        cmd = [lib.PY, "-W", "ignore", "-m", "grpc_tools.protoc", "-I", proto_dir, "-I", pu.proto_include(),
               f"--descriptor_set_out={out}"] + names[i:i + 1500]
        r = subprocess.run(cmd, env=pu._env(base), capture_output=True, text=True, timeout=600)
        if r.returncode != 0:
            raise RuntimeError("protoc rejected the generated schemas: " + r.stderr[-1500:])
        parts.append(out)
    from google.protobuf import descriptor_pb2
    fds = descriptor_pb2.FileDescriptorSet()
    for p in parts:
        x = descriptor_pb2.FileDescriptorSet()
        with open(p, "rb") as f:
            x.ParseFromString(f.read())
        fds.file.extend(x.file)
    with open(ds, "wb") as f:
        f.write(fds.SerializeToString())
    nproc = nproc or min(lib.JOBS, max(1, len(jobs) // 4))
    procs = []
    for w in range(nproc):
        mine = jobs[w::nproc]
        if not mine:
            continue
        jf = os.path.join(base, f"jobs_{w}.json")
        of = os.path.join(base, f"res_{w}.json")
        with open(jf, "w") as f:
            json.dump(mine, f)
        e = pu._env(base)
        e["PYTHONPATH"] = e["PYTHONPATH"] + ":" + lib.VERIF
        procs.append((subprocess.Popen([lib.PY, "-W", "ignore", "-m", "harness.props.c13", "--worker", jf, ds, base, of],
                                       env=e, stdout=subprocess.PIPE, stderr=subprocess.STDOUT, text=True), of, mine))
    results = {}
    for p, of, mine in procs:
        try:
            out, _ = p.communicate(timeout=900)
        except subprocess.TimeoutExpired:
            p.kill()
            out = "timeout"
        if p.returncode != 0 or not os.path.exists(of):
            for j in mine:
                results[j["id"]] = {"id": j["id"], "fails": [{"what": "worker crashed: " + (out or "")[-800:]}], "checked": 0}
            continue
        for r in json.load(open(of)):
            results[r["id"]] = r
    return results


def run_job_protoc(ctx, job):
    """the full path: protoc + the plugin executable, then import + check in a fresh subprocess"""
    from .. import plugin_util as pu

    base = ctx.work
    rc, out, out_dir = pu.generate(base, job["protos"], job["root"])
    if rc != 0:
        return {"id": job["id"], "fails": [{"what": "protoc/plugin failed: " + out[-1500:]}], "checked": 0}
    jf = os.path.join(base, f"job_{job['id']}.json")
    with open(jf, "w") as f:
        json.dump(job, f)
    code = ("import json,sys\nfrom harness.props.c13 import CHECK_SNIPPET, LOCALS_SNIPPET\nns={}\nexec(CHECK_SNIPPET,ns)\nexec(LOCALS_SNIPPET,ns)\n"
            f"job=json.load(open({jf!r}))\nfails,n=ns['check_job'](job,None)\n"
            "loc=None\n"
            "if not fails:\n"
            "    try:\n        loc=ns['locals_job'](job)\n"
            "    except BaseException as e:\n        loc={'error': 'locals_job raised %s: %s' % (type(e).__name__, e), 'fields': [], 'classes': {}, 'ns': {}, 'whole': {}}\n"
            "print('RESULT'+json.dumps({'fails':fails,'checked':n,'locals':loc}))\n")
    rc, out = pu.run_in_subprocess(base, code, timeout=600)
    for line in out.splitlines():
        if line.startswith("RESULT"):
            r = json.loads(line[6:])
            r["id"] = job["id"]
            files = []
            for d, _, fs in os.walk(out_dir):
                files += [os.path.relpath(os.path.join(d, f), out_dir) for f in fs]
            r["files"] = sorted(files)
            return r
    return {"id": job["id"], "fails": [{"what": "check subprocess failed: " + out[-1500:]}], "checked": 0}


def generation(ctx):
    rng = ctx.rng
    t0 = time.time()
    # ---------------------------------------------------------------- all at once, through protoc + plugin executable
    P_all = paths_over("ab", 2) + [("a", "b", "c"), ("a", "a", "a"), ("a", "b", "a"), ("c",), ("c", "a", "b")] if not ctx.thorough else paths_over("abc", 3)
    edges = {P: list(P_all) for P in P_all}            # everybody references everybody (circular throughout)
    job_all = make_job(0, edges, full=False, label=None)
    r = run_job_protoc(ctx, job_all)
    report(ctx, job_all, r, "all-at-once")
    ctx.count("gen_all_at_once_packages", len(P_all))
    ctx.count("gen_all_at_once_reference_checks", r.get("checked", 0))
    ctx.notes.append(f"all-at-once generation+import: {time.time() - t0:.1f}s, {r.get('checked', 0)} reference checks")
    # files of the response against the model's prediction happen in T2 (plugin_response_names)

    # ---------------------------------------------------------------- pairwise in isolation (mutually referencing = circular)
    t1 = time.time()
    PP = paths_over("ab", 2) + [("a", "b", "c"), ("a", "b", "a"), ("b", "a", "c"), ("a", "a", "a"), ("c", "c", "c")] if not ctx.thorough else paths_over("abc", 3)
    jobs = []
    jid = 1
    seen = set()
    for P in PP:
        for Q in PP:
            key = frozenset([P, Q])
            if key in seen:
                continue
            seen.add(key)
            ed = {P: [Q]} if P == Q else {P: [Q], Q: [P]}
            jobs.append(make_job(jid, ed, full=True))
            jid += 1
    # one-directional pairs too (no cycle; only the target's types file in the other package)
    for P in PP[:7]:
        for Q in PP[:7]:
            if P != Q:
                jobs.append(make_job(jid, {P: [Q]}, full=True))
                jid += 1
    # ---- witnesses of the known findings / modelling conditions (labelled, so they classify as findings, not violations)
    wit = []
    def W(label, edges, **kw):
        nonlocal jid
        j = make_job(jid, edges, full=True, label=label, **kw)
        jid += 1
        wit.append(j)
        return j
    W("K2-upper-package-segment", {("a",): [("a", "Cap")]})
    W("K30-betterproto-package", {("x",): [("betterproto", "y")]})
    W("K31-alias-clash", {("x",): [("x", "a", "b"), ("x", "a_b")]})
    W("K31-alias-clash", {("x", "y"): [("x", "a1", "b"), ("x", "a1b")]})
    W("toplevel-deployment", {("a",): [("b",)]}, root_mode="top")
    results = run_jobs_inprocess(ctx, jobs + wit)
    nchk = 0
    for j in jobs + wit:
        r = results.get(j["id"], {"fails": [{"what": "no result"}], "checked": 0})
        nchk += r.get("checked", 0)
        report(ctx, j, r, "pairwise")
    ctx.count("gen_pairwise_jobs", len(jobs))
    ctx.count("gen_pairwise_reference_checks", nchk)
    ctx.notes.append(f"pairwise generation+import of {len(jobs)} jobs: {time.time() - t1:.1f}s, {nchk} reference checks")
    ctx.cov["evaluations"] += nchk

    # K1 / K2b need their own schemas (type names, not package shapes)
    special_witnesses(ctx)
    wellknown_generation(ctx)


def report(ctx, job, r, mode):
    if not hasattr(ctx, "c13_locals"):
        ctx.c13_locals = []
    ctx.c13_locals.append((job, r))                 # for stage L
    for p, exps in job["expect"].items():
        for e in exps:
            P = tuple(p.split(".")) if p else ()
            Q = tuple(e["target"])
            if "field" in e:
                ctx.count(f"gen_rel:{relation(P, Q)}")
                ctx.count(f"gen_site:{e['site']}")
                if P != Q and not r["fails"]:
                    ctx.seen_nontrivial(("gen", P, Q, e["kind"], e["site"]))
            else:
                ctx.count("gen_site:rpc")
                if P != Q and not r["fails"]:
                    ctx.seen_nontrivial(("gen", P, Q, e["rpc"][0], "rpc"))
    if job.get("label") == "toplevel-deployment":
        # deployment assumption (C13_toplevel_refuted), not a finding: the README generates into a package directory
        ctx.notes.append("top-level deployment (output directory not a package): " +
                         (("reproduced: " + r["fails"][0]["what"][:160]) if r["fails"] else "did NOT fail on this tree"))
        return
    if job.get("label"):
        if r["fails"]:
            ctx.fail("oracle", f"[{job['label']}] {r['fails'][0]['what']}"[:600], cls=job["label"],
                     input={"packages": job["packages"], "protos": job["protos"]})
        else:
            ctx.notes.append(f"witness job {job['label']} ({job['packages']}) did not fail")
        return
    for f in r["fails"][:3]:
        ctx.fail("oracle", f"{mode}: {f['what']}"[:900], cls=None,
                 input={"packages": job["packages"], "edges": {k: [x["target"] for x in v if "field" in x][:4] for k, v in job["expect"].items()},
                        "protos": job["protos"] if len(job["protos"]) <= 6 else "(all-at-once universe; regenerate with the same seed)",
                        "detail": f})


WK_CHECK = r'''
import datetime, importlib, sys, typing, json
import betterproto
root, pyd = sys.argv[1], sys.argv[2] == "1"
lib = importlib.import_module("betterproto.lib.pydantic.google.protobuf" if pyd else "betterproto.lib.google.protobuf")
fails, n = [], 0
def leaves(h, acc):
    args = typing.get_args(h)
    if args:
        for a in args: leaves(a, acc)
    else:
        acc.append(h)
    return acc
for pkg in ["", "a", "a.b", "google", "google.api"]:
    try:
        mod = importlib.import_module(root + ("." + pkg if pkg else ""))
        h = typing.get_type_hints(mod.Wk, vars(mod)); h2 = mod.Wk._type_hints()
        exp = {"s": lib.Struct, "a": lib.Any, "e": lib.Empty, "fm": lib.FieldMask, "rs": lib.Struct, "ms": lib.Value, "os": lib.ListValue,
               "ts": datetime.datetime, "d": datetime.timedelta, "w": int, "bw": bool, "sw": str}
        for f, cls in exp.items():
            for hh in (h, h2):
                lv = [c for c in leaves(hh[f], []) if c not in (str, type(None))] if f not in ("sw",) else [c for c in leaves(hh[f], []) if c is not type(None)]
                n += 1
                if lv != [cls]:
                    fails.append(f"{pkg or '<root>'}.Wk.{f} resolves to {lv}, expected {cls}")
        for f in ("s", "a", "e", "fm", "rs", "os"):
            if mod.Wk._betterproto.cls_by_field[f] is not exp[f]:
                fails.append(f"{pkg or '<root>'}.Wk cls_by_field[{f}] is {mod.Wk._betterproto.cls_by_field[f]}")
        back = mod.Wk().parse(bytes(mod.Wk(s=lib.Struct(fields={"k": lib.Value(number_value=1.5)}), w=7, ts=datetime.datetime(2020, 1, 2, tzinfo=datetime.timezone.utc))))
        if type(back.s) is not lib.Struct or back.s.fields["k"].number_value != 1.5 or back.w != 7 or back.ts.year != 2020:
            fails.append(f"{pkg}.Wk round trip gives {back!r}")
        mp = mod.WkSvcBase().__mapping__()
        got = {r.rsplit("/", 1)[1]: (hd.request_type, hd.reply_type) for r, hd in mp.items()}
        want = {"E": (lib.Empty, lib.Struct), "W": (lib.Int32Value, lib.BoolValue), "T": (lib.Timestamp, lib.Duration)}
        n += 3
        if got != want:
            fails.append(f"{pkg}.WkSvcBase handler types {got}, expected {want}")
        for m, (i, o) in {"e": want["E"], "w": want["W"], "t": want["T"]}.items():
            fn = getattr(mod.WkSvcStub, m)
            ann = {k: (eval(v, dict(vars(mod))) if isinstance(v, str) else v) for k, v in fn.__annotations__.items() if k not in ("timeout", "deadline", "metadata")}
            ins = [v for k, v in ann.items() if k != "return"]
            if ins != [i] or ann.get("return") is not o:
                fails.append(f"{pkg}.WkSvcStub.{m} annotations {ann}, expected {i} -> {o}")
    except BaseException as ex:
        fails.append(f"package {pkg!r}: {type(ex).__name__}: {ex}")
print("RESULT" + json.dumps({"fails": fails, "checked": n}))
'''


def wellknown_generation(ctx):
    """google.protobuf types referenced from several packages, default and pydantic variants, through protoc + plugin"""
    from .. import plugin_util as pu

    body = ('import "google/protobuf/struct.proto"; import "google/protobuf/any.proto"; import "google/protobuf/empty.proto";\n'
            'import "google/protobuf/field_mask.proto"; import "google/protobuf/timestamp.proto"; import "google/protobuf/duration.proto";\n'
            'import "google/protobuf/wrappers.proto";\n'
            "message Wk {\n google.protobuf.Struct s = 1; google.protobuf.Any a = 2; google.protobuf.Empty e = 3; google.protobuf.FieldMask fm = 4;\n"
            " repeated google.protobuf.Struct rs = 5; map<string, google.protobuf.Value> ms = 6; oneof o { google.protobuf.ListValue os = 7; int32 alt = 8; }\n"
            " google.protobuf.Timestamp ts = 9; google.protobuf.Duration d = 10; google.protobuf.Int32Value w = 11; google.protobuf.BoolValue bw = 12;\n"
            " google.protobuf.StringValue sw = 13;\n}\n"
            "service WkSvc {\n rpc E(google.protobuf.Empty) returns (google.protobuf.Struct);\n rpc W(google.protobuf.Int32Value) returns (google.protobuf.BoolValue);\n"
            " rpc T(google.protobuf.Timestamp) returns (google.protobuf.Duration);\n}\n")
    protos = {}
    for P in [(), ("a",), ("a", "b"), ("google",), ("google", "api")]:
        protos[f"wk/{'-'.join(P) or 'root'}.proto"] = 'syntax = "proto3";\n' + pkg_stmt(P) + body
    for pyd in (False, True):
        root = f"c13wk{os.getpid()}_{int(pyd)}"
        try:
            rc, out, _ = pu.generate(ctx.work, protos, root, options=(("pydantic_dataclasses",) if pyd else ()))
            if rc != 0:
                ctx.fail("oracle", f"well-known generation (pydantic={pyd}) failed: {out[-400:]}", cls=None, input={"protos": protos, "pydantic": pyd})
                continue
            e = pu._env(ctx.work)
            e["PYTHONPATH"] = e["PYTHONPATH"] + ":" + ctx.work
            r = subprocess.run([lib.PY, "-W", "ignore", "-c", WK_CHECK, root, "1" if pyd else "0"], env=e, capture_output=True, text=True, timeout=300)
            res = [l for l in (r.stdout + r.stderr).splitlines() if l.startswith("RESULT")]
            if not res:
                ctx.fail("oracle", f"well-known check (pydantic={pyd}) did not complete: {(r.stdout + r.stderr)[-600:]}", cls=None,
                         input={"protos": protos, "pydantic": pyd})
                continue
            rr = json.loads(res[0][6:])
            ctx.count(f"gen_wellknown_checks_pydantic={pyd}", rr["checked"])
            ctx.cov["evaluations"] += rr["checked"]
            for f in rr["fails"][:3]:
                ctx.fail("oracle", f"well-known (pydantic={pyd}): {f}"[:700], cls=None, input={"protos": protos, "pydantic": pyd})
            if not rr["fails"]:
                ctx.seen_nontrivial(("wk", pyd))
        except Exception:  # noqa
            ctx.fail("oracle", "well-known generation raised: " + traceback.format_exc()[-800:], cls=None, input={"pydantic": pyd})


def special_witnesses(ctx):
    """K1 (Foo.Bar vs FooBar) and K2 (lower-case message with nested type) through the real plugin."""
    from .. import plugin_util as pu

    base = ctx.work
    cases = {
        "K1-class-name-collision": {
            "k1/t.proto": 'syntax = "proto3"; package k1;\nmessage Foo { message Bar { int32 nested_marker = 1; } }\nmessage FooBar { int32 flat_marker = 1; }\n'
                          'message Ref { Foo.Bar n = 1; FooBar f = 2; }\n'},
        "K2-lowercase-message": {
            "k2/t.proto": 'syntax = "proto3"; package k2;\nmessage foo { message Bar { int32 nested_marker = 1; } }\nmessage Ref { foo.Bar n = 1; }\n'},
    }
    for label, protos in cases.items():
        root = f"c13w{os.getpid()}_{label.split('-')[0].lower()}"
        rc, out, _ = pu.generate(base, protos, root)
        if rc != 0:
            ctx.fail("oracle", f"[{label}] plugin failed: {out[-300:]}", cls=label, input=protos)
            continue
        pkg = list(protos)[0].split("/")[0]
        code = (f"import typing, dataclasses\nimport {root}.{pkg} as m\n"
                "try:\n h = typing.get_type_hints(m.Ref, vars(m))\n fs = [f.name for f in dataclasses.fields(h['n'])]\n"
                " print('RESULT', 'ok' if fs == ['nested_marker'] else 'wrong class: n resolves to %s with fields %s' % (h['n'], fs))\n"
                "except BaseException as e:\n print('RESULT', 'raised %s: %s' % (type(e).__name__, e))\n")
        rc, out = pu.run_in_subprocess(base, code)
        res = [l for l in out.splitlines() if l.startswith("RESULT")]
        verdict = res[0][7:] if res else "no result: " + out[-300:]
        if verdict != "ok":
            ctx.fail("oracle", f"[{label}] {verdict}"[:500], cls=label, input=protos)
        else:
            ctx.notes.append(f"witness {label} did not fail")


# ======================================================================================================
# L: module-level vs class-scoped evaluation of every field annotation (the K32 mechanism), model vs real classes
# ======================================================================================================
IMPORTS_LOCALS = "Spec.PyImport Spec.PyImportLocals Model.Importing Model.C13Hints Proofs.ImportingP4 gen.C13Tables"


def locals_stage(ctx):
    """Compares, inside Coq, Model/C13Hints.v betterproto_hint / class_scope_hint with what the REAL generated classes give when each
    field annotation is evaluated by Message._type_hints (module namespace) and with vars(cls) as locals. Class-scoped failures are
    counted by cause (field called like the alias = K32; alias is a dunder name of every class), never reported as C13 failures."""
    from betterproto import casing
    from betterproto.compile import importing
    from betterproto.compile.naming import pythonize_class_name
    from betterproto.plugin import typing_compiler as tcm

    t0 = time.time()
    # ---- own witness jobs: the alias is a name EVERY class namespace holds (C13_locals_dunder_refuted); plus the K32 schema's shape
    # (messages only: with a streaming rpc these packages do not even import in the standard variant - the service Base class
    #  carries the UNQUOTED annotation AsyncIterator[__doc__.X], evaluated in the class body where __doc__ is the docstring; see K35)
    own = [make_job(9001, {("doc", "api"): [("doc",)]}, full=True, services=False),
           make_job(9002, {("module", "x"): [("module",)], ("a", "b"): [("doc",)]}, full=True, services=False),
           make_job(9003, {("shop",): [("shop", "item"), ("shop", "item", "part")]}, full=True),
           # descendants WITHOUT a field called like the alias: the class-scoped evaluation must succeed (positive side of the iff)
           make_job(9004, {("shop",): [("shop", "item"), ("shop", "item", "part")], ("a",): [("a", "b"), ("a", "b", "c")], (): [("a",), ("a", "b")]},
                    full=True, alias_fields=False)]
    try:
        res = run_jobs_inprocess(ctx, own, nproc=len(own))
    except Exception:  # noqa
        ctx.fail("oracle", "stage L: generating the dunder witnesses raised: " + traceback.format_exc()[-1200:], cls=None, input=None)
        res = {}
    stash = list(getattr(ctx, "c13_locals", []))
    for j in own:
        r = res.get(j["id"], {"fails": [{"what": "no result"}], "checked": 0})
        for f in r["fails"][:2]:            # these packages must import and resolve at MODULE level like any other
            ctx.fail("oracle", f"stage L witness job: {f['what']}"[:900], cls=None, input={"packages": j["packages"], "protos": j["protos"], "detail": f})
        stash.append((j, r))

    typing_c = tcm.DirectImportTypingCompiler()
    s = typing_c.optional("@")
    pre, suf = s.split("@")
    opt = f"(fun s => {coq_bytes(pre.encode())} ++ s ++ {coq_bytes(suf.encode())})"
    cls_t = {k: pythonize_class_name(k) for k in KINDS}
    snk_in = set()
    defs, pairs, descr = [], [], []
    groups = []                 # (first pair, first def) of each group of jobs compared by one coq_compare call (own prelude)
    stats = {"fields": 0, "cls_fail": 0, "cls_fail_own_alias": 0, "cls_fail_field_alias": 0, "cls_fail_dunder": 0, "cls_fail_other": 0, "jobs": 0,
             "whole_fail": 0, "desc_ok": 0}

    def coq_path(pth):
        return "[" + "; ".join(coq_bytes(x.encode()) for x in pth) + "]"

    def names(l):
        return "[" + "; ".join(coq_bytes(x.encode()) for x in l) + "]"

    for job, r in stash:
        if job.get("label") or r.get("fails"):
            continue
        loc = r.get("locals")
        if not loc:
            continue
        if loc.get("error"):
            ctx.fail("corr", "stage L could not inspect the generated classes: " + str(loc["error"])[:600], no_input=True,
                     theorem_or_correspondence="L correspondence Model/C13Hints.v <-> real classes")
            continue
        stats["jobs"] += 1
        if not groups or len(pairs) - groups[-1][0] >= 1500:
            groups.append((len(pairs), len(defs)))
        jid = job["id"]
        root = job["root"]
        wdefs = "; ".join(f"({coq_path([root] + (p.split('.') if p else []))}, {names(cl_)})" for p, cl_ in sorted(loc["classes"].items()))
        defs.append(f"Definition W{jid} : world := world_of {coq_path([root])} {names(job['packages'])} [{wdefs}] [].")
        for k, (p, ns) in enumerate(sorted(loc["ns"].items())):
            defs.append(f"Definition NS{jid}_{k} : list (list byte) := {names(ns)}.")
        nsidx = {p: k for k, (p, _) in enumerate(sorted(loc["ns"].items()))}
        per_pkg = {}
        for rec in loc["fields"]:
            if rec.get("error"):
                ctx.fail("corr", f"stage L: {rec['pkg']}.{rec['field']}: {rec['error']}"[:600], no_input=True,
                         theorem_or_correspondence="L correspondence Model/C13Hints.v <-> real classes")
                continue
            cur = rec["pkg"].split(".") if rec["pkg"] else []
            tgt = list(rec["target"])
            src = "." + ".".join(tgt + [rec["kind"]])
            for i in range(len(tgt)):
                snk_in.add(".".join(tgt[i:]))
            # the annotation really carries the string get_type_reference returns (T2 ties that function to the model)
            real_ref = importing.get_type_reference(package=rec["pkg"], imports=set(), source_type=src, typing_compiler=typing_c)
            if real_ref.strip('"') not in rec["fwd"]:
                ctx.fail("corr", f"stage L: annotation of {rec['pkg']}.{rec['field']} holds {rec['fwd']}, get_type_reference returns {real_ref}",
                         input={"packages": job["packages"], "protos": job["protos"], "field": rec},
                         theorem_or_correspondence="L: generated annotation = get_type_reference's string")
            ns = loc["ns"][rec["pkg"]]
            head = real_ref.strip('"').split(".")[0]
            stats["fields"] += 1
            ctx.count("L_rel:" + relation(tuple(cur), tuple(tgt)))
            per_pkg.setdefault(rec["pkg"], []).append(rec["cls_ok"])
            if not rec["cls_ok"]:
                stats["cls_fail"] += 1
                if head == rec["field"]:
                    stats["cls_fail_own_alias"] += 1                # THE K32 schema: the field is called like the alias of its own type
                elif head in ns and head.startswith("__") and head.endswith("__"):
                    stats["cls_fail_dunder"] += 1                   # alias = a dunder name of every class (doc / module one level up)
                elif head in ns:
                    stats["cls_fail_field_alias"] += 1              # another field of the message is called like this alias
                else:
                    stats["cls_fail_other"] += 1
                ctx.seen_nontrivial(("L-shadowed", tuple(cur), tuple(tgt), rec["kind"], rec["site"]))
            elif relation(tuple(cur), tuple(tgt)) == "descendant":
                stats["desc_ok"] += 1
            if rec["mod_ok"] != rec["bp_ok"]:
                ctx.fail("oracle", f"Message._type_hints and typing.get_type_hints(cls, module namespace, {{}}) differ on {rec['pkg']}.{rec['field']}: "
                         f"{rec['bp_ok']} vs {rec['mod_ok']}", cls=None, input={"packages": job["packages"], "protos": job["protos"], "field": rec})
            m = (f"(let ref := get_type_reference CLS SNK OPT {coq_bytes(rec['pkg'].encode())} {coq_bytes(src.encode())} true false in "
                 f"let P := {coq_path([root] + cur)} in let TP := {coq_path([root] + tgt)} in let TN := {coq_bytes(rec['tname'].encode())} in "
                 f"CL [cbool (hint_is_class (betterproto_hint W{jid} P NS{jid}_{nsidx[rec['pkg']]} ref) TP TN); "
                 f"cbool (hint_is_class (class_scope_hint W{jid} P NS{jid}_{nsidx[rec['pkg']]} ref) TP TN)])")
            pairs.append((m, cl([lib.cbool(rec["bp_ok"]), lib.cbool(rec["cls_ok"])])))
            descr.append((job, rec))
        # the whole class at once (what typing.get_type_hints(cls, vars(module)) does) agrees with the field-by-field evaluation
        for p, oks in per_pkg.items():
            whole = loc["whole"].get(p)
            if not whole:
                stats["whole_fail"] += 1
            if whole != all(oks):
                ctx.fail("corr", f"stage L: typing.get_type_hints({p}.Refs, vars(module)) {'succeeds' if whole else 'raises'} but the field-by-field "
                         f"class-scoped evaluation says {'all resolve' if all(oks) else 'some field fails'}", no_input=True,
                         theorem_or_correspondence="L: field-by-field evaluation = whole-class evaluation")
    snk_t = {x: casing.safe_snake_case(x) for x in snk_in}
    head = f"Definition CLS := tbl_fun {coq_tbl(cls_t)}.\nDefinition SNK := tbl_fun {coq_tbl(snk_t)}.\nDefinition OPT := {opt}.\n"
    ctx.cov["evaluations"] += 2 * len(pairs)
    bad = []
    for gi, (p0, d0) in enumerate(groups):
        p1, d1 = groups[gi + 1] if gi + 1 < len(groups) else (len(pairs), len(defs))
        if p1 > p0:
            bad += [p0 + i for i in lib.coq_compare(ctx, f"c13loc{gi}", IMPORTS_LOCALS, pairs[p0:p1], chunk=250,
                                                     prelude=head + "\n".join(defs[d0:d1]) + "\n")]
    ctx.cov["disagreements_checked"] += len(pairs)
    for i in bad[:8]:
        job, rec = descr[i]
        ctx.fail("corr", f"model (betterproto_hint / class_scope_hint) and the real classes disagree on {rec['pkg'] or '<root>'}.Refs.{rec['field']} "
                 f"-> {'.'.join(rec['target'])}:{rec['kind']}: real [module-level ok, class-scoped ok] = [{rec['bp_ok']}, {rec['cls_ok']}] ({rec.get('cls_err')})",
                 input={"packages": job["packages"], "protos": job["protos"] if len(job["protos"]) <= 8 else "(all-at-once universe)", "field": rec},
                 model_expr=pairs[i][0][:900], observed_impl=pairs[i][1],
                 theorem_or_correspondence="L correspondence Model/C13Hints.v + Spec/PyImportLocals.v <-> Message._type_hints / typing.get_type_hints on the real classes")
    ctx.count("L_jobs", stats["jobs"])
    ctx.count("L_fields_compared_both_ways", stats["fields"])
    ctx.count("L_class_scoped_failures_total(K32 mechanism, not a C13 failure)", stats["cls_fail"])
    ctx.count("L_class_scoped_failures:field_called_like_the_alias_of_its_own_type(K32 schema)", stats["cls_fail_own_alias"])
    ctx.count("L_class_scoped_failures:other_field_of_the_message_called_like_the_alias", stats["cls_fail_field_alias"])
    ctx.count("L_class_scoped_successes_on_descendant_references(no field called like the alias)", stats["desc_ok"])
    ctx.count("L_class_scoped_failures:alias_is_dunder_of_every_class", stats["cls_fail_dunder"])
    ctx.count("L_class_scoped_failures:other", stats["cls_fail_other"])
    ctx.count("L_classes_whose_whole_class_scoped_hints_raise", stats["whole_fail"])
    if stats["cls_fail_other"]:
        ctx.notes.append(f"stage L: {stats['cls_fail_other']} class-scoped failures not explained by a namespace key (compared with the model all the same)")
    # coverage of the comparison (notes, not failures: a library whose classes no longer bind these names would simply not show K32)
    if stats["fields"] and not stats["cls_fail_own_alias"]:
        ctx.notes.append("stage L: no field called like its import alias failed class-scoped (the K32 mechanism was not observed on this tree)")
    if stats["fields"] and not stats["desc_ok"]:
        ctx.notes.append("stage L: no descendant reference resolved class-scoped (positive side of the exact condition not exercised)")
    if stats["fields"] and not stats["cls_fail_dunder"]:
        ctx.notes.append("stage L: the dunder-alias witnesses (packages doc / module) did not fail class-scoped on this tree")
    ctx.notes.append(f"stage L: {stats['fields']} field annotations of {stats['jobs']} generated jobs evaluated both ways on the real classes and in Coq; "
                     f"module-level all resolve; class-scoped evaluation fails on {stats['cls_fail']} "
                     f"({stats['cls_fail_own_alias']} fields called like the alias of their own type = K32 schema, {stats['cls_fail_field_alias']} further references "
                     f"through an alias that another field is called like, {stats['cls_fail_dunder']} through an alias that is a dunder name of every class), "
                     f"model agrees on all but {len(bad)}; {time.time() - t0:.0f}s")
    for i in (0, len(pairs) // 2):
        if i < len(pairs):
            ctx.sample({"case": ["L", descr[i][1]["pkg"], descr[i][1]["field"], descr[i][1]["target"]], "impl": pairs[i][1]})


K35_CLS = "K35-service-class-body-shadows-alias"


def service_scope_witnesses(ctx):
    """(proposed finding K35) the service Base class evaluates the unquoted annotations of streaming rpcs in its class body: an rpc
    method / a dunder name of the class body that equals the import alias breaks the import of the generated package (standard variant).
    The model's verdict for the same reference with the class-body names in scope is C13_service_scope_refuted / C13_locals_dunder_refuted."""
    from .. import plugin_util as pu

    cases = {
        "rpc-named-like-alias": ({
            "shop/item.proto": 'syntax="proto3"; package shop.item; message Item { int32 x = 1; }',
            "shop/main.proto": 'syntax="proto3"; package shop; import "shop/item.proto"; service Shop { rpc Item(shop.item.Item) returns (shop.item.Item); '
                               'rpc Watch(stream shop.item.Item) returns (stream shop.item.Item); }'}, "shop", "ShopBase", "shop.item", "Item"),
        "parent-package-doc": ({
            "doc/t.proto": 'syntax="proto3"; package doc; message T { int32 x = 1; }',
            "doc/api.proto": 'syntax="proto3"; package doc.api; import "doc/t.proto"; service Api { rpc Watch(stream doc.T) returns (stream doc.T); }'},
            "doc.api", "ApiBase", "doc", "T"),
    }
    for name, (protos, pkg, base_cls, tpkg, tcls) in cases.items():
        root = f"c13k34{os.getpid()}_{name.split('-')[0]}"
        try:
            rc, out, _ = pu.generate(ctx.work, protos, root)
            if rc != 0:
                ctx.fail("oracle", f"[{K35_CLS}] plugin failed on {name}: {out[-300:]}", cls=None, input={"protos": protos})
                continue
            code = ("import importlib\ntry:\n"
                    f" m = importlib.import_module({(root + '.' + pkg)!r}); t = importlib.import_module({(root + '.' + tpkg)!r})\n"
                    f" hd = list(getattr(m, {base_cls!r})().__mapping__().values())\n"
                    f" ok = all(h.request_type is getattr(t, {tcls!r}) and h.reply_type is getattr(t, {tcls!r}) for h in hd)\n"
                    " print('RESULT', 'ok' if ok else 'handler types wrong: %r' % hd)\n"
                    "except BaseException as e:\n print('RESULT', 'import raised %s: %s' % (type(e).__name__, e))\n")
            rc, out = pu.run_in_subprocess(ctx.work, code)
            res = [l for l in out.splitlines() if l.startswith("RESULT")]
            verdict = res[0][7:] if res else "no result: " + out[-300:]
            ctx.count("L_service_class_body_witnesses")
            if verdict != "ok":
                ctx.fail("oracle", f"[{K35_CLS}] {name}: {verdict}"[:500], cls=K35_CLS, input={"protos": protos})
            else:
                ctx.notes.append(f"witness {K35_CLS} ({name}) did not fail")
        except Exception:  # noqa
            ctx.fail("oracle", f"[{K35_CLS}] witness {name} raised: " + traceback.format_exc()[-800:], cls=None, input={"protos": protos})


# ======================================================================================================
def run(ctx):
    t_run = time.time()
    try:
        hypotheses(ctx)
    except Exception:  # noqa
        ctx.fail("oracle", "sampling the casing hypotheses raised: " + traceback.format_exc()[-1200:], cls=None, input=None)
    bad = []
    try:
        bad, descr = t2(ctx)
    except RuntimeError as e:
        ctx.fail("corr", "model evaluation failed: " + str(e)[-1500:], no_input=True,
                 theorem_or_correspondence="T2 correspondence Model/Importing.v")
    except Exception:  # noqa
        ctx.fail("corr", "T2 stage raised: " + traceback.format_exc()[-1500:], no_input=True,
                 theorem_or_correspondence="T2 correspondence Model/Importing.v")
    t_t2 = time.time()
    try:
        generation(ctx)
    except Exception:  # noqa
        ctx.fail("oracle", "real generation stage raised: " + traceback.format_exc()[-1500:], cls=None, input=None)
    try:
        service_scope_witnesses(ctx)
    except Exception:  # noqa
        ctx.fail("oracle", "stage L service witnesses raised: " + traceback.format_exc()[-1200:], cls=None, input=None)
    try:
        locals_stage(ctx)
    except RuntimeError as e:
        ctx.fail("corr", "stage L: model evaluation failed: " + str(e)[-1500:], no_input=True,
                 theorem_or_correspondence="L correspondence Model/C13Hints.v")
    except Exception:  # noqa
        ctx.fail("corr", "stage L raised: " + traceback.format_exc()[-1500:], no_input=True,
                 theorem_or_correspondence="L correspondence Model/C13Hints.v")
    ctx.notes.append(f"stage times: build+audit {t_run - ctx.t0:.0f}s, hypotheses+T2 {t_t2 - t_run:.0f}s, generation {time.time() - t_t2:.0f}s")


def finish(ctx):
    return lib.finish(
        ctx, "proof",
        "Coq theorems over a Gallina mirror of compile/importing.py against an independent specification of Python import "
        "binding (Spec/PyImport.v) + executable correspondence (vm_compute) + real plugin generation and import",
        ASSUMPTIONS, TRUSTED, RULE,
        extra_cov={"exhaustive": False,
                   "explanation": "theorems are for package paths of any depth; T2 is exhaustive for depth<=3 over {a,b,c}; "
                                  "generation covers every relative position for the path set of the tier"})


def replay(ctx, obj):
    """re-run a recorded generation failure: the replay holds the .proto files"""
    inp = obj.get("input") or {}
    protos = inp.get("protos") if isinstance(inp, dict) else None
    print(json.dumps({k: obj.get(k) for k in ("kind", "what", "cls")}, indent=1))
    if isinstance(protos, dict):
        from .. import plugin_util as pu
        rc, out, out_dir = pu.generate(ctx.work, protos, "c13replay")
        print("plugin rc", rc, out[-500:])
        mods = sorted({os.path.relpath(d, out_dir).replace(os.sep, ".") for d, _, fs in os.walk(out_dir) if "__init__.py" in fs})
        code = "import importlib\n" + "".join(
            f"try:\n m=importlib.import_module({('c13replay.' + m if m != '.' else 'c13replay')!r})\n"
            " import typing\n"
            " [print(m.__name__, n, typing.get_type_hints(c, vars(m))) for n,c in vars(m).items() if isinstance(c,type) and hasattr(c,'__dataclass_fields__') and c.__module__==m.__name__]\n"
            "except BaseException as e:\n print('FAILED', type(e).__name__, e)\n" for m in mods)
        rc, out = pu.run_in_subprocess(ctx.work, code)
        print(out)
        return 1 if "FAILED" in out else 0
    print(json.dumps(inp, indent=1, default=repr)[:3000])
    return 0


if __name__ == "__main__":
    if len(sys.argv) > 1 and sys.argv[1] == "--worker":
        worker_main(sys.argv[2:])
