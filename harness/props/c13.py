"""C13 — cross-package type references in generated code resolve to the right class.

Stages (after build + audit done by harness.main):
  H   the hypotheses the Coq theorems make about casing.pascal_case / safe_snake_case, sampled on the real functions
  T2  string-level correspondence Model/Importing.v <-> betterproto.compile.importing
      (parse_source_type_name; get_type_reference for ALL ordered pairs of package paths of depth 0..3 over {a,b,c}
       x 4 referenced kinds, plus google.protobuf / betterproto / odd-name cases; output file names of parser.py)
  G   real generation: .proto files -> the real plugin -> import under a unique root package in a subprocess ->
      identity of the resolved annotation / cls_by_field / rpc handler types with the class generated for the target
      (found by a marker field, independently of any naming function); sites field, repeated, map value, oneof,
      rpc input, rpc output (unary and streaming); all-at-once (protoc + plugin binary) and pairwise in isolation
      (plugin's generate_code on protoc's descriptors); circular packages throughout.
"""
import itertools
import json
import os
import subprocess
import sys
import time
import traceback

from .. import lib
from ..lib import cb, cl, cz, CN, coq_bytes

TRUSTED = [
    "Coq 8.16.1 kernel and vm_compute; full .vo build via coq_makefile",
    "axioms: none (every theorem of Properties/C13.v is 'Closed under the global context')",
    "specification coq/Spec/PyImport.v (what `import m as z` / `from ..x import y as z` bind inside a package, what a dotted "
    "annotation denotes): final bindings only, import-time ordering of circular packages is exercised by real generation, not modelled",
    "hand-written model coq/Model/Importing.v tied to /repo by executable correspondence (this harness, vm_compute inside Coq)",
    "translator harness/gen_c13.py (WRAPPER_TYPES and sample values of the casing functions -> coq/gen/C13Tables.v)",
    "casing.pascal_case / safe_snake_case are parameters of the theorems; the hypotheses made about them are sampled here on the real functions",
    "Python side: .proto writer, marker-based identification of the target class, typing.get_type_hints, grpc_tools.protoc 1.84, "
    "pass-through `ruff` shim (ruff is not installed: formatting / unused-import removal are not exercised)",
]
ASSUMPTIONS = [
    "str is modelled as its UTF-8 bytes; re's [^A-Z] and . act bytewise the same as on code points",
    "hypotheses of the theorems about the casing functions (parameters cls_name = pythonize_class_name/pascal_case, snake = "
    "safe_snake_case), each sampled on the real functions by this check: (i) snake's result consists of [A-Za-z0-9_] for every input; "
    "(ii) snake('.'.join(l)) = '_'.join(l) for segments of the form [a-z]+[0-9]* that are not keywords (C13_no_alias_clash, C13_coexist); "
    "(iii) for each referenced type name T: cls_name(T) is an ASCII identifier, not a keyword, starting with an upper-case letter or digit; "
    "(iv) cls_name('Foo.Bar') = cls_name('_Foo_Bar') (reference vs. class statement, C13_class_name)",
    "the generated tree is placed inside a package (root <> []): betterproto's relative imports climb to the parent of the "
    "top-level proto package (C13_toplevel_refuted shows the statement is false otherwise; README generates into ./lib)",
    "side conditions of C13_resolves: package segments are ASCII identifiers without upper-case letters, not keywords, first segment "
    "not `betterproto` (K30), target not google.protobuf itself (C13_wellknown covers it); type names have no '.' before their first "
    "upper-case letter (K2); C13_coexist additionally: segments of the form [a-z]+[0-9]* (K31 otherwise)",
    "world model of Spec/PyImport.v: module attributes = its classes, then its sub-packages; names a module binds through its own "
    "imports are not attributes visible to OTHER modules' from-imports; final bindings only (no import-time ordering)",
    "Jinja rendering and Python's importer are exercised for real in the generation tie but no theorem speaks about them",
]
RULE = ("T2: exhaustive over ordered pairs of package paths of depth 0..3 over {a,b,c} x {message, nested message, enum, nested enum}; "
        "all strings over {a,B,.,_,newline} up to length 5 for the regex; random odd names. "
        "Generation: all ordered pairs over the path set of the tier, each pair x 4 kinds x {field, repeated, map value, oneof} "
        "+ rpc in/out unary and streaming; non-trivial = referencing package differs from target package; "
        "distinct = distinct (referencing path, target path, kind, site)")

IMPORTS_BASE = "Model.Importing gen.C13Tables"
KINDS = ["Msg", "Outer.Inner", "En", "Outer.NEn"]          # top-level message, nested message, enum, nested enum
MARK = {"Msg": "mk_msg", "Outer.Inner": "mk_inner", "En": "TOP_ONE", "Outer.NEn": "NEST_ONE"}
SITES = ["field", "repeated", "map", "oneof"]


# ======================================================================================================
# helpers
# ======================================================================================================
def paths_over(alpha, depth):
    out = [()]
    for d in range(1, depth + 1):
        out += list(itertools.product(alpha, repeat=d))
    return out


def relation(cur, tgt):
    if cur == tgt:
        return "same"
    if not tgt:
        return "root"
    if tgt[:len(cur)] == cur:
        return "descendant"
    if cur[:len(tgt)] == tgt:
        return "ancestor"
    if len(cur) == len(tgt) and cur[:-1] == tgt[:-1]:
        return "sibling"
    return "cousin"


def coq_tbl(d):
    return "[" + "; ".join(f"({coq_bytes(k.encode())}, {coq_bytes(v.encode())})" for k, v in sorted(d.items())) + "]"


def contiguous_joins(segs):
    out = set()
    n = len(segs)
    for i in range(n):
        for j in range(i + 1, n + 1):
            out.add(".".join(segs[i:j]))
    return out


# ======================================================================================================
# H: hypotheses about the casing functions, sampled on the real code
# ======================================================================================================
def hypotheses(ctx):
    import keyword
    import re
    from betterproto import casing
    from betterproto.compile.naming import pythonize_class_name as cls_name

    rng = ctx.rng
    ident = re.compile(r"^[A-Za-z_][A-Za-z0-9_]*$")
    n = 0
    # type names: proto identifiers, nested with '.', first segment upper-initial (conventional) or arbitrary
    def seg(upper):
        first = rng.choice("ABCXYZ" if upper else "abcxyz_ABC")
        rest = "".join(rng.choice("abcXYZ019_") for _ in range(rng.randint(0, 6)))
        return first + rest
    names = ["Msg", "Outer.Inner", "En", "Outer.NEn", "Foo", "Foo.Bar", "FooBar", "HTTPServer.V2", "A", "A.B.C", "X_Y.Z_W"]
    for _ in range(3000 if not ctx.thorough else 30000):
        k = rng.randint(1, 3)
        names.append(".".join(seg(i == 0 or rng.random() < 0.7) for i in range(k)))
    for T in names:
        n += 1
        c = cls_name(T)
        flat = "_" + T.replace(".", "_")
        # H_cls_flat: reference and flattened definition agree
        if cls_name(flat) != c:
            ctx.fail("oracle", f"hypothesis H_cls_flat fails: pythonize_class_name({T!r})={c!r} but the class is defined as "
                     f"pythonize_class_name({flat!r})={cls_name(flat)!r}", cls="hyp-cls-flat", input=T)
            break
        if T[0].isupper():
            # H_cls_ident / no underscore / first char not lower-case, for upper-initial names
            if not ident.match(c) or keyword.iskeyword(c) or "_" in c or not (c[0].isupper() or c[0].isdigit()) or not c.isascii():
                ctx.fail("oracle", f"hypothesis on class names fails: pythonize_class_name({T!r})={c!r}", cls="hyp-cls-ident", input=T)
                break
    # snake: plain segments [a-z]+[0-9]* ; safe_snake_case(".".join(l)) == "_".join(l)
    def plain():
        return "".join(rng.choice("abcxyz") for _ in range(rng.randint(1, 5))) + "".join(rng.choice("019") for _ in range(rng.choice([0, 0, 1, 2])))
    cases = [["a"], ["a", "b"], ["betterproto", "lib", "google", "protobuf"], ["betterproto", "lib", "pydantic", "google", "protobuf"]]
    for _ in range(3000 if not ctx.thorough else 30000):
        cases.append([plain() for _ in range(rng.randint(1, 4))])
    for l in cases:
        if len(l) == 1 and keyword.iskeyword(l[0]):
            continue
        n += 1
        s = casing.safe_snake_case(".".join(l))
        if s != "_".join(l):
            ctx.fail("oracle", f"hypothesis H_snake fails: safe_snake_case({'.'.join(l)!r})={s!r}", cls="hyp-snake", input=l)
            break
    # snake output is always an identifier (any input of identifier-ish segments)
    for _ in range(2000):
        l = [seg(False) for _ in range(rng.randint(1, 4))]
        s = casing.safe_snake_case(".".join(l))
        n += 1
        if not ident.match(s) or keyword.iskeyword(s):
            ctx.fail("oracle", f"hypothesis H_snake_ident fails: safe_snake_case({'.'.join(l)!r})={s!r}", cls="hyp-snake-ident", input=l)
            break
    # snake output consists of identifier characters for ANY input (hypothesis `forall s, ident_chars (snake s)`)
    chars = re.compile(r"^[A-Za-z0-9_]*$")
    for _ in range(3000 if not ctx.thorough else 30000):
        s0 = "".join(rng.choice("abzABZ019_.-/ é\u00df\u4e2d\n$") for _ in range(rng.randint(0, 12)))
        s = casing.safe_snake_case(s0)
        n += 1
        if not chars.match(s):
            ctx.fail("oracle", f"hypothesis snake_chars fails: safe_snake_case({s0!r})={s!r}", cls="hyp-snake-chars", input=s0)
            break
    ctx.count("hypothesis_samples", n)
    ctx.cov["evaluations"] += n


# ======================================================================================================
# T2
# ======================================================================================================
def hmix(h, x):
    a = h[0] + x + 1
    return (a, h[1] + a)


def hmix_bytes(h, bs):
    h = hmix(h, len(bs))
    for c in bs:
        h = hmix(h, c)
    return h


def hcv(h):
    return cl([cz(h[0]), cz(h[1])])


def t2(ctx):
    from betterproto import casing
    from betterproto.compile import importing
    from betterproto.compile.naming import pythonize_class_name
    from betterproto.plugin import typing_compiler as tcm

    rng = ctx.rng
    pairs, descr = [], []

    compilers = {"direct": tcm.DirectImportTypingCompiler, "root": tcm.TypingImportTypingCompiler, "310": tcm.NoTyping310TypingCompiler}
    opt_expr = {}
    for k, C in compilers.items():
        s = C().optional("@")
        pre, suf = s.split("@")
        opt_expr[k] = f"(fun s => {coq_bytes(pre.encode())} ++ s ++ {coq_bytes(suf.encode())})"

    def impl(package, source_type, unwrap, pydantic, comp):
        imps = set()
        r = importing.get_type_reference(package=package, imports=imps, source_type=source_type,
                                         typing_compiler=compilers[comp](), unwrap=unwrap, pydantic=pydantic)
        if len(imps) > 1:
            raise RuntimeError("more than one import added")
        return r, (sorted(imps)[0] if imps else None)

    def tables_for(source_type):
        """real values of the two casing functions on everything the model may look up for this input"""
        sp, st = importing.parse_source_type_name(source_type)
        py = sp.split(".") if sp else []
        snk = set()
        for pre in ([], ["betterproto", "lib"], ["betterproto", "lib", "pydantic"]):
            l = pre + py
            for i in range(len(l)):
                snk.add(".".join(l[i:]))
        return {st: pythonize_class_name(st)}, {x: casing.safe_snake_case(x) for x in snk}

    def ref_case(package, source_type, unwrap=True, pydantic=False, comp="direct", tag="pair", CLS=None, SNK=None):
        if CLS is None:
            c, k = tables_for(source_type)
            CLS, SNK = f"(tbl_fun {coq_tbl(c)})", f"(tbl_fun {coq_tbl(k)})"
        try:
            r, imp = impl(package, source_type, unwrap, pydantic, comp)
            exp = cl([cb(r.encode()), cb(imp.encode()) if imp is not None else CN])
        except Exception as e:  # noqa
            exp = lib.ce(lib.exc_kind(e))
        m = (f"(let '(r, i) := get_type_reference {CLS} {SNK} {opt_expr[comp]} {coq_bytes(package.encode())} "
             f"{coq_bytes(source_type.encode())} {lib.coq_bool(unwrap)} {lib.coq_bool(pydantic)} in CL [CB r; copt CB i])")
        return (m, exp), ("get_type_reference", package, source_type, unwrap, pydantic, comp, tag)

    def parse_case(s):
        try:
            p, n = importing.parse_source_type_name(s)
            exp = cl([cb(p.encode()), cb(n.encode())])
        except Exception as e:  # noqa
            exp = lib.ce(lib.exc_kind(e))
        return (f"(let '(p, n) := parse_source_type_name {coq_bytes(s.encode())} in CL [CB p; CB n])", exp), ("parse_source_type_name", s)

    # ================= exhaustive families, as checksums computed on both sides =================
    sweeps = []      # (model expr, expected, descr, fallback: function producing detailed cases)
    alpha = "aB._\n"
    maxlen = 5 if not ctx.thorough else 6
    nstr = 0
    for L in range(0, maxlen + 1):
        for pre in ([""] if L < maxlen else list(alpha)):
            n = L - len(pre)
            h = (0, 0)
            ss = [pre + "".join(t) for t in itertools.product(alpha, repeat=n)]
            for s in ss:
                p, t = importing.parse_source_type_name(s)
                h = hmix_bytes(hmix_bytes(h, p.encode()), t.encode())
            nstr += len(ss)
            sweeps.append((f"hcv (sweep_parse {coq_bytes(alpha.encode())} {coq_bytes(pre.encode())} {n}%nat)", hcv(h),
                           ("sweep_parse", alpha, pre, n), (lambda ss=ss: [parse_case(s) for s in ss])))
    ctx.count("t2_parse_strings_exhaustive", nstr)
    for s in [".a.B", ".a.b.B", "a.B.B", ".B.a", "..a.B", ".a.b\nB"]:
        ctx.seen_nontrivial(("parse", s))

    P3 = paths_over("abc", 3)
    # fixed tables for the exhaustive pairs
    cls_t = {k: pythonize_class_name(k) for k in KINDS}
    snk_in = set()
    for p in P3:
        snk_in |= contiguous_joins(list(p))
    snk_t = {x: casing.safe_snake_case(x) for x in snk_in}
    prelude = (f"Definition CLS := tbl_fun {coq_tbl(cls_t)}.\nDefinition SNK := tbl_fun {coq_tbl(snk_t)}.\n"
               f"Definition OPT := {opt_expr['direct']}.\n"
               "Definition ALPHA : list (list byte) := [[x61]; [x62]; [x63]].\n"
               f"Definition KINDS : list (list byte) := [{'; '.join(coq_bytes(k.encode()) for k in KINDS)}].\n"
               "Definition P3 := paths_upto ALPHA 3.\n")

    def coq_path(p):
        return "[" + "; ".join(coq_bytes(x.encode()) for x in p) + "]"

    raised = 0
    for cur in P3:
        h = (0, 0)
        for tgt in P3:
            for kind in KINDS:
                try:
                    r, imp = impl(".".join(cur), "." + ".".join(tgt + (kind,)), True, False, "direct")
                except Exception as e:  # noqa  the plugin itself would crash on this reference
                    if raised < 3:
                        ctx.fail("oracle", f"get_type_reference(package={'.'.join(cur)!r}, source_type={'.' + '.'.join(tgt + (kind,))!r}) "
                                 f"raised {type(e).__name__}: {e}", cls=None, input={"package": ".".join(cur), "source_type": "." + ".".join(tgt + (kind,))})
                    raised += 1
                    h = hmix(h, -2)
                    continue
                h = hmix_bytes(h, r.encode())
                h = hmix_bytes(h, imp.encode()) if imp is not None else hmix(h, -1)
                ctx.count("t2_rel:" + relation(cur, tgt))
                if cur != tgt:
                    ctx.seen_nontrivial(("t2", cur, tgt, kind))

        def fb(cur=cur):
            return [ref_case(".".join(cur), "." + ".".join(tgt + (kind,)), True, False, "direct", "pair", "CLS", "SNK")
                    for tgt in P3 for kind in KINDS]
        sweeps.append((f"hcv (sweep_refs CLS SNK OPT {coq_path(cur)} P3 KINDS true false)", hcv(h), ("sweep_refs", cur), fb))
    ctx.count("t2_pairs_depth3_x_kinds_exhaustive", len(P3) * len(P3) * len(KINDS))

    bad_sw = lib.coq_compare(ctx, "c13sw", IMPORTS_BASE, [(m, e) for m, e, _, _ in sweeps], chunk=4, prelude=prelude)
    ctx.cov["traces_validated_against_impl"] += nstr + len(P3) * len(P3) * len(KINDS) - len(sweeps)
    ctx.cov["evaluations"] += nstr + len(P3) * len(P3) * len(KINDS)
    for i in bad_sw[:6]:            # localise: case by case inside the families that differ
        det = sweeps[i][3]()
        pairs += [d[0] for d in det]
        descr += [d[1] for d in det]
    if bad_sw:
        ctx.notes.append(f"checksums differ for {[sweeps[i][2] for i in bad_sw[:6]]}; compared case by case")

    # ================= individually compared cases =================
    def add(c):
        pairs.append(c[0])
        descr.append(c[1])

    extra = [".a.b.Msg", "a.b.Msg", ".Msg", ".a.Cap.M", ".a.foo.Bar", ".google.protobuf.Struct", "..a.B", ".a.", "a..B", ".A.b.c",
             ".a.b.C\nD.e", ".é.B", ".a.Éb.c", ".a1.b2.C3", ".a_b.c_d.E_f.G_h", "", ".", "..", "Z", "z"]
    strs = set(extra)
    for _ in range(300 if not ctx.thorough else 3000):
        strs.add("".join(rng.choice("abzABZ..._09\né") for _ in range(rng.randint(0, 14))))
    for s in sorted(strs):
        add(parse_case(s))
        if "." in s.strip("."):
            ctx.seen_nontrivial(("parse", s))
    ctx.count("t2_parse_strings_individual", len(strs))

    # regression corpus first
    cpath = os.path.join(lib.VERIF, "corpus", "C13_cases.json")
    if os.path.exists(cpath):
        cp = json.load(open(cpath))
        for pkg, st in cp.get("get_type_reference", []):
            for unwrap in (True, False):
                add(ref_case(pkg, st, unwrap, False, tag="corpus"))
        for st in cp.get("parse_source_type_name", []):
            add(parse_case(st))
        ctx.count("t2_corpus_cases", 2 * len(cp.get("get_type_reference", [])) + len(cp.get("parse_source_type_name", [])))
    # well-known types, google.protobuf itself, all compilers
    wk = sorted(importing.WRAPPER_TYPES) + [".google.protobuf.Duration", ".google.protobuf.Timestamp", ".google.protobuf.Struct",
                                            ".google.protobuf.Empty", ".google.protobuf.Any", ".google.protobuf.FieldMask",
                                            ".google.protobuf.compiler.Version", ".google.Foo", ".google.protobuf2.X",
                                            "google.protobuf.Int32Value", ".google.protobuf.int32value"]
    nwk = 0
    wk_curs = ["", "a", "a.b", "google", "google.protobuf", "google.protobuf.compiler", "betterproto", "betterproto.lib"]
    for cur in (wk_curs if ctx.thorough else wk_curs[:5]):
        for s in wk:
            for unwrap, pyd, comp in [(True, False, "direct"), (True, True, "root"), (True, False, "310"),
                                      (False, False, "direct"), (False, True, "direct")]:
                add(ref_case(cur, s, unwrap, pyd, comp, tag="wellknown"))
                nwk += 1
                ctx.seen_nontrivial(("t2wk", cur, s, unwrap, pyd))
    ctx.count("t2_wellknown_cases", nwk)
    # a sample of the exhaustive family also individually, with random flags (guards the checksum path itself)
    for _ in range(150):
        cur, tgt = rng.choice(P3), rng.choice(P3)
        add(ref_case(".".join(cur), "." + ".".join(tgt + (rng.choice(KINDS),)), rng.random() < 0.5, rng.random() < 0.5, tag="pair-sample"))
    # odd segments
    segs = ["a", "b", "c", "a_b", "a1", "a1b", "Cap", "x", "betterproto", "google", "protobuf", "_p", "class", "é", ""]
    tnames = ["Msg", "Outer.Inner", "foo", "foo.Bar", "fooBar", "_X", "X_y.Z", "HTTPReq", "m"]
    nodd = 700 if not ctx.thorough else 10000
    for _ in range(nodd):
        cur = [rng.choice(segs) for _ in range(rng.choice([0, 1, 1, 2, 2, 3, 4]))]
        if rng.random() < 0.6 and cur:
            k = rng.randint(0, len(cur))
            tgt = cur[:k] + [rng.choice(segs) for _ in range(rng.choice([0, 1, 2]))]
        else:
            tgt = [rng.choice(segs) for _ in range(rng.choice([0, 1, 2, 3, 4]))]
        T = rng.choice(tnames)
        add(ref_case(".".join(cur), ("." if rng.random() < 0.9 else "") + ".".join(tgt + [T]), rng.random() < 0.5, rng.random() < 0.3, tag="odd"))
        ctx.seen_nontrivial(("t2odd", tuple(cur), tuple(tgt), T))
    ctx.count("t2_odd_cases", nodd)

    # ---- output files: model's response_files vs names the plugin puts in its response
    from .. import plugin_util as pu
    shim = pu.shim_dir(ctx.work)
    if shim not in os.environ.get("PATH", "").split(":"):
        os.environ["PATH"] = shim + ":" + os.environ.get("PATH", "")
    out_cases = [[""], ["a"], ["a.b.c"], ["a.b", "a"], ["a.b.c", "x.y", ""], ["a..b"], ["a.b", "a.b.c.d", "c"]]
    for pk in out_cases:
        real = plugin_response_names(pk)
        cand = set(real) | {"__init__.py", "a/__init__.py", "a/b/__init__.py", "x/__init__.py", "b/__init__.py", "a/b/c/d/e/__init__.py"}
        plist = "[" + "; ".join(coq_bytes(p.encode()) for p in pk) + "]"
        for f in sorted(cand):
            pairs.append((f"cbool (existsb (bytes_eqb {coq_bytes(f.encode())}) (response_files {plist}))", lib.cbool(f in real)))
            descr.append(("response_files", pk, f))
        pairs.append((f"CZ (Z.of_nat (length (response_files {plist})))", cz(len(real))))
        descr.append(("response_files_count", pk))
    ctx.count("t2_output_file_cases", len(out_cases))

    # ---- traverse(): the flattened names the class statements are made from
    try:
        from betterproto.lib.google.protobuf import DescriptorProto, EnumDescriptorProto, FileDescriptorProto
        from betterproto.plugin.parser import traverse

        leaf = DescriptorProto(name="Leaf_x")
        inner = DescriptorProto(name="Inner", nested_type=[leaf], enum_type=[EnumDescriptorProto(name="NEn")])
        outer = DescriptorProto(name="Outer", nested_type=[inner, DescriptorProto(name="second")])
        fd = FileDescriptorProto(name="t.proto", package="p", message_type=[outer, DescriptorProto(name="Msg")],
                                 enum_type=[EnumDescriptorProto(name="En")])
        want = {(5, 0): ["En"], (4, 0): ["Outer"], (4, 0, 3, 0): ["Outer", "Inner"], (4, 0, 3, 0, 4, 0): ["Outer", "Inner", "NEn"],
                (4, 0, 3, 0, 3, 0): ["Outer", "Inner", "Leaf_x"], (4, 0, 3, 1): ["Outer", "second"], (4, 1): ["Msg"]}
        got = {tuple(path): item.name for item, path in traverse(fd)}
        for path, nested in want.items():
            nl = "[" + "; ".join(coq_bytes(x.encode()) for x in nested) + "]"
            pairs.append((f"CB (flat_name [] {nl})", cb(got.get(path, "<missing>").encode())))
            descr.append(("traverse_flat_name", list(path), nested))
        if set(got) != set(want):
            ctx.fail("corr", f"traverse yields paths {sorted(got)} , expected {sorted(want)}", input="traverse", no_input=True,
                     theorem_or_correspondence="T2 traverse / flat_name")
        ctx.count("t2_traverse_names", len(want))
    except Exception:  # noqa
        ctx.fail("corr", "traverse correspondence raised: " + traceback.format_exc()[-800:], no_input=True,
                 theorem_or_correspondence="T2 traverse / flat_name")

    ctx.cov["evaluations"] += len(pairs)
    bad = lib.coq_compare(ctx, "c13", IMPORTS_BASE, pairs, chunk=200, prelude=prelude)
    ctx.cov["disagreements_checked"] += len(pairs) + len(sweeps)
    for i in bad[:12]:
        d = descr[i]
        ctx.fail("corr", f"model and implementation disagree on {d[0]}", input=list(d), model_expr=pairs[i][0][:900],
                 observed_impl=pairs[i][1], theorem_or_correspondence="T2 correspondence Model/Importing.v <-> betterproto.compile.importing / plugin.parser")
    if bad_sw and not bad:
        ctx.fail("corr", "exhaustive checksum differs but no individual case does (harness enumeration out of step with the model)",
                 input=[list(map(str, sweeps[i][2])) for i in bad_sw[:6]], no_input=True,
                 theorem_or_correspondence="T2 exhaustive sweep Model/Importing.v")
    for i in (0, 30, 400, len(pairs) - 1):
        if i < len(pairs):
            ctx.sample({"case": list(descr[i]), "impl": pairs[i][1]})
    return bad, descr


def plugin_response_names(pkgs):
    """file names in the CodeGeneratorResponse of the real generate_code for one empty file per package"""
    from betterproto.lib.google.protobuf import FileDescriptorProto
    from betterproto.lib.google.protobuf.compiler import CodeGeneratorRequest
    from betterproto.plugin.parser import generate_code

    cwd = os.getcwd()
    files = [FileDescriptorProto(name=f"f{i}.proto", package=p, syntax="proto3") for i, p in enumerate(pkgs)]
    req = CodeGeneratorRequest(file_to_generate=[f.name for f in files], proto_file=files)
    d = os.path.join("/tmp", f"c13-empty-{os.getpid()}")
    os.makedirs(d, exist_ok=True)
    try:
        os.chdir(d)                      # `.exists()` in parser.py looks at the cwd
        with _quiet_stderr():
            resp = generate_code(req)
    finally:
        os.chdir(cwd)
        try:
            os.rmdir(d)
        except OSError:
            pass
    return sorted(f.name for f in resp.file)


class _quiet_stderr:
    def __enter__(self):
        self.old = sys.stderr
        sys.stderr = open(os.devnull, "w")

    def __exit__(self, *a):
        sys.stderr.close()
        sys.stderr = self.old


# ======================================================================================================
# G: real generation
# ======================================================================================================
def pkg_stmt(P):
    return f"package {'.'.join(P)};\n" if P else ""


def fq(P, kind):
    return "." + ".".join(tuple(P) + (kind,))


def types_proto(P, lower=False):
    return ('syntax = "proto3";\n' + pkg_stmt(P) +
            "message Msg { int32 mk_msg = 1; }\n"
            "message Outer {\n  message Inner { int32 mk_inner = 1; }\n  enum NEn { NEST_ZERO = 0; NEST_ONE = 1; }\n  int32 mk_outer = 1;\n}\n"
            "enum En { TOP_ZERO = 0; TOP_ONE = 1; }\n")


def refs_proto(P, targets, jobdir, full, services=True):
    """message Refs in package P referencing the 4 kinds of every target package.
    Returns (text, expectations) ; expectations: list of dicts {field|rpc, site, target, kind}"""
    lines = ['syntax = "proto3";', pkg_stmt(P)]
    for t in sorted(set(targets)):
        if tuple(t) != tuple(P) or True:
            lines.append(f'import "t/types_{"-".join(t) or "root"}.proto";')
    exp = []
    body, n = [], 1
    rpcs = []
    used_names = set()
    for ti, Q in enumerate(targets):
        combos = [(s, k) for s in range(4) for k in range(4)] if full else [(s, (s + ti) % 4) for s in range(4)]
        for s, k in combos:
            kind = KINDS[k]
            site = SITES[s]
            fname = f"f{ti}_{site}_{k}"
            rest = list(Q)[len(P):]
            if site == "field" and (s, k) == combos[0] and len(Q) > len(P) and list(Q)[:len(P)] == list(P) and "_".join(rest) not in used_names:
                # the field is called exactly like the alias under which the descendant package is imported (`from . import b`,
                # `from .b import c as b_c`): annotations must resolve against the MODULE, not against the class attribute of
                # that name (seeded change C13-5)
                fname = "_".join(rest)
            used_names.add(fname)
            ty = fq(Q, kind)
            if site == "field":
                body.append(f"  {ty} {fname} = {n};")
            elif site == "repeated":
                body.append(f"  repeated {ty} {fname} = {n};")
            elif site == "map":
                body.append(f"  map<string, {ty}> {fname} = {n};")
            else:
                body.append(f"  oneof g{ti}_{k} {{ {ty} {fname} = {n}; int32 alt{ti}_{k} = {n + 1}; }}")
                n += 1
            n += 1
            exp.append({"field": fname, "site": site, "target": list(Q), "kind": kind})
        if services:
            a, b = ("Msg", "Outer.Inner") if ti % 2 == 0 or full else ("Outer.Inner", "Msg")
            rpcs.append(f"  rpc U{ti}({fq(Q, a)}) returns ({fq(Q, b)});")
            rpcs.append(f"  rpc S{ti}(stream {fq(Q, b)}) returns (stream {fq(Q, a)});")
            exp.append({"rpc": f"u{ti}", "in": a, "out": b, "target": list(Q), "streaming": False})
            exp.append({"rpc": f"s{ti}", "in": b, "out": a, "target": list(Q), "streaming": True})
    lines.append(f"message Refs{jobdir.upper()} {{\n" + "\n".join(body) + "\n}")
    if services and rpcs:
        lines.append(f"service Svc{jobdir.upper()} {{\n" + "\n".join(rpcs) + "\n}")
    return "\n".join(lines) + "\n", exp


def make_job(jid, edges, full, label=None, root_mode="pkg"):
    """edges: {P: [Q, ...]} referencing package -> target packages. Every package mentioned gets a types file."""
    jobdir = f"j{jid}"
    pk = set(edges)
    for qs in edges.values():
        pk |= set(qs)
    protos, expect = {}, {}
    for P in sorted(pk):
        protos[f"t/types_{'-'.join(P) or 'root'}.proto"] = types_proto(P)
    for P, qs in sorted(edges.items()):
        text, exp = refs_proto(P, qs, jobdir, full)
        protos[f"{jobdir}/refs_{'-'.join(P) or 'root'}.proto"] = text
        expect[".".join(P)] = exp
    return {"id": jid, "root": f"c13r{os.getpid()}_{jid}", "refs": f"RefsJ{jid}", "svc": f"SvcJ{jid}", "protos": protos, "expect": expect, "label": label,
            "packages": sorted(".".join(P) for P in pk), "root_mode": root_mode}


# ---- the part that runs in the worker subprocess -------------------------------------------------------
CHECK_SNIPPET = r'''
import dataclasses, importlib, sys, typing, traceback
import betterproto

def leaves(h, acc):
    args = typing.get_args(h)
    if args:
        for a in args:
            leaves(a, acc)
    elif isinstance(h, type):
        acc.append(h)
    return acc

def find_target(mod, kind):
    marks = {"Msg": "mk_msg", "Outer.Inner": "mk_inner", "En": "TOP_ONE", "Outer.NEn": "NEST_ONE"}
    mk = marks[kind]
    found = []
    for nm, v in vars(mod).items():
        if not isinstance(v, type) or getattr(v, "__module__", None) != mod.__name__:
            continue
        if kind in ("Msg", "Outer.Inner"):
            if issubclass(v, betterproto.Message) and dataclasses.is_dataclass(v) and [f.name for f in dataclasses.fields(v)] == [mk]:
                found.append(v)
        else:
            if issubclass(v, betterproto.Enum) and mk in getattr(v, "__members__", {}):
                found.append(v)
    return found

def check_job(job, modname):
    """returns list of failure strings; [] = every reference resolved to the generated class"""
    fails = []
    root = job["root"]
    n = 0
    def mname(dotted):
        if job["root_mode"] == "top":
            return dotted
        return root + ("." + dotted if dotted else "")
    mods = {}
    for p in job["packages"]:
        try:
            mods[p] = importlib.import_module(mname(p))
        except BaseException as e:
            fails.append({"what": f"importing package {p!r} raised {type(e).__name__}: {e}", "pkg": p})
    if fails:
        return fails, 0
    for p, exps in job["expect"].items():
        mod = mods[p]
        try:
            Refs = getattr(mod, job["refs"])
            hints = typing.get_type_hints(Refs, vars(mod), {})   # evaluated in the MODULE namespace (a field may be named like an import alias)
            bp_hints = Refs._type_hints()
        except BaseException as e:
            fails.append({"what": f"type hints of {p or '<root>'}.Refs raised {type(e).__name__}: {e}", "pkg": p})
            continue
        svc_hints = {}
        for e in exps:
            q = ".".join(e["target"])
            try:
                if "field" in e:
                    tg = find_target(mods[q], e["kind"])
                    if len(tg) != 1:
                        fails.append({"what": f"target {q}:{e['kind']} not uniquely generated ({[t.__name__ for t in tg]})", "pkg": p, "exp": e}); continue
                    tg = tg[0]
                    lv = [c for c in leaves(hints[e["field"]], []) if c not in (str, type(None))]
                    lv2 = [c for c in leaves(bp_hints[e["field"]], []) if c not in (str, type(None))]
                    n += 1
                    if lv != [tg] or lv2 != [tg]:
                        fails.append({"what": f"{p or '<root>'}.Refs.{e['field']} ({e['site']}) resolves to {lv} instead of {tg}", "pkg": p, "exp": e}); continue
                    key = e["field"] + (".value" if e["site"] == "map" else "")
                    cbf = Refs._betterproto.cls_by_field.get(key)
                    if cbf is not tg:
                        fails.append({"what": f"cls_by_field[{key}] is {cbf} instead of {tg}", "pkg": p, "exp": e}); continue
                    # use it: round trip through the referencing field
                    if e["site"] == "field" and e["kind"] in ("Msg", "Outer.Inner"):
                        mk = "mk_msg" if e["kind"] == "Msg" else "mk_inner"
                        back = Refs().parse(bytes(Refs(**{e["field"]: tg(**{mk: 7})})))
                        got = getattr(back, e["field"])
                        if type(got) is not tg or getattr(got, mk) != 7:
                            fails.append({"what": f"round trip through {e['field']} gives {got!r}", "pkg": p, "exp": e})
                    if e["site"] == "repeated" and e["kind"] in ("En", "Outer.NEn"):
                        back = Refs().parse(bytes(Refs(**{e["field"]: [tg(1)]})))
                        got = getattr(back, e["field"])
                        if got != [tg(1)] or type(got[0]) is not tg:
                            fails.append({"what": f"round trip through {e['field']} gives {got!r}", "pkg": p, "exp": e})
                else:
                    tin = find_target(mods[q], e["in"]); tout = find_target(mods[q], e["out"])
                    if len(tin) != 1 or len(tout) != 1:
                        fails.append({"what": f"rpc target classes of {q} not uniquely generated", "pkg": p, "exp": e}); continue
                    tin, tout = tin[0], tout[0]
                    n += 1
                    for cname in (job["svc"] + "Stub", job["svc"] + "Base"):
                        fn = getattr(getattr(mod, cname), e["rpc"])
                        # (Deadline / MetadataLike are TYPE_CHECKING-only names: evaluate the message annotations only)
                        h = {k: (eval(v, dict(vars(mod))) if isinstance(v, str) else v) for k, v in fn.__annotations__.items()
                             if k not in ("timeout", "deadline", "metadata")}
                        ins = [c for k, v in h.items() if k != "return" for c in leaves(v, []) if isinstance(c, type) and issubclass(c, betterproto.Message)]
                        outs = [c for c in leaves(h.get("return"), []) if isinstance(c, type) and issubclass(c, betterproto.Message)]
                        if set(ins) != {tin} or set(outs) != {tout}:
                            fails.append({"what": f"{cname}.{e['rpc']} annotations resolve to in={ins} out={outs}, expected {tin} / {tout}", "pkg": p, "exp": e})
                    if not svc_hints:
                        svc_hints = getattr(mod, job["svc"] + "Base")().__mapping__()
                    route = [r for r in svc_hints if r.endswith("/" + e["rpc"][0].upper() + e["rpc"][1:])]
                    hd = svc_hints[route[0]]
                    if hd.request_type is not tin or hd.reply_type is not tout:
                        fails.append({"what": f"handler {route[0]} has types {hd.request_type} / {hd.reply_type}", "pkg": p, "exp": e})
            except BaseException as ex:
                fails.append({"what": f"checking {e} raised {type(ex).__name__}: {ex}", "pkg": p, "exp": e})
    return fails, n
'''


def worker_main(argv):
    """python -m harness.props.c13 --worker <jobs.json> <descriptor set> <base dir> <out json>
    For every job: plugin's generate_code on a request holding exactly the job's files, write the response under
    <base>/<root>/, import and check."""
    jobs = json.load(open(argv[0]))
    from google.protobuf import descriptor_pb2, compiler
    from google.protobuf.compiler import plugin_pb2
    from betterproto.lib.google.protobuf.compiler import CodeGeneratorRequest
    from betterproto.plugin.models import monkey_patch_oneof_index
    from betterproto.plugin.parser import generate_code

    base = argv[2]
    fds = descriptor_pb2.FileDescriptorSet()
    with open(argv[1], "rb") as f:
        fds.ParseFromString(f.read())
    by_name = {f.name: f for f in fds.file}
    monkey_patch_oneof_index()
    ns = {}
    exec(CHECK_SNIPPET, ns)
    sys.path.insert(0, base)
    os.environ["PATH"] = os.path.join(base, "shim") + ":" + os.environ.get("PATH", "")
    results = []
    devnull = open(os.devnull, "w")
    for job in jobs:
        res = {"id": job["id"], "fails": [], "checked": 0}
        try:
            req = plugin_pb2.CodeGeneratorRequest()
            names = sorted(job["protos"])
            # dependencies first (types before refs), as protoc orders them
            names.sort(key=lambda n: (0 if n.startswith("t/types_") else 1, n))
            for nme in names:
                req.proto_file.append(by_name[nme])
                req.file_to_generate.append(nme)
            request = CodeGeneratorRequest().parse(req.SerializeToString())
            old = sys.stderr
            sys.stderr = devnull
            try:
                resp = generate_code(request)
            finally:
                sys.stderr = old
            rootdir = os.path.join(base, job["root"]) if job["root_mode"] != "top" else os.path.join(base, job["root"] + "_top")
            for f in resp.file:
                p = os.path.join(rootdir, f.name)
                os.makedirs(os.path.dirname(p), exist_ok=True)
                with open(p, "w") as fh:
                    fh.write(f.content)
            res["files"] = sorted(f.name for f in resp.file)
            if job["root_mode"] == "top":
                sys.path.insert(0, rootdir)
            import importlib
            importlib.invalidate_caches()
            fails, n = ns["check_job"](job, None)
            res["fails"] = fails
            res["checked"] = n
            if job["root_mode"] == "top":
                sys.path.remove(rootdir)
                for k in [k for k in sys.modules if k.split(".")[0] in {p.split(".")[0] for p in job["packages"] if p}]:
                    del sys.modules[k]
        except BaseException as e:  # noqa
            res["fails"].append({"what": f"generation raised {type(e).__name__}: {e}", "trace": traceback.format_exc()[-1500:]})
        results.append(res)
    with open(argv[3], "w") as f:
        json.dump(results, f)


def run_jobs_inprocess(ctx, jobs, nproc=None):
    """descriptor set for all jobs with one protoc call, then worker subprocesses"""
    from .. import plugin_util as pu

    base = ctx.work
    pu.shim_dir(base)
    protos = {}
    for j in jobs:
        protos.update(j["protos"])
    proto_dir = os.path.join(base, "pw_proto")
    pu.write_protos(proto_dir, protos)
    ds = os.path.join(base, "pw.pb")
    names = sorted(protos)
    # protoc in slices (command-line length)
    parts = []
    for i in range(0, len(names), 1500):
        out = f"{ds}.{i}"
        cmd = [lib.PY, "-W", "ignore", "-m", "grpc_tools.protoc", "-I", proto_dir, "-I", pu.proto_include(),
               f"--descriptor_set_out={out}"] + names[i:i + 1500]
        r = subprocess.run(cmd, env=pu._env(base), capture_output=True, text=True, timeout=600)
        if r.returncode != 0:
            raise RuntimeError("protoc rejected the generated schemas: " + r.stderr[-1500:])
        parts.append(out)
    from google.protobuf import descriptor_pb2
    fds = descriptor_pb2.FileDescriptorSet()
    for p in parts:
        x = descriptor_pb2.FileDescriptorSet()
        with open(p, "rb") as f:
            x.ParseFromString(f.read())
        fds.file.extend(x.file)
    with open(ds, "wb") as f:
        f.write(fds.SerializeToString())
    nproc = nproc or min(lib.JOBS, max(1, len(jobs) // 4))
    procs = []
    for w in range(nproc):
        mine = jobs[w::nproc]
        if not mine:
            continue
        jf = os.path.join(base, f"jobs_{w}.json")
        of = os.path.join(base, f"res_{w}.json")
        with open(jf, "w") as f:
            json.dump(mine, f)
        e = pu._env(base)
        e["PYTHONPATH"] = e["PYTHONPATH"] + ":" + lib.VERIF
        procs.append((subprocess.Popen([lib.PY, "-W", "ignore", "-m", "harness.props.c13", "--worker", jf, ds, base, of],
                                       env=e, stdout=subprocess.PIPE, stderr=subprocess.STDOUT, text=True), of, mine))
    results = {}
    for p, of, mine in procs:
        try:
            out, _ = p.communicate(timeout=900)
        except subprocess.TimeoutExpired:
            p.kill()
            out = "timeout"
        if p.returncode != 0 or not os.path.exists(of):
            for j in mine:
                results[j["id"]] = {"id": j["id"], "fails": [{"what": "worker crashed: " + (out or "")[-800:]}], "checked": 0}
            continue
        for r in json.load(open(of)):
            results[r["id"]] = r
    return results


def run_job_protoc(ctx, job):
    """the full path: protoc + the plugin executable, then import + check in a fresh subprocess"""
    from .. import plugin_util as pu

    base = ctx.work
    rc, out, out_dir = pu.generate(base, job["protos"], job["root"])
    if rc != 0:
        return {"id": job["id"], "fails": [{"what": "protoc/plugin failed: " + out[-1500:]}], "checked": 0}
    jf = os.path.join(base, f"job_{job['id']}.json")
    with open(jf, "w") as f:
        json.dump(job, f)
    code = ("import json,sys\nfrom harness.props.c13 import CHECK_SNIPPET\nns={}\nexec(CHECK_SNIPPET,ns)\n"
            f"job=json.load(open({jf!r}))\nfails,n=ns['check_job'](job,None)\nprint('RESULT'+json.dumps({{'fails':fails,'checked':n}}))\n")
    rc, out = pu.run_in_subprocess(base, code, timeout=600)
    for line in out.splitlines():
        if line.startswith("RESULT"):
            r = json.loads(line[6:])
            r["id"] = job["id"]
            files = []
            for d, _, fs in os.walk(out_dir):
                files += [os.path.relpath(os.path.join(d, f), out_dir) for f in fs]
            r["files"] = sorted(files)
            return r
    return {"id": job["id"], "fails": [{"what": "check subprocess failed: " + out[-1500:]}], "checked": 0}


def generation(ctx):
    rng = ctx.rng
    t0 = time.time()
    # ---------------------------------------------------------------- all at once, through protoc + plugin executable
    P_all = paths_over("ab", 2) + [("a", "b", "c"), ("a", "a", "a"), ("a", "b", "a"), ("c",), ("c", "a", "b")] if not ctx.thorough else paths_over("abc", 3)
    edges = {P: list(P_all) for P in P_all}            # everybody references everybody (circular throughout)
    job_all = make_job(0, edges, full=False, label=None)
    r = run_job_protoc(ctx, job_all)
    report(ctx, job_all, r, "all-at-once")
    ctx.count("gen_all_at_once_packages", len(P_all))
    ctx.count("gen_all_at_once_reference_checks", r.get("checked", 0))
    ctx.notes.append(f"all-at-once generation+import: {time.time() - t0:.1f}s, {r.get('checked', 0)} reference checks")
    # files of the response against the model's prediction happen in T2 (plugin_response_names)

    # ---------------------------------------------------------------- pairwise in isolation (mutually referencing = circular)
    t1 = time.time()
    PP = paths_over("ab", 2) + [("a", "b", "c"), ("a", "b", "a"), ("b", "a", "c"), ("a", "a", "a"), ("c", "c", "c")] if not ctx.thorough else paths_over("abc", 3)
    jobs = []
    jid = 1
    seen = set()
    for P in PP:
        for Q in PP:
            key = frozenset([P, Q])
            if key in seen:
                continue
            seen.add(key)
            ed = {P: [Q]} if P == Q else {P: [Q], Q: [P]}
            jobs.append(make_job(jid, ed, full=True))
            jid += 1
    # one-directional pairs too (no cycle; only the target's types file in the other package)
    for P in PP[:7]:
        for Q in PP[:7]:
            if P != Q:
                jobs.append(make_job(jid, {P: [Q]}, full=True))
                jid += 1
    # ---- witnesses of the known findings / modelling conditions (labelled, so they classify as findings, not violations)
    wit = []
    def W(label, edges, **kw):
        nonlocal jid
        j = make_job(jid, edges, full=True, label=label, **kw)
        jid += 1
        wit.append(j)
        return j
    W("K2-upper-package-segment", {("a",): [("a", "Cap")]})
    W("K30-betterproto-package", {("x",): [("betterproto", "y")]})
    W("K31-alias-clash", {("x",): [("x", "a", "b"), ("x", "a_b")]})
    W("K31-alias-clash", {("x", "y"): [("x", "a1", "b"), ("x", "a1b")]})
    W("toplevel-deployment", {("a",): [("b",)]}, root_mode="top")
    results = run_jobs_inprocess(ctx, jobs + wit)
    nchk = 0
    for j in jobs + wit:
        r = results.get(j["id"], {"fails": [{"what": "no result"}], "checked": 0})
        nchk += r.get("checked", 0)
        report(ctx, j, r, "pairwise")
    ctx.count("gen_pairwise_jobs", len(jobs))
    ctx.count("gen_pairwise_reference_checks", nchk)
    ctx.notes.append(f"pairwise generation+import of {len(jobs)} jobs: {time.time() - t1:.1f}s, {nchk} reference checks")
    ctx.cov["evaluations"] += nchk

    # K1 / K2b need their own schemas (type names, not package shapes)
    special_witnesses(ctx)
    wellknown_generation(ctx)


def report(ctx, job, r, mode):
    for p, exps in job["expect"].items():
        for e in exps:
            P = tuple(p.split(".")) if p else ()
            Q = tuple(e["target"])
            if "field" in e:
                ctx.count(f"gen_rel:{relation(P, Q)}")
                ctx.count(f"gen_site:{e['site']}")
                if P != Q and not r["fails"]:
                    ctx.seen_nontrivial(("gen", P, Q, e["kind"], e["site"]))
            else:
                ctx.count("gen_site:rpc")
                if P != Q and not r["fails"]:
                    ctx.seen_nontrivial(("gen", P, Q, e["rpc"][0], "rpc"))
    if job.get("label") == "toplevel-deployment":
        # deployment assumption (C13_toplevel_refuted), not a finding: the README generates into a package directory
        ctx.notes.append("top-level deployment (output directory not a package): " +
                         (("reproduced: " + r["fails"][0]["what"][:160]) if r["fails"] else "did NOT fail on this tree"))
        return
    if job.get("label"):
        if r["fails"]:
            ctx.fail("oracle", f"[{job['label']}] {r['fails'][0]['what']}"[:600], cls=job["label"],
                     input={"packages": job["packages"], "protos": job["protos"]})
        else:
            ctx.notes.append(f"witness job {job['label']} ({job['packages']}) did not fail")
        return
    for f in r["fails"][:3]:
        ctx.fail("oracle", f"{mode}: {f['what']}"[:900], cls=None,
                 input={"packages": job["packages"], "edges": {k: [x["target"] for x in v if "field" in x][:4] for k, v in job["expect"].items()},
                        "protos": job["protos"] if len(job["protos"]) <= 6 else "(all-at-once universe; regenerate with the same seed)",
                        "detail": f})


WK_CHECK = r'''
import datetime, importlib, sys, typing, json
import betterproto
root, pyd = sys.argv[1], sys.argv[2] == "1"
lib = importlib.import_module("betterproto.lib.pydantic.google.protobuf" if pyd else "betterproto.lib.google.protobuf")
fails, n = [], 0
def leaves(h, acc):
    args = typing.get_args(h)
    if args:
        for a in args: leaves(a, acc)
    else:
        acc.append(h)
    return acc
for pkg in ["", "a", "a.b", "google", "google.api"]:
    try:
        mod = importlib.import_module(root + ("." + pkg if pkg else ""))
        h = typing.get_type_hints(mod.Wk, vars(mod)); h2 = mod.Wk._type_hints()
        exp = {"s": lib.Struct, "a": lib.Any, "e": lib.Empty, "fm": lib.FieldMask, "rs": lib.Struct, "ms": lib.Value, "os": lib.ListValue,
               "ts": datetime.datetime, "d": datetime.timedelta, "w": int, "bw": bool, "sw": str}
        for f, cls in exp.items():
            for hh in (h, h2):
                lv = [c for c in leaves(hh[f], []) if c not in (str, type(None))] if f not in ("sw",) else [c for c in leaves(hh[f], []) if c is not type(None)]
                n += 1
                if lv != [cls]:
                    fails.append(f"{pkg or '<root>'}.Wk.{f} resolves to {lv}, expected {cls}")
        for f in ("s", "a", "e", "fm", "rs", "os"):
            if mod.Wk._betterproto.cls_by_field[f] is not exp[f]:
                fails.append(f"{pkg or '<root>'}.Wk cls_by_field[{f}] is {mod.Wk._betterproto.cls_by_field[f]}")
        back = mod.Wk().parse(bytes(mod.Wk(s=lib.Struct(fields={"k": lib.Value(number_value=1.5)}), w=7, ts=datetime.datetime(2020, 1, 2, tzinfo=datetime.timezone.utc))))
        if type(back.s) is not lib.Struct or back.s.fields["k"].number_value != 1.5 or back.w != 7 or back.ts.year != 2020:
            fails.append(f"{pkg}.Wk round trip gives {back!r}")
        mp = mod.WkSvcBase().__mapping__()
        got = {r.rsplit("/", 1)[1]: (hd.request_type, hd.reply_type) for r, hd in mp.items()}
        want = {"E": (lib.Empty, lib.Struct), "W": (lib.Int32Value, lib.BoolValue), "T": (lib.Timestamp, lib.Duration)}
        n += 3
        if got != want:
            fails.append(f"{pkg}.WkSvcBase handler types {got}, expected {want}")
        for m, (i, o) in {"e": want["E"], "w": want["W"], "t": want["T"]}.items():
            fn = getattr(mod.WkSvcStub, m)
            ann = {k: (eval(v, dict(vars(mod))) if isinstance(v, str) else v) for k, v in fn.__annotations__.items() if k not in ("timeout", "deadline", "metadata")}
            ins = [v for k, v in ann.items() if k != "return"]
            if ins != [i] or ann.get("return") is not o:
                fails.append(f"{pkg}.WkSvcStub.{m} annotations {ann}, expected {i} -> {o}")
    except BaseException as ex:
        fails.append(f"package {pkg!r}: {type(ex).__name__}: {ex}")
print("RESULT" + json.dumps({"fails": fails, "checked": n}))
'''


def wellknown_generation(ctx):
    """google.protobuf types referenced from several packages, default and pydantic variants, through protoc + plugin"""
    from .. import plugin_util as pu

    body = ('import "google/protobuf/struct.proto"; import "google/protobuf/any.proto"; import "google/protobuf/empty.proto";\n'
            'import "google/protobuf/field_mask.proto"; import "google/protobuf/timestamp.proto"; import "google/protobuf/duration.proto";\n'
            'import "google/protobuf/wrappers.proto";\n'
            "message Wk {\n google.protobuf.Struct s = 1; google.protobuf.Any a = 2; google.protobuf.Empty e = 3; google.protobuf.FieldMask fm = 4;\n"
            " repeated google.protobuf.Struct rs = 5; map<string, google.protobuf.Value> ms = 6; oneof o { google.protobuf.ListValue os = 7; int32 alt = 8; }\n"
            " google.protobuf.Timestamp ts = 9; google.protobuf.Duration d = 10; google.protobuf.Int32Value w = 11; google.protobuf.BoolValue bw = 12;\n"
            " google.protobuf.StringValue sw = 13;\n}\n"
            "service WkSvc {\n rpc E(google.protobuf.Empty) returns (google.protobuf.Struct);\n rpc W(google.protobuf.Int32Value) returns (google.protobuf.BoolValue);\n"
            " rpc T(google.protobuf.Timestamp) returns (google.protobuf.Duration);\n}\n")
    protos = {}
    for P in [(), ("a",), ("a", "b"), ("google",), ("google", "api")]:
        protos[f"wk/{'-'.join(P) or 'root'}.proto"] = 'syntax = "proto3";\n' + pkg_stmt(P) + body
    for pyd in (False, True):
        root = f"c13wk{os.getpid()}_{int(pyd)}"
        try:
            rc, out, _ = pu.generate(ctx.work, protos, root, options=(("pydantic_dataclasses",) if pyd else ()))
            if rc != 0:
                ctx.fail("oracle", f"well-known generation (pydantic={pyd}) failed: {out[-400:]}", cls=None, input={"protos": protos, "pydantic": pyd})
                continue
            e = pu._env(ctx.work)
            e["PYTHONPATH"] = e["PYTHONPATH"] + ":" + ctx.work
            r = subprocess.run([lib.PY, "-W", "ignore", "-c", WK_CHECK, root, "1" if pyd else "0"], env=e, capture_output=True, text=True, timeout=300)
            res = [l for l in (r.stdout + r.stderr).splitlines() if l.startswith("RESULT")]
            if not res:
                ctx.fail("oracle", f"well-known check (pydantic={pyd}) did not complete: {(r.stdout + r.stderr)[-600:]}", cls=None,
                         input={"protos": protos, "pydantic": pyd})
                continue
            rr = json.loads(res[0][6:])
            ctx.count(f"gen_wellknown_checks_pydantic={pyd}", rr["checked"])
            ctx.cov["evaluations"] += rr["checked"]
            for f in rr["fails"][:3]:
                ctx.fail("oracle", f"well-known (pydantic={pyd}): {f}"[:700], cls=None, input={"protos": protos, "pydantic": pyd})
            if not rr["fails"]:
                ctx.seen_nontrivial(("wk", pyd))
        except Exception:  # noqa
            ctx.fail("oracle", "well-known generation raised: " + traceback.format_exc()[-800:], cls=None, input={"pydantic": pyd})


def special_witnesses(ctx):
    """K1 (Foo.Bar vs FooBar) and K2 (lower-case message with nested type) through the real plugin."""
    from .. import plugin_util as pu

    base = ctx.work
    cases = {
        "K1-class-name-collision": {
            "k1/t.proto": 'syntax = "proto3"; package k1;\nmessage Foo { message Bar { int32 nested_marker = 1; } }\nmessage FooBar { int32 flat_marker = 1; }\n'
                          'message Ref { Foo.Bar n = 1; FooBar f = 2; }\n'},
        "K2-lowercase-message": {
            "k2/t.proto": 'syntax = "proto3"; package k2;\nmessage foo { message Bar { int32 nested_marker = 1; } }\nmessage Ref { foo.Bar n = 1; }\n'},
    }
    for label, protos in cases.items():
        root = f"c13w{os.getpid()}_{label.split('-')[0].lower()}"
        rc, out, _ = pu.generate(base, protos, root)
        if rc != 0:
            ctx.fail("oracle", f"[{label}] plugin failed: {out[-300:]}", cls=label, input=protos)
            continue
        pkg = list(protos)[0].split("/")[0]
        code = (f"import typing, dataclasses\nimport {root}.{pkg} as m\n"
                "try:\n h = typing.get_type_hints(m.Ref, vars(m))\n fs = [f.name for f in dataclasses.fields(h['n'])]\n"
                " print('RESULT', 'ok' if fs == ['nested_marker'] else 'wrong class: n resolves to %s with fields %s' % (h['n'], fs))\n"
                "except BaseException as e:\n print('RESULT', 'raised %s: %s' % (type(e).__name__, e))\n")
        rc, out = pu.run_in_subprocess(base, code)
        res = [l for l in out.splitlines() if l.startswith("RESULT")]
        verdict = res[0][7:] if res else "no result: " + out[-300:]
        if verdict != "ok":
            ctx.fail("oracle", f"[{label}] {verdict}"[:500], cls=label, input=protos)
        else:
            ctx.notes.append(f"witness {label} did not fail")


# ======================================================================================================
def run(ctx):
    t_run = time.time()
    try:
        hypotheses(ctx)
    except Exception:  # noqa
        ctx.fail("oracle", "sampling the casing hypotheses raised: " + traceback.format_exc()[-1200:], cls=None, input=None)
    bad = []
    try:
        bad, descr = t2(ctx)
    except RuntimeError as e:
        ctx.fail("corr", "model evaluation failed: " + str(e)[-1500:], no_input=True,
                 theorem_or_correspondence="T2 correspondence Model/Importing.v")
    except Exception:  # noqa
        ctx.fail("corr", "T2 stage raised: " + traceback.format_exc()[-1500:], no_input=True,
                 theorem_or_correspondence="T2 correspondence Model/Importing.v")
    t_t2 = time.time()
    try:
        generation(ctx)
    except Exception:  # noqa
        ctx.fail("oracle", "real generation stage raised: " + traceback.format_exc()[-1500:], cls=None, input=None)
    ctx.notes.append(f"stage times: build+audit {t_run - ctx.t0:.0f}s, hypotheses+T2 {t_t2 - t_run:.0f}s, generation {time.time() - t_t2:.0f}s")


def finish(ctx):
    return lib.finish(
        ctx, "proof",
        "Coq theorems over a Gallina mirror of compile/importing.py against an independent specification of Python import "
        "binding (Spec/PyImport.v) + executable correspondence (vm_compute) + real plugin generation and import",
        ASSUMPTIONS, TRUSTED, RULE,
        extra_cov={"exhaustive": False,
                   "explanation": "theorems are for package paths of any depth; T2 is exhaustive for depth<=3 over {a,b,c}; "
                                  "generation covers every relative position for the path set of the tier"})


def replay(ctx, obj):
    """re-run a recorded generation failure: the replay holds the .proto files"""
    inp = obj.get("input") or {}
    protos = inp.get("protos") if isinstance(inp, dict) else None
    print(json.dumps({k: obj.get(k) for k in ("kind", "what", "cls")}, indent=1))
    if isinstance(protos, dict):
        from .. import plugin_util as pu
        rc, out, out_dir = pu.generate(ctx.work, protos, "c13replay")
        print("plugin rc", rc, out[-500:])
        mods = sorted({os.path.relpath(d, out_dir).replace(os.sep, ".") for d, _, fs in os.walk(out_dir) if "__init__.py" in fs})
        code = "import importlib\n" + "".join(
            f"try:\n m=importlib.import_module({('c13replay.' + m if m != '.' else 'c13replay')!r})\n"
            " import typing\n"
            " [print(m.__name__, n, typing.get_type_hints(c, vars(m))) for n,c in vars(m).items() if isinstance(c,type) and hasattr(c,'__dataclass_fields__') and c.__module__==m.__name__]\n"
            "except BaseException as e:\n print('FAILED', type(e).__name__, e)\n" for m in mods)
        rc, out = pu.run_in_subprocess(ctx.work, code)
        print(out)
        return 1 if "FAILED" in out else 0
    print(json.dumps(inp, indent=1, default=repr)[:3000])
    return 0


if __name__ == "__main__":
    if len(sys.argv) > 1 and sys.argv[1] == "--worker":
        worker_main(sys.argv[2:])
