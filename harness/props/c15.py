"""C15 — Timestamp/Duration <-> datetime/timedelta conversions.

T2: coq/Model/Time.v (mirror of the code after fixes/c15-*.patch, landed as fix commits) against the live tree, on single-field
    messages built with the public field API (bytes, len, parse, to_dict, from_dict) and on the conversion
    functions themselves; the binary64 model used for the `_pinned` functions against CPython floats.
T3: coq/Spec/Time.v against google.protobuf (Timestamp/Duration FromDatetime, FromTimedelta, ToJsonString,
    FromJsonString, ToDatetime, ToTimedelta) and dateutil.isoparse (fraction part).
Oracle: the property itself on the implementation (reference pair, normal forms, reference decodes our bytes,
    round trips, time-zone independence, JSON forms)."""
import dataclasses
import json
from datetime import datetime, timedelta, timezone

from .. import lib
from ..lib import cz, cb, cl, ce, CN, coq_bytes, coq_z

IMPORTS = "Model.Varint Model.Scalar Model.Time Spec.Time"

TRUSTED = [
    "Coq 8.16.1 kernel and vm_compute (no native_compute); full .vo build via coq_makefile",
    "axioms: none (every theorem of Properties/C15.v is 'Closed under the global context'); binary64 arithmetic of the pinned "
    "code is modelled exactly over Z (Model/Time.v rn), cross-checked against Coq's primitive floats in Proofs/TimeP.v "
    "(those cross-checks use PrimFloat primitives and are not among the property theorems)",
    "hand-written model coq/Model/Time.v tied to the tree by executable correspondence (this harness, vm_compute inside Coq)",
    "hand-written specification coq/Spec/Time.v tied to google.protobuf 7.x (upb) well_known_types by T3",
    "oracles, not modelled: the calendar part of datetime.isoformat()/dateutil.isoparse (the JSON functions of the model take "
    "the 'YYYY-MM-DDTHH:MM:SS' text as an argument), decimal.Decimal parsing outside the grammar [+-]digits[.digits]",
    "CPython 3.12 datetime/timedelta: aware subtraction and == by instant, timedelta normal form (days/seconds/microseconds by "
    "floor division), timedelta(float) rounding, repr(float), int/float conversions (sampled here)",
    "the two-field encoder/decoder of Model/Time.v reuses Model/Varint.v (C16) and mirrors Message.dump/load only for a message "
    "with one datetime/timedelta field; groups are outside the model",
    "Python side: harness generators, canonicalisation, dynamic construction of betterproto and google.protobuf classes",
]
ASSUMPTIONS = [
    "an aware datetime is (wall us, utcoffset us); Python compares/subtracts aware datetimes by instant wall - off",
    "a timedelta is its total microseconds; .days/.seconds/.microseconds are floor quotients (CPython normal form; sampled)",
    "isoparse(cal + suffix) = instant(cal) + ts_suffix_parse(suffix) and isoformat() of a whole-second UTC wall clock is cal "
    "(calendar oracle; the round trip through the real to_dict/from_dict is checked on every sampled datetime)",
    "Python int is Z, str is its UTF-8 bytes, f'{x:0kd}' prints at least k digits",
]
RULE = ("datetimes: +-{0,1,2,999,1000,1001,500000,999999,10^6,10^6+1} us around {epoch, +-1 s, +-1 day, 2^31 s, 2^32 s, 2^34 s, "
        "+-2^53 us, 0001-01-01, 9999-12-31T23:59:59.999999} crossed with 24 whole-hour offsets (key instants) or 2-3 drawn offsets "
        "(:30/:45, sub-second), then uniform and log-uniform random instants over the whole range with whole-s / whole-ms / us "
        "fractions; timedeltas likewise around {0, +-1 s, +-2^53 us, +-2^34 s, +-315576000000 s} and random over the range (and up "
        "to timedelta.max for T2); wire inputs: implementation bytes, reference bytes, crafted (seconds,nanos) with sub-us and "
        "negative nanos, field order swaps, duplicates, unknown fields, padded varints, truncations, invalid tags; "
        "non-trivial = anything other than the epoch / the zero span; distinct = distinct (value, offset, field number)")

US = timedelta(microseconds=1)
EPOCH = datetime(1970, 1, 1, tzinfo=timezone.utc)
NAIVE0 = datetime(1970, 1, 1)
TS_MIN = -62135596800 * 10**6
TS_MAX = 253402300799 * 10**6 + 999999
DUR_MAX = 315576000000 * 10**6
TD_MAX = timedelta.max // US
TD_MIN = timedelta.min // US
FNOS = [1, 2, 15, 16, 2047, 2048, (1 << 29) - 1]
DELTAS = [0, 1, 2, 999, 1000, 1001, 1500, 123456, 500000, 999000, 999999, 10**6, 10**6 + 1]


def mk_dt(wall, off):
    return (NAIVE0 + timedelta(microseconds=wall)).replace(tzinfo=timezone(timedelta(microseconds=off)))


def inst(dt):
    return (dt - EPOCH) // US


def coq_dt(wall, off):
    return f"(mkdt {coq_z(wall)} {coq_z(off)})"


def res(f, conv):
    try:
        return conv(f())
    except Exception as e:  # noqa
        return ce(lib.exc_kind(e))


def dt_cv(d):
    i = inst(d)
    o = d.utcoffset() // US
    return cl([cz(i + o), cz(o)])


def pair_cv(m):
    return cl([cz(m.seconds), cz(m.nanos)])


def opt_str(x):
    return CN if x is None else cb(x.encode())


# ---------------------------------------------------------------------------------------- small independent wire encoder
def vint(n, pad=0):
    n &= (1 << 64) - 1
    out = bytearray()
    while True:
        b = n & 0x7F
        n >>= 7
        if n:
            out.append(b | 0x80)
        else:
            out.append(b)
            break
    if pad:
        out[-1] |= 0x80
        out += bytes([0x80] * (pad - 1)) + b"\x00"
    return bytes(out)


def key(fno, wt):
    return vint((fno << 3) | wt)


def craft_inner(rng, s, n):
    """an inner Timestamp/Duration message for (s, n) in one of several legal or illegal shapes -> (bytes, tag)"""
    f1 = (key(1, 0) + vint(s)) if s else b""
    f2 = (key(2, 0) + vint(n)) if n else b""
    k = rng.randrange(12)
    if k == 0:
        return f1 + f2, "canonical"
    if k == 1:
        return f2 + f1, "swapped"
    if k == 2:
        return key(1, 0) + vint(rng.getrandbits(40)) + f2 + key(1, 0) + vint(s), "duplicate-last-wins"
    if k == 3:
        unk = rng.choice([key(3, 0) + vint(rng.getrandbits(30)), key(4, 2) + vint(3) + b"abc", key(5, 5) + b"\x01\x02\x03\x04",
                          key(6, 1) + bytes(8), key(100, 0) + vint(1)])
        return f1 + unk + f2, "unknown-field"
    if k == 4:
        return key(1, 0) + vint(s, pad=rng.choice([1, 2])) + key(2, 0) + vint(n, pad=1), "padded-varints"
    if k == 5:
        return key(1, 0) + vint(s) + key(2, 0) + vint(n), "explicit-zeros"
    if k == 6 and n < 0:
        return f1 + key(2, 0) + vint(n & 0xFFFFFFFF), "int32-negative-5-bytes"
    if k == 7:
        return key(1, 2) + vint(2) + b"hi" + f1 + f2, "known-field-wrong-wire-type"
    if k == 8:
        full = f1 + f2
        return full[: rng.randrange(len(full))] if full else b"\x08", "truncated"
    if k == 9:
        return f1 + rng.choice([vint(0 << 3 | 0) + b"\x01", key(7, 6), key(7, 7), key(7, 4)]) + f2, "invalid-tag"
    if k == 10:
        return f1 + f2 + key(9, 2) + vint(5) + b"ab", "short-len-delim"
    return f1 + f2, "canonical"


def wrap(rng, fno, inner, tag):
    body = key(fno, 2) + vint(len(inner)) + inner
    k = rng.randrange(10)
    if k == 0:
        return key(fno, 2) + vint(2) + key(1, 0) + b"\x07" + body, tag + "+outer-duplicate"
    if k == 1:
        return key(fno + 1, 0) + vint(9) + body + key(fno + 2, 2) + vint(1) + b"x", tag + "+outer-unknown"
    if k == 2:
        return key(fno, 0) + vint(5) + body, tag + "+outer-wrong-wire-type"
    if k == 3 and len(body) > 1:
        return body[:-1], tag + "+outer-truncated"
    return body, tag


# ---------------------------------------------------------------------------------------- pinned formulas (snapshot)
def pinned_from_timedelta(us):
    total_ms = us
    return int(total_ms / 1e6), int((total_ms % 1e6) * 1e3)


def pinned_to_timedelta(s, n):
    return timedelta(seconds=s, microseconds=n / 1e3) // US


def pinned_delta_to_json(us):
    parts = str(timedelta(microseconds=us).total_seconds()).split(".")
    if len(parts) > 1:
        while len(parts[1]) not in (3, 6, 9):
            parts[1] = f"{parts[1]}0"
    return f"{'.'.join(parts)}s"


def pinned_parse_duration(value):
    return timedelta(seconds=float(value[:-1])) // US


# ---------------------------------------------------------------------------------------- inputs
def gen_instants(ctx):
    rng = ctx.rng
    out = []  # (instant, tag)
    bases = [0, 10**6, -10**6, 86400 * 10**6, -86400 * 10**6, 1577836800 * 10**6, (1 << 31) * 10**6, -(1 << 31) * 10**6,
             (1 << 32) * 10**6, (1 << 34) * 10**6, 1 << 53, -(1 << 53), TS_MIN, TS_MAX]
    for b in bases:
        for d in DELTAS:
            for t in (b + d, b - d):
                if TS_MIN <= t <= TS_MAX:
                    out.append((t, "boundary"))
    n = 220 if not ctx.thorough else 3000
    for i in range(n):
        k = rng.randrange(4)
        if k == 0:
            t = rng.randint(TS_MIN, TS_MAX)
        elif k == 1:
            t = rng.choice([-1, 1]) * rng.getrandbits(rng.randint(1, 58))
        elif k == 2:
            t = rng.randint(TS_MIN // 10**6 + 1, TS_MAX // 10**6) * 10**6 + rng.choice([0, 0, 1000 * rng.randrange(1000), rng.randrange(10**6)])
        else:
            t = rng.randint(-(1 << 40), 1 << 40)
        t = max(TS_MIN, min(TS_MAX, t))
        out.append((t, "random"))
    return out


HOUR = 3600 * 10**6
WHOLE_OFFSETS = [h * HOUR for h in range(-12, 12)]  # the 24 whole-hour offsets
SPECIAL_OFFSETS = [5 * HOUR + HOUR // 2, 5 * HOUR + 3 * HOUR // 4, -3 * HOUR - HOUR // 2, 12 * HOUR + 3 * HOUR // 4, 14 * HOUR,
                   -60 * 10**6, 24 * HOUR - 60 * 10**6, -24 * HOUR + 60 * 10**6]
SUBSECOND_OFFSETS = [500000, (19 * 60 + 32) * 10**6 + 130000, -1, 1, 24 * HOUR - 1, -24 * HOUR + 1, -999999]


def gen_durations(ctx):
    rng = ctx.rng
    out = []
    bases = [0, 10**6, -10**6, 60 * 10**6, 86400 * 10**6, -86400 * 10**6, 1 << 53, -(1 << 53), (1 << 34) * 10**6, -(1 << 34) * 10**6,
             (1 << 32) * 10**6, DUR_MAX, -DUR_MAX, 10**15, -10**15]
    for b in bases:
        for d in DELTAS:
            for t in (b + d, b - d):
                if -DUR_MAX <= t <= DUR_MAX:
                    out.append((t, "boundary"))
    for t in (-1500000, -1, -999999, -1000001, -500000, 1 << 53 | 1, -(1 << 53 | 1), DUR_MAX - 1, -DUR_MAX + 1, 15, 99, 100, 101):
        out.append((t, "boundary"))
    n = 300 if not ctx.thorough else 3000
    for i in range(n):
        k = rng.randrange(4)
        if k == 0:
            t = rng.randint(-DUR_MAX, DUR_MAX)
        elif k == 1:
            t = rng.choice([-1, 1]) * rng.getrandbits(rng.randint(1, 58))
        elif k == 2:
            t = rng.randint(-DUR_MAX // 10**6, DUR_MAX // 10**6 - 1) * 10**6 + rng.choice([0, 1000 * rng.randrange(1000), rng.randrange(10**6)])
        else:
            t = rng.randint(-(1 << 36), 1 << 36)
        t = max(-DUR_MAX, min(DUR_MAX, t))
        out.append((t, "random"))
    return out


class Classes:
    def __init__(self):
        import betterproto as bp
        self.bp = bp
        self.cache = {}
        self.ref = None

    def get(self, fno, typ):
        k = (fno, typ)
        if k not in self.cache:
            self.cache[k] = dataclasses.make_dataclass(
                "M", [("f", typ, self.bp.message_field(fno))], bases=(self.bp.Message,), eq=False, repr=False)
        return self.cache[k]

    def get_pos(self, fno, typ, pos):
        """the same single field in a presence-tracking position: proto3 `optional`, or a member of a oneof"""
        import typing
        k = (fno, typ, pos)
        if k not in self.cache:
            fld = self.bp.message_field(fno, optional=True) if pos == "optional" else self.bp.message_field(fno, group="g")
            self.cache[k] = dataclasses.make_dataclass(
                "M", [("f", typing.Optional[typ] if pos == "optional" else typ, fld), ("z", int, self.bp.int32_field(fno + 1, group="g") if pos == "oneof"
                                                                                 else self.bp.int32_field(fno + 1))],
                bases=(self.bp.Message,), eq=False, repr=False)
        return self.cache[k]

    def reference(self, seed):
        if self.ref is None:
            from google.protobuf import descriptor_pb2, descriptor_pool, message_factory, timestamp_pb2, duration_pb2
            pool = descriptor_pool.DescriptorPool()
            pool.AddSerializedFile(timestamp_pb2.DESCRIPTOR.serialized_pb)
            pool.AddSerializedFile(duration_pb2.DESCRIPTOR.serialized_pb)
            fdp = descriptor_pb2.FileDescriptorProto(
                name=f"c15_{seed}.proto", package="c15", syntax="proto3",
                dependency=["google/protobuf/timestamp.proto", "google/protobuf/duration.proto"])
            F = descriptor_pb2.FieldDescriptorProto
            for fno in FNOS:
                for nm, tn in (("T", ".google.protobuf.Timestamp"), ("D", ".google.protobuf.Duration")):
                    m = fdp.message_type.add(name=f"{nm}{fno}")
                    m.field.add(name="f", number=fno, type=F.TYPE_MESSAGE, type_name=tn, label=F.LABEL_OPTIONAL)
            pool.Add(fdp)
            self.ref = {(nm, fno): message_factory.GetMessageClass(pool.FindMessageTypeByName(f"c15.{nm}{fno}"))
                        for fno in FNOS for nm in ("T", "D")}
        return self.ref


def cal_of(dt):
    return dt.astimezone(timezone.utc).replace(microsecond=0, tzinfo=None).isoformat()


# ---------------------------------------------------------------------------------------- the oracle
def oracle_datetime(C, ref, wall, off, fno):
    """the property itself on the implementation for one aware datetime; returns list of (cls, what)"""
    from google.protobuf import timestamp_pb2
    bp = C.bp
    bad = []
    dt = mk_dt(wall, off)
    t = wall - off
    M = C.get(fno, datetime)
    m = bp._Timestamp.from_datetime(dt)
    exp = (t // 10**6, (t % 10**6) * 1000)
    if (m.seconds, m.nanos) != exp:
        bad.append(("ts_pair", f"from_datetime gives {(m.seconds, m.nanos)}, the instant is {exp}"))
    if not (0 <= m.nanos < 10**9):
        bad.append(("ts_pair", f"Timestamp nanos {m.nanos} outside [0, 1e9)"))
    if off % 10**6 == 0 and TS_MIN <= t <= TS_MAX:
        r = timestamp_pb2.Timestamp()
        r.FromDatetime(dt)
        if (r.seconds, r.nanos) != (m.seconds, m.nanos):
            bad.append(("ts_pair", f"from_datetime gives {(m.seconds, m.nanos)}, the reference {(r.seconds, r.nanos)}"))
    b = bytes(M(f=dt))
    if len(M(f=dt)) != len(b):
        bad.append(("ts_len", f"len(m) = {len(M(f=dt))} but bytes(m) has {len(b)} bytes"))
    if TS_MIN <= t <= TS_MAX:
        rm = ref[("T", fno)].FromString(b)
        if (rm.f.seconds, rm.f.nanos) != exp:
            bad.append(("ts_wire", f"the reference decodes our bytes {b.hex()} as {(rm.f.seconds, rm.f.nanos)}, expected {exp}"))
        back = M().parse(b).f
        if back != dt or inst(back) != t:
            bad.append(("ts_roundtrip", f"parse(bytes(m)).f = {back!r} is not the instant of {dt!r}"))
        if bytes(M(f=back)) != b:
            bad.append(("ts_roundtrip", "re-encoding the decoded datetime changes the bytes"))
        # the same value in a presence-tracking position (proto3 optional / member of a oneof) decodes back to the identical value too -
        # the epoch included, which encodes to an empty payload (seeded C15-11)
        for pos in ("optional", "oneof"):
            P = C.get_pos(fno, datetime, pos)
            try:
                pb = P().parse(bytes(P(f=dt)))
                got = object.__getattribute__(pb, "f") if pos == "optional" else (bp.which_one_of(pb, "g")[1] if bp.which_one_of(pb, "g")[0] == "f" else None)
            except Exception as e:  # noqa
                got = f"{type(e).__name__}: {e}"
            if not isinstance(got, datetime) or inst(got) != t:
                bad.append(("ts_roundtrip", f"{pos} Timestamp field: parse(bytes(m)).f = {got!r} is not the instant of {dt!r}"))
        other = mk_dt(t, 0)
        if bytes(M(f=other)) != b:
            bad.append(("ts_tz", f"the same instant at offset 0 encodes differently: {bytes(M(f=other)).hex()} vs {b.hex()}"))
        d = M(f=dt).to_dict()
        if t == 0:
            if d != {}:
                bad.append(("ts_json", f"to_dict of the epoch is {d}"))
        else:
            r = timestamp_pb2.Timestamp(seconds=exp[0], nanos=exp[1])
            want = r.ToJsonString()
            if d.get("f") != want:
                bad.append(("ts_json_subsecond_offset" if off % 10**6 else "ts_json",
                            f"to_dict gives {d.get('f')!r}, RFC 3339 form is {want!r}"))
            else:
                r2 = timestamp_pb2.Timestamp()
                r2.FromJsonString(d["f"])
                if (r2.seconds, r2.nanos) != exp:
                    bad.append(("ts_json", f"the reference reads {d['f']!r} as {(r2.seconds, r2.nanos)}"))
            fd = M().from_dict({"f": want}).f
            if fd != dt:
                bad.append(("ts_json", f"from_dict({want!r}) = {fd!r} is not the instant of {dt!r}"))
    return bad


def oracle_duration(C, ref, us, fno):
    from google.protobuf import duration_pb2
    bp = C.bp
    bad = []
    td = timedelta(microseconds=us)
    M = C.get(fno, timedelta)
    neg = us < 0
    frac = us % 10**6 != 0
    big = abs(us) > (1 << 53)
    fcls = ("neg" if neg else "pos") + ("_frac" if frac else "_whole") + ("_big" if big else "")
    q, r_ = divmod(abs(us), 10**6)
    exp = (-q, -r_ * 1000) if neg else (q, r_ * 1000)
    m = bp._Duration.from_timedelta(td)
    if (m.seconds, m.nanos) != exp:
        bad.append(("dur_pair:" + fcls, f"from_timedelta({us} us) gives {(m.seconds, m.nanos)}, the span is {exp}"))
    if (m.seconds > 0 and m.nanos < 0) or (m.seconds < 0 and m.nanos > 0) or abs(m.nanos) >= 10**9:
        bad.append(("dur_pair:" + fcls, f"Duration {(m.seconds, m.nanos)}: seconds and nanos of opposite sign / nanos out of range"))
    if abs(us) <= DUR_MAX:
        r = duration_pb2.Duration()
        r.FromTimedelta(td)
        if (r.seconds, r.nanos) != (m.seconds, m.nanos):
            bad.append(("dur_pair:" + fcls, f"from_timedelta({us} us) gives {(m.seconds, m.nanos)}, the reference {(r.seconds, r.nanos)}"))
    b = bytes(M(f=td))
    if len(M(f=td)) != len(b):
        bad.append(("dur_len", f"len(m) = {len(M(f=td))} but bytes(m) has {len(b)} bytes"))
    rm = ref[("D", fno)].FromString(b)
    if (rm.f.seconds, rm.f.nanos) != exp:
        bad.append(("dur_wire:" + fcls, f"the reference decodes our bytes {b.hex()} as {(rm.f.seconds, rm.f.nanos)}, expected {exp}"))
    back = M().parse(b).f
    if back != td:
        bad.append(("dur_roundtrip:" + fcls, f"parse(bytes(m)).f = {back!r}, stored {td!r}"))
    for pos in ("optional", "oneof"):      # presence-tracking positions, the zero span included (seeded C15-11)
        P = C.get_pos(fno, timedelta, pos)
        try:
            pb = P().parse(bytes(P(f=td)))
            got = object.__getattribute__(pb, "f") if pos == "optional" else (bp.which_one_of(pb, "g")[1] if bp.which_one_of(pb, "g")[0] == "f" else None)
        except Exception as e:  # noqa
            got = f"{type(e).__name__}: {e}"
        if got != td:
            bad.append(("dur_roundtrip:" + fcls, f"{pos} Duration field: parse(bytes(m)).f = {got!r}, stored {td!r}"))
    if abs(us) <= DUR_MAX:
        x = ref[("D", fno)]()
        x.f.seconds, x.f.nanos = exp
        rb = x.SerializeToString() if us else b""
        got = M().parse(rb).f
        if got != td:
            bad.append(("dur_roundtrip:" + fcls, f"the reference's bytes {rb.hex()} decode as {got!r}, expected {td!r}"))
        d = M(f=td).to_dict()
        if us == 0:
            if d != {}:
                bad.append(("dur_json", f"to_dict of the zero span is {d}"))
        else:
            r = duration_pb2.Duration(seconds=exp[0], nanos=exp[1])
            want = r.ToJsonString()
            ours = d.get("f")
            if ours != want:
                bad.append(("dur_json_whole_seconds" if not frac and ours == want[:-1] + ".000s" else "dur_json:" + fcls,
                            f"to_dict({us} us) gives {ours!r}, the reference writes {want!r}"))
            try:
                r2 = duration_pb2.Duration()
                r2.FromJsonString(ours)
                if (r2.seconds, r2.nanos) != exp:
                    bad.append(("dur_json:" + fcls, f"the reference reads {ours!r} as {(r2.seconds, r2.nanos)}, expected {exp}"))
            except Exception as e:  # noqa
                bad.append(("dur_json:" + fcls, f"the reference rejects {ours!r}: {e!r}"))
            for s in (ours, want):
                try:
                    fd = M().from_dict({"f": s}).f
                except Exception as e:  # noqa
                    fd = repr(e)
                if fd != td:
                    bad.append(("dur_json_parse:" + fcls, f"from_dict({s!r}) = {fd!r}, expected {td!r}"))
    return bad



# --------------------------------------------------------------------------------------------------------------------
# Source-translation tie (second, tighter tie for the conversion functions themselves; NON-ALARMING on its own).
#   harness/gen_c15_src.py (an extension of harness/gen_c16_src.py) translates the CURRENT source text of datetime_default_gen /
#   DATETIME_ZERO / _Timestamp.from_datetime / to_datetime / timestamp_to_json / _Duration.from_timedelta / to_timedelta /
#   delta_to_json into coq/gen/C15Src.v (three parts: "convert", "dur_json", "ts_json"); Proofs/C15Src.v / C15SrcDurJson.v /
#   C15SrcTsJson.v prove the translation equal to the hand-written model (Model/Time.v) and restate the headline theorems of
#   Properties/C15.v over the translated source; Properties/C15Src.v / C15SrcDurJson.v / C15SrcTsJson.v state it.  These files are
#   NOT among the targets of the main build: a behaviour-preserving rewrite of the Python functions may make the translator
#   reject or the proof scripts fail while C15 still holds.  So this stage only RECORDS whether the tie held (evidence:
#   input_distribution "source_tie:*", coverage.source_translation_tie, an assumptions line, the theorems + Print Assumptions
#   verdicts when it held) and NEVER calls ctx.fail: when it does not hold, the sampled correspondence and the oracles below
#   decide, as before.
# --------------------------------------------------------------------------------------------------------------------
SRC_TIE_PARTS = [
    ("convert", "C15Src.v", "datetime_default_gen / DATETIME_ZERO, _Timestamp.from_datetime / to_datetime, _Duration.from_timedelta / to_timedelta"),
    ("dur_json", "C15SrcDurJson.v", "_Duration.delta_to_json"),
    ("ts_json", "C15SrcTsJson.v", "_Timestamp.timestamp_to_json"),
]


class _AuditSink:
    """lib.audit stores its result in `.proof` of whatever it is given; keeps the main ctx.proof untouched"""
    proof = None


def source_tie_stage(ctx):
    import os
    import re

    report = {"translator": None, "parts": {}}
    ctx.cov["source_translation_tie"] = report
    lines = []
    gen = os.path.join(lib.VERIF, "harness", "gen_c15_src.py")
    try:
        # (a) the translator's verdict on the current source (dry run: writes nothing; setup.sh below regenerates gen/C15Src.v
        #     under the build lock)
        rc, out = lib.run([lib.PY, gen, "--dry-run"], timeout=300, cwd=lib.VERIF)
        # the translator's own regression snippets (constructs outside the subset must be rejected): a translator that
        # fails them is not trusted to tie anything
        src, sout = lib.run([lib.PY, gen, "--selftest"], timeout=300, cwd=lib.VERIF)
        sl = [l for l in sout.strip().splitlines() if "WARNING conda" not in l]
        report["translator_selftest"] = sl[-1][:200] if sl else "no output"
        ctx.count("source_tie:translator_selftest_ok", 1 if src == 0 else 0)
        verdicts = {}
        for l in ([] if src != 0 else out.splitlines()):
            m = re.match(r"C15SRC-TRANSLATION-(OK|REJECTED): (\w+)(?:: (.*))?$", l)
            if m:
                verdicts[m.group(2)] = (m.group(1) == "OK", m.group(3) or "")
        report["translator"] = {k: {"accepted": ok, "message": why or "accepted"} for k, (ok, why) in verdicts.items()}
        for key, prop_file, what in SRC_TIE_PARTS:
            part = {"what": what, "held": False, "reason": None, "theorems": []}
            report["parts"][key] = part
            ok, why = verdicts.get(key, (False, "translator self-test failed" if src != 0 else "no verdict from the translator: " + out.strip()[-300:]))
            ctx.count(f"source_tie:{key}_translated", 1 if ok else 0)
            if not ok:
                part["reason"] = "translator rejected the current source (construct outside its subset): " + why
            else:
                brc, bout = lib.run([os.path.join(lib.VERIF, "setup.sh"), "Properties/" + prop_file + "o"], timeout=1500, cwd=lib.VERIF)
                if brc != 0:
                    err = re.findall(r'File "[^"]*", line \d+[^\n]*\n(?:[^\n]*\n){0,6}', bout)
                    part["reason"] = ("gen/C15Src.v or the proofs do not compile against the current source "
                                      "(the proof scripts are tied to the shape of the code): " + (err[0] if err else bout[-600:]).strip()[:900])
                else:
                    sink = _AuditSink()
                    pr = lib.audit(sink, prop_file)
                    part["theorems"] = pr["theorems"]
                    if pr["problems"] or pr["discharged"] != pr["obligations"] or not pr["obligations"]:
                        part["reason"] = "audit of Properties/%s: %s" % (prop_file, "; ".join(pr["problems"])[:600] or "no theorem")
                    else:
                        part["held"] = True
                        part["print_assumptions"] = "all %d theorems closed under the global context" % pr["obligations"]
                        # the audit of the main file must have succeeded for the merged counts to mean anything
                        if ctx.proof and not ctx.proof.get("problems") and ctx.build_ok:
                            ctx.proof["obligations"] += pr["obligations"]
                            ctx.proof["discharged"] += pr["discharged"]
                            ctx.proof["theorems"] = list(ctx.proof["theorems"]) + pr["theorems"]
                            ctx.proof["verdicts"] = list(ctx.proof["verdicts"]) + pr["verdicts"]
            ctx.count(f"source_tie:{key}_held", 1 if part["held"] else 0)
            lines.append(f"{key} ({what}): " + ("HELD, %d theorems of Properties/%s closed" % (len(part["theorems"]), prop_file) if part["held"]
                                                 else "DID NOT HOLD on this tree - " + str(part["reason"])[:400]))
    except Exception as e:  # noqa  - this stage must never decide the check
        report["stage_error"] = repr(e)[:500]
        lines.append("stage could not complete: " + repr(e)[:300])
        for key, _, _ in SRC_TIE_PARTS:
            if key not in report["parts"] or not report["parts"][key].get("held"):
                ctx.dist.setdefault(f"source_tie:{key}_held", 0)
    held_all = all(report["parts"].get(k, {}).get("held") for k, _, _ in SRC_TIE_PARTS)
    ctx.src_tie_line = ("source-translation tie (harness/gen_c15_src.py -> coq/gen/C15Src.v, proved equal to the model in Properties/C15Src.v, "
                        "C15SrcDurJson.v, C15SrcTsJson.v; a datetime parameter is an AWARE datetime (wall, offset), a timedelta its microseconds, "
                        "`self` the pair (seconds, nanos) of ints, the float arithmetic of timestamp_to_json integer-valued and exact below 2^53, "
                        "isoformat() of the whole-second UTC wall clock = Model/Json.v cal_text): "
                        + "; ".join(lines)
                        + (". Where it did not hold the check FELL BACK to the sampled correspondence and the oracles (no verdict is drawn "
                           "from a failed translation or a failed equality proof)." if not held_all else ""))
    ctx.notes.append(ctx.src_tie_line)
    return report


# ---------------------------------------------------------------------------------------- run
def run(ctx):
    source_tie_stage(ctx)
    rng = ctx.rng
    C = Classes()
    bp = C.bp
    ref = C.reference(ctx.seed)
    from google.protobuf import timestamp_pb2, duration_pb2
    from dateutil.parser import isoparse

    pairs, descr = [], []

    def add(model, expected, d):
        pairs.append((model, expected))
        descr.append(d)

    # corpus (regression witnesses of the defects of the pinned tree) runs first
    corpus = json.load(open(lib.os.path.join(lib.VERIF, "corpus", "C15.json")))
    instants = [(w["us"], "corpus") for w in corpus["datetimes"]] + gen_instants(ctx)
    durations = [(w["us"], "corpus") for w in corpus["timedeltas"]] + gen_durations(ctx)

    # ------------------------------------------------------------------ datetimes
    dts = []  # (wall, off, fno, tag)
    key_instants = {0, 1, -1, -1500000, 10**6, -10**6, TS_MIN + 12 * HOUR, TS_MAX - 12 * HOUR, (1 << 53) + 1}
    for i, (t, tag) in enumerate(instants):
        if t in key_instants and tag != "random":
            offs = WHOLE_OFFSETS + SPECIAL_OFFSETS + SUBSECOND_OFFSETS
            key_instants.discard(t)
        else:
            offs = [0, rng.choice(WHOLE_OFFSETS), rng.choice(SPECIAL_OFFSETS + SUBSECOND_OFFSETS)]
            if not ctx.thorough:
                offs = offs[rng.randrange(3):][:2] if tag == "random" else [offs[i % 3], offs[(i + 1 + i // 3 % 2) % 3]]
        for off in offs:
            wall = t + off
            if not (TS_MIN <= wall <= TS_MAX):
                ctx.count("dt_skipped_wall_out_of_range")
                continue
            dts.append((wall, off, FNOS[(i + len(dts)) % len(FNOS)] if tag != "corpus" else 1, tag))
    seen = set()
    dts = [x for x in dts if not (x[:3] in seen or seen.add(x[:3]))]
    for wall, off, fno, tag in dts:
        t = wall - off
        ctx.count(f"datetime:{tag}")
        ctx.count("datetime_offset:" + ("utc" if off == 0 else "subsecond" if off % 10**6 else "whole-hour" if off % HOUR == 0 else "other"))
        ctx.count("datetime_fraction:" + ("whole-s" if t % 10**6 == 0 else "whole-ms" if t % 1000 == 0 else "us"))
        ctx.count("datetime_sign:" + ("pre-1970" if t < 0 else "epoch" if t == 0 else "post-1970"))
        if t != 0:
            ctx.seen_nontrivial(("dt", wall, off, fno))
        dt = mk_dt(wall, off)
        M = C.get(fno, datetime)
        cdt = coq_dt(wall, off)
        d = {"kind": "datetime", "wall_us": wall, "off_us": off, "fno": fno, "iso": dt.isoformat()}
        add(f"(let '(s, n) := from_datetime {cdt} in CL [CZ s; CZ n])", res(lambda: bp._Timestamp.from_datetime(dt), pair_cv),
            dict(d, op="from_datetime"))
        add(f"cres CB (bytes_ts {coq_z(fno)} {cdt})", res(lambda: bytes(M(f=dt)), cb), dict(d, op="bytes"))
        nth = len(pairs) // 5
        if ctx.thorough or nth % 3 == 0:  # the oracle compares len(m) with len(bytes(m)) on every value
            add(f"cres CZ (len_ts {coq_z(fno)} {cdt})", res(lambda: len(M(f=dt)), cz), dict(d, op="len"))
        cal = cal_of(dt)
        add(f"cres (copt CB) (to_dict_ts {coq_bytes(cal.encode())} {cdt})", res(lambda: M(f=dt).to_dict().get("f"), opt_str),
            dict(d, op="to_dict"))
        if t == 0 or ctx.thorough:  # to_dict above goes through it for every other instant
            add(f"cres CB (timestamp_to_json {coq_bytes(cal.encode())} {cdt})", res(lambda: bp._Timestamp.timestamp_to_json(dt), lambda s: cb(s.encode())),
                dict(d, op="timestamp_to_json"))
        try:
            b = bytes(M(f=dt))
        except Exception:  # noqa
            b = b""
        add(f"cres (fun d => CL [CZ (wall d); CZ (off d)]) (parse_ts {coq_z(fno)} {coq_bytes(b)})", res(lambda: M().parse(b).f, dt_cv),
            dict(d, op="parse(bytes)", bytes=b.hex()))
        # sampled assumption: CPython's timedelta normal form and aware subtraction
        o = dt - EPOCH
        if ctx.thorough or nth % 3 == 1:
            add(f"CL [CZ (dt_sub {cdt} DATETIME_ZERO); CZ (td_days ({t})); CZ (td_seconds ({t})); CZ (td_microseconds ({t}))]",
                cl([cz(o // US), cz(o.days), cz(o.seconds), cz(o.microseconds)]), dict(d, op="timedelta normal form (assumption)"))
    ctx.sample({"datetime": dts[len(dts) // 2][:3], "iso": mk_dt(*dts[len(dts) // 2][:2]).isoformat()})

    # ------------------------------------------------------------------ timedeltas
    beyond = [TD_MAX, TD_MIN, TD_MAX - 1, DUR_MAX + 1, -DUR_MAX - 1, DUR_MAX * 3 + 999999, -(DUR_MAX * 7) - 1]
    beyond += [rng.choice([-1, 1]) * rng.randint(DUR_MAX, TD_MAX) for _ in range(40)]
    beyond = [max(TD_MIN, min(TD_MAX, x)) for x in beyond]
    durs = []
    seen = set()
    for i, (us, tag) in enumerate(durations + [(x, "beyond-range") for x in beyond]):
        if us in seen:
            continue
        seen.add(us)
        durs.append((us, FNOS[i % len(FNOS)] if tag != "corpus" else 1, tag))
    for us, fno, tag in durs:
        ctx.count(f"timedelta:{tag}")
        ctx.count("timedelta_class:" + ("zero" if us == 0 else ("neg" if us < 0 else "pos") + ("-frac" if us % 10**6 else "-whole")
                                        + ("-gt2^53" if abs(us) > (1 << 53) else "")))
        if us:
            ctx.seen_nontrivial(("td", us, fno))
        td = timedelta(microseconds=us)
        M = C.get(fno, timedelta)
        d = {"kind": "timedelta", "us": us, "fno": fno}
        add(f"(let '(s, n) := from_timedelta ({us}) in CL [CZ s; CZ n])", res(lambda: bp._Duration.from_timedelta(td), pair_cv),
            dict(d, op="from_timedelta"))
        add(f"cres CB (bytes_dur {coq_z(fno)} ({us}))", res(lambda: bytes(M(f=td)), cb), dict(d, op="bytes"))
        nth = len(pairs) // 5
        if ctx.thorough or nth % 3 == 0:
            add(f"cres CZ (len_dur {coq_z(fno)} ({us}))", res(lambda: len(M(f=td)), cz), dict(d, op="len"))
        add(f"copt CB (to_dict_dur ({us}))", res(lambda: M(f=td).to_dict().get("f"), opt_str), dict(d, op="to_dict"))
        if us == 0 or ctx.thorough:  # to_dict above goes through it for every other span
            add(f"CB (delta_to_json ({us}))", res(lambda: bp._Duration.delta_to_json(td), lambda s: cb(s.encode())), dict(d, op="delta_to_json"))
        try:
            b = bytes(M(f=td))
        except Exception:  # noqa
            b = b""
        add(f"cres CZ (parse_dur {coq_z(fno)} {coq_bytes(b)})", res(lambda: M().parse(b).f // US, cz), dict(d, op="parse(bytes)", bytes=b.hex()))
        if ctx.thorough or nth % 3 == 1:
            add(f"CL [CZ (td_days ({us})); CZ (td_seconds ({us})); CZ (td_microseconds ({us}))]",
                cl([cz(td.days), cz(td.seconds), cz(td.microseconds)]), dict(d, op="timedelta normal form (assumption)"))
        # from_dict of the strings both sides write
        strings = {res(lambda: bp._Duration.delta_to_json(td), lambda s: s)}
        if abs(us) <= DUR_MAX:
            q, r_ = divmod(abs(us), 10**6)
            strings.add(duration_pb2.Duration(seconds=-q if us < 0 else q, nanos=(-r_ if us < 0 else r_) * 1000).ToJsonString())
        for s in strings:
            if isinstance(s, str) and not s.startswith("(CE"):
                add(f"cres CZ (parse_duration {coq_bytes(s.encode())})", res(lambda: M().from_dict({"f": s}).f // US, cz),
                    dict(d, op="from_dict", string=s))
    ctx.sample({"timedelta_us": durs[len(durs) // 2][0]})

    # ------------------------------------------------------------------ decimal strings for from_dict
    DM = C.get(1, timedelta)
    nstr = 250 if not ctx.thorough else 2500
    for _ in range(nstr):
        ip = str(rng.getrandbits(rng.choice([1, 4, 20, 38]))) if rng.random() < 0.9 else ""
        fp = "".join(rng.choice("0123456789") for _ in range(rng.choice([0, 1, 3, 5, 6, 7, 9, 12])))
        s = rng.choice(["", "", "-", "+"]) + ip + (("." + fp) if (fp or rng.random() < 0.2) else "") + "s"
        if len(ip) + len(fp) > 28:
            continue
        ctx.count("decimal_string")
        add(f"cres_any CZ (parse_duration {coq_bytes(s.encode())})", res_any(lambda: DM().from_dict({"f": s}).f // US, cz),
            {"kind": "duration-string", "string": s, "op": "from_dict"})

    # ------------------------------------------------------------------ crafted wire inputs
    ncraft = 400 if not ctx.thorough else 5000
    sn_pool = [(0, 1), (0, -1), (0, 999), (0, -999), (0, 1500), (0, -1500), (0, 2500), (3, 999999999), (-3, -999999999), (-1, 500000000),
               (1, -500000000), (0, 999999000), ((1 << 63) - 1, 0), (-(1 << 63), 0), (0, (1 << 31) - 1), (0, -(1 << 31)),
               (253402300799, 999999999), (253402300800, 0), (-62135596800, 0), (-62135596801, 999999999), (86399999999999, 0),
               (86400000000000, 0), (-86399999913600, 0), (-86399999913601, 0)]
    for i in range(ncraft):
        if i < 2 * len(sn_pool):
            s, n = sn_pool[i % len(sn_pool)]
        else:
            s = rng.choice([rng.randint(-DUR_MAX // 10**6, DUR_MAX // 10**6), rng.randint(-100, 100), rng.getrandbits(63) - (1 << 62)])
            n = rng.choice([rng.randint(-999999999, 999999999), 1000 * rng.randint(-999999, 999999), rng.getrandbits(32) - (1 << 31)])
        fno = FNOS[i % len(FNOS)]
        inner, tag = craft_inner(rng, s, n) if i >= len(sn_pool) else ((key(1, 0) + vint(s) if s else b"") + (key(2, 0) + vint(n) if n else b""), "canonical")
        body, tag = wrap(rng, fno, inner, tag) if i >= len(sn_pool) else (key(fno, 2) + vint(len(inner)) + inner, tag)
        ctx.count("crafted:" + tag)
        ctx.seen_nontrivial(("wire", body))
        d = {"kind": "wire", "seconds": s, "nanos": n, "fno": fno, "shape": tag, "bytes": body.hex()}
        TM, DMx = C.get(fno, datetime), C.get(fno, timedelta)
        add(f"cres (fun d => CL [CZ (wall d); CZ (off d)]) (parse_ts {coq_z(fno)} {coq_bytes(body)})", res(lambda: TM().parse(body).f, dt_cv),
            dict(d, op="parse as Timestamp field"))
        add(f"cres CZ (parse_dur {coq_z(fno)} {coq_bytes(body)})", res(lambda: DMx().parse(body).f // US, cz), dict(d, op="parse as Duration field"))
        if i < 3 * len(sn_pool):
            add(f"cres CZ (to_timedelta ({s}) ({n}))", res(lambda: bp._Duration(seconds=s, nanos=n).to_timedelta() // US, cz), dict(d, op="to_timedelta"))
            add(f"cres (fun d => CL [CZ (wall d); CZ (off d)]) (to_datetime ({s}) ({n}))", res(lambda: bp._Timestamp(seconds=s, nanos=n).to_datetime(), dt_cv),
                dict(d, op="to_datetime"))
            add(f"cres CB (bytes_sn ({s}) ({n}))", res(lambda: bytes(bp._Duration(seconds=s, nanos=n)), cb), dict(d, op="bytes(_Duration)"))

    # ------------------------------------------------------------------ binary64 model of the pinned formulas vs CPython floats
    npin = 0
    for us, fno, tag in durs:
        if tag != "corpus" and rng.random() < (0.6 if not ctx.thorough else 0.8):
            continue
        if abs(us) > 10**19:
            continue
        npin += 1
        add(f"(let '(s, n) := from_timedelta_pinned ({us}) in CL [CZ s; CZ n])", cl([cz(x) for x in pinned_from_timedelta(us)]),
            {"kind": "pinned-float-model", "us": us, "op": "int(us / 1e6), int((us % 1e6) * 1e3)"})
        if abs(us) <= DUR_MAX:
            s = pinned_delta_to_json(us)
            add(f"CB (delta_to_json_pinned ({us}))", cb(s.encode()), {"kind": "pinned-float-model", "us": us, "op": "str(total_seconds()) formatting"})
            if "e" not in s:
                add(f"cres CZ (parse_duration_pinned {coq_bytes(s.encode())})", res(lambda: pinned_parse_duration(s), cz),
                    {"kind": "pinned-float-model", "string": s, "op": "timedelta(seconds=float(s[:-1]))"})
            q, r_ = divmod(abs(us), 10**6)
            exact = ("-" if us < 0 else "") + f"{q}.{r_:06d}s"
            add(f"cres CZ (parse_duration_pinned {coq_bytes(exact.encode())})", res(lambda: pinned_parse_duration(exact), cz),
                {"kind": "pinned-float-model", "string": exact, "op": "timedelta(seconds=float(s[:-1]))"})
    for s, n in sn_pool + [(rng.randint(-10**9, 10**9), rng.randint(-(1 << 31), (1 << 31) - 1)) for _ in range(150)]:
        if abs(s) < 8 * 10**13:
            add(f"cres CZ (to_timedelta_pinned ({s}) ({n}))", res(lambda: pinned_to_timedelta(s, n), cz),
                {"kind": "pinned-float-model", "seconds": s, "nanos": n, "op": "timedelta(seconds=s, microseconds=n / 1e3)"})
    ctx.count("pinned_float_model_values", npin)

    # ------------------------------------------------------------------ T3: the specification against the reference
    t3_from = len(pairs)
    for wall, off, fno, tag in dts:
        t = wall - off
        if off % 10**6 or rng.random() < (0.8 if tag != "corpus" else 0.9):
            continue
        dt = mk_dt(wall, off)
        r = timestamp_pb2.Timestamp()
        r.FromDatetime(dt)
        add(f"(let '(s, n) := ts_of_us ({t}) in CL [CZ s; CZ n; CZ (ts_to_us s n)])",
            cl([cz(r.seconds), cz(r.nanos), cz(inst(r.ToDatetime(tzinfo=timezone.utc)))]), {"kind": "T3", "op": "FromDatetime/ToDatetime", "us": t})
        add(f"CB (ts_json {coq_bytes(cal_of(dt).encode())} ({r.nanos}))", cb(r.ToJsonString().encode()), {"kind": "T3", "op": "Timestamp.ToJsonString", "us": t})
        js = r.ToJsonString()
        r2 = timestamp_pb2.Timestamp()
        r2.FromJsonString(js)
        add(f"copt CZ (ts_suffix_parse {coq_bytes(js[19:].encode())})", cz(r2.nanos // 1000), {"kind": "T3", "op": "Timestamp.FromJsonString fraction", "string": js})
        add(f"copt CZ (ts_suffix_parse {coq_bytes(js[19:].encode())})", cz(isoparse(js).microsecond), {"kind": "T3", "op": "isoparse fraction", "string": js})
    for _ in range(100 if not ctx.thorough else 1000):
        nn = rng.choice([rng.randrange(10**9), 1000 * rng.randrange(10**6), 10**6 * rng.randrange(1000), 0])
        sec = rng.randint(TS_MIN // 10**6, TS_MAX // 10**6)
        r = timestamp_pb2.Timestamp(seconds=sec, nanos=nn)
        js = r.ToJsonString()
        add(f"CB (ts_json {coq_bytes(js[:19].encode())} ({nn}))", cb(js.encode()), {"kind": "T3", "op": "Timestamp.ToJsonString (ns)", "pair": [sec, nn]})
        add(f"copt CZ (ts_suffix_parse {coq_bytes(js[19:].encode())})", cz(isoparse(js).microsecond), {"kind": "T3", "op": "isoparse fraction (ns)", "string": js})
        add(f"CZ (ts_to_us ({sec}) ({nn}))", cz(inst(r.ToDatetime(tzinfo=timezone.utc))), {"kind": "T3", "op": "Timestamp.ToDatetime", "pair": [sec, nn]})
    for us, fno, tag in durs:
        if abs(us) > DUR_MAX or (tag != "corpus" and rng.random() < 0.7):
            continue
        r = duration_pb2.Duration()
        r.FromTimedelta(timedelta(microseconds=us))
        add(f"(let '(s, n) := dur_of_us ({us}) in CL [CZ s; CZ n; CZ (dur_to_us s n)])",
            cl([cz(r.seconds), cz(r.nanos), cz(r.ToTimedelta() // US)]), {"kind": "T3", "op": "FromTimedelta/ToTimedelta", "us": us})
        js = r.ToJsonString()
        add(f"CB (dur_json ({r.seconds}) ({r.nanos}))", cb(js.encode()), {"kind": "T3", "op": "Duration.ToJsonString", "us": us})
        for s in {js, res(lambda: bp._Duration.delta_to_json(timedelta(microseconds=us)), lambda x: x)}:
            if not s.startswith("(CE"):
                r2 = duration_pb2.Duration()
                try:
                    r2.FromJsonString(s)
                    exp = cl([cz(r2.seconds), cz(r2.nanos)])
                except Exception:  # noqa
                    exp = CN
                add(f"copt (fun p => CL [CZ (fst p); CZ (snd p)]) (dur_parse {coq_bytes(s.encode())})", exp,
                    {"kind": "T3", "op": "Duration.FromJsonString", "string": s})
    for _ in range(100 if not ctx.thorough else 1000):
        sec = rng.choice([0, rng.randint(0, DUR_MAX // 10**6 - 1), rng.randint(0, 100)])
        nn = rng.choice([rng.randrange(10**9), 1000 * rng.randrange(10**6), 10**6 * rng.randrange(1000), 0])
        if rng.random() < 0.5:
            sec, nn = -sec, -nn
        r = duration_pb2.Duration(seconds=sec, nanos=nn)
        js = r.ToJsonString()
        add(f"CB (dur_json ({sec}) ({nn}))", cb(js.encode()), {"kind": "T3", "op": "Duration.ToJsonString (ns)", "pair": [sec, nn]})
        r2 = duration_pb2.Duration()
        r2.FromJsonString(js)
        add(f"copt (fun p => CL [CZ (fst p); CZ (snd p)]) (dur_parse {coq_bytes(js.encode())})", cl([cz(r2.seconds), cz(r2.nanos)]),
            {"kind": "T3", "op": "Duration.FromJsonString (ns)", "string": js})
        add(f"CZ (dur_to_us ({sec}) ({nn}))", cz(r.ToTimedelta() // US), {"kind": "T3", "op": "Duration.ToTimedelta", "pair": [sec, nn]})
    ctx.count("t3_cases", len(pairs) - t3_from)

    # ------------------------------------------------------------------ evaluate the model inside Coq
    ctx.cov["evaluations"] += len(pairs)
    bad = lib.coq_compare(ctx, "c15", IMPORTS, pairs)
    ctx.cov["disagreements_checked"] += len(pairs)
    corr_inputs = []
    for i in bad[:12]:
        model_val = lib.coq_eval(ctx, IMPORTS, pairs[i][0])
        kind = descr[i].get("kind")
        if kind == "T3":
            what = f"the specification Spec/Time.v disagrees with the reference on {descr[i]['op']} (broken spec, T3)"
            thm = "T3 correspondence Spec/Time.v <-> google.protobuf"
        elif kind == "pinned-float-model":
            what = f"the binary64 model of the pinned formulas disagrees with CPython floats on {descr[i]['op']}"
            thm = "T2 correspondence Model/Time.v (rn, *_pinned) <-> CPython float arithmetic"
        else:
            what = f"model and implementation disagree on {descr[i].get('op')} of a {kind}"
            thm = "T2 correspondence Model/Time.v <-> betterproto"
            corr_inputs.append(descr[i])
        ctx.fail("corr", what, input=descr[i], expected_model=model_val, observed_impl=pairs[i][1], theorem_or_correspondence=thm,
                 model_expr=pairs[i][0], no_input=(kind in ("T3", "pinned-float-model")))
    for i in (1, len(pairs) // 3, 2 * len(pairs) // 3, len(pairs) - 1):
        ctx.sample({"case": descr[i], "model_expr": pairs[i][0][:300], "impl": pairs[i][1][:300]})

    # ------------------------------------------------------------------ oracle: the property itself on the implementation
    nor = 0
    for wall, off, fno, tag in dts:
        try:
            problems = oracle_datetime(C, ref, wall, off, fno)
        except Exception as e:  # noqa
            problems = [("ts_crash", f"raised {e!r}")]
        nor += 1
        for cls, why in problems:
            ctx.fail("oracle", "C15 violated: " + why, cls=cls,
                     input={"kind": "datetime", "wall_us": wall, "off_us": off, "fno": fno, "iso": mk_dt(wall, off).isoformat()})
    for us, fno, tag in durs:
        try:
            problems = oracle_duration(C, ref, us, fno)
        except Exception as e:  # noqa
            problems = [("dur_crash", f"raised {e!r}")]
        nor += 1
        for cls, why in problems:
            ctx.fail("oracle", "C15 violated: " + why, cls=cls, input={"kind": "timedelta", "us": us, "fno": fno})
    ctx.cov["evaluations"] += nor
    ctx.count("oracle_values", nor)


def res_any(f, conv):
    """ok / error only"""
    try:
        return conv(f())
    except Exception:  # noqa
        return ce("EOther")


def finish(ctx):
    # several classes of one defect collapse into one reported violation per (kind, cls, what): keep the first of each class
    firsts, out = set(), []
    for f in ctx.failures:
        k = (f["kind"], f.get("cls"))
        if f["kind"] == "oracle" and k in firsts:
            continue
        firsts.add(k)
        out.append(f)
    ctx.failures = out
    tie = ctx.cov.get("source_translation_tie") or {}
    held = [k for k, p in (tie.get("parts") or {}).items() if p.get("held")]
    assumptions = list(ASSUMPTIONS) + [getattr(ctx, "src_tie_line", "source-translation tie: stage not run")]
    trusted = list(TRUSTED)
    if held:
        trusted.append("source-translation tie (held for: " + ", ".join(held) + "): the translator harness/gen_c15_src.py on top of harness/gen_c16_src.py "
                       "(Python `ast`, fail-closed, accepted subsets documented in their headers) and the semantics of the Python operations they target, "
                       "coq/Model/C16SrcLib.v + coq/Model/C15SrcLib.v (each datetime / timedelta operation = the model's own primitive: dt_sub, dt_add, "
                       "timedelta_new, td_days / td_seconds / td_microseconds; astimezone(utc) with its OverflowError; integer-valued floats as Z; "
                       "f\"{i}\" = dec, f\"{i:0kd}\" = fmt0, 'd' on a float = ValueError; isoformat() = Model/Json.v cal_text; exceptions by class only); "
                       "for the parts that held the hand-written model functions are no longer trusted beyond that: they are PROVED equal to the translation")
    return lib.finish(
        ctx, "proof",
        "Coq theorems over a Gallina mirror of the Timestamp/Duration conversions (integer model of the repaired code, exact binary64 "
        "model of the pinned code for the refutations) + executable correspondence (vm_compute) with the implementation and, for the "
        "specification, with google.protobuf"
        + ("; the conversion functions additionally tied by mechanical source translation proved equal to the model" if held else ""),
        assumptions, trusted, RULE,
        extra_cov={"exhaustive": False,
                   "explanation": "theorems are unbounded (all of Z, hence the whole protobuf range); the correspondence is sampled "
                                  "(boundaries + random) and the calendar part of the JSON forms is an oracle"})


def impl_eval(C, d):
    """recompute the implementation side of a T2 case from its stored description (None if not reconstructible)"""
    bp = C.bp
    op, kind = d.get("op"), d.get("kind")
    if kind == "datetime":
        dt = mk_dt(d["wall_us"], d["off_us"])
        M = C.get(d["fno"], datetime)
        table = {
            "from_datetime": lambda: res(lambda: bp._Timestamp.from_datetime(dt), pair_cv),
            "bytes": lambda: res(lambda: bytes(M(f=dt)), cb),
            "len": lambda: res(lambda: len(M(f=dt)), cz),
            "to_dict": lambda: res(lambda: M(f=dt).to_dict().get("f"), opt_str),
            "timestamp_to_json": lambda: res(lambda: bp._Timestamp.timestamp_to_json(dt), lambda s: cb(s.encode())),
            "parse(bytes)": lambda: res(lambda: M().parse(bytes.fromhex(d["bytes"])).f, dt_cv),
        }
    elif kind == "timedelta":
        td = timedelta(microseconds=d["us"])
        M = C.get(d["fno"], timedelta)
        table = {
            "from_timedelta": lambda: res(lambda: bp._Duration.from_timedelta(td), pair_cv),
            "bytes": lambda: res(lambda: bytes(M(f=td)), cb),
            "len": lambda: res(lambda: len(M(f=td)), cz),
            "to_dict": lambda: res(lambda: M(f=td).to_dict().get("f"), opt_str),
            "delta_to_json": lambda: res(lambda: bp._Duration.delta_to_json(td), lambda s: cb(s.encode())),
            "parse(bytes)": lambda: res(lambda: M().parse(bytes.fromhex(d["bytes"])).f // US, cz),
            "from_dict": lambda: res(lambda: M().from_dict({"f": d["string"]}).f // US, cz),
        }
    elif kind == "duration-string":
        table = {"from_dict": lambda: res_any(lambda: C.get(1, timedelta)().from_dict({"f": d["string"]}).f // US, cz)}
    elif kind == "wire":
        b = bytes.fromhex(d["bytes"])
        s_, n_ = d["seconds"], d["nanos"]
        table = {
            "parse as Timestamp field": lambda: res(lambda: C.get(d["fno"], datetime)().parse(b).f, dt_cv),
            "parse as Duration field": lambda: res(lambda: C.get(d["fno"], timedelta)().parse(b).f // US, cz),
            "to_timedelta": lambda: res(lambda: bp._Duration(seconds=s_, nanos=n_).to_timedelta() // US, cz),
            "to_datetime": lambda: res(lambda: bp._Timestamp(seconds=s_, nanos=n_).to_datetime(), dt_cv),
            "bytes(_Duration)": lambda: res(lambda: bytes(bp._Duration(seconds=s_, nanos=n_)), cb),
        }
    else:
        return None
    f = table.get(op)
    return f() if f else None


def replay(ctx, obj):
    """re-run the oracle on the stored input; for a correspondence break also re-evaluate model and implementation"""
    C = Classes()
    ref = C.reference(ctx.seed)
    inp = obj.get("input") or {}
    print(json.dumps({k: obj.get(k) for k in ("kind", "what", "cls", "expected_model", "observed_impl") if k in obj}, indent=1))
    problems = []
    still_corr = False
    if obj.get("kind") == "corr" and obj.get("model_expr"):
        now = impl_eval(C, inp)
        if now is not None:
            bad = lib.coq_compare(ctx, "c15replay", IMPORTS, [(obj["model_expr"], now)])
            still_corr = bool(bad)
            print("implementation now:", now)
            print("model:", lib.coq_eval(ctx, IMPORTS, obj["model_expr"]))
            print("model and implementation still disagree" if still_corr else "model and implementation agree on this input now")
    if inp.get("kind") == "datetime":
        problems = oracle_datetime(C, ref, inp["wall_us"], inp["off_us"], inp.get("fno", 1))
    elif inp.get("kind") == "timedelta":
        problems = oracle_duration(C, ref, inp["us"], inp.get("fno", 1))
    for cls, why in problems:
        print(f"still fails [{cls}]: {why}")
    known = {k["cls"] for k in lib.load_known(ctx.pid) if k["status"] == "open"}
    real = [p for p in problems if p[0] not in known]
    if not problems and not still_corr:
        print("the property holds on this input with the current tree")
    return 1 if (real or still_corr) else 0
