"""C05 — canonical proto3 JSON mapping, judged against google.protobuf.json_format.

Stages (after build + audit of coq/Properties/C05.v):
  T3   coq/Spec/JsonMap.v against the reference: json_spec a = MessageToJson(ref(a)); json_accepts on reference output,
       on betterproto output and on legal input variants = what json_format.Parse makes of it; protoc_json_name against
       the descriptor pool (and real protoc in the thorough tier).  A disagreement here is a broken SPEC, reported as such.
  T2   coq/Model/Casing.v camel_key/safe_snake_case against the live casing functions on the names used here
       (the to_dict/from_dict model itself is property C04's correspondence).
  oracle  the property on the implementation, both directions, for every message:
       (a) emit    json_format.Parse(m.to_json(), Ref()) succeeds and denotes the same abstract message as m
       (b) accept  Cls().from_json(MessageToJson(ref(a))) denotes a   (3 printer variants)
       (c) canon   m.to_json() has the canonical FORM the reference prints (key names, string-vs-number, names-vs-numbers,
                   base64 alphabet, Timestamp / Duration grammar) - what the reference parser is lenient about
  T4   the vocabulary of the message-level theorems C05_emit / C05_accept (coq/Proofs/C05MsgDef.v, C05AccDef.v) on what is
       generated here: wf_schema / js_matches / keys_ok hold on every generated schema pair, abs_obj = the oracle's abstraction
       abs_bp on every generated object, emit_good / wf_aval hold exactly outside the known classes.
  T5   the descriptor side of C05_generated_js_matches / _emit / _accept (coq/Model/C05Desc.v): on FileDescriptorSets real protoc
       emits (the Coq witness sources, C03's systematic / random .proto generator, msggen schemas printed as .proto) the JSON schema
       jschema_of_descriptor reads off the descriptor = the one read off google.protobuf's OWN descriptor pool for that set
       (json_name, types, presence, oneofs, enum value names); json_names_ok = the harness's reading with the real naming functions;
       the theorem instance by instance; the two refutation witnesses (K3 on a descriptor, enum-name prefix stripping) and the
       non-vacuity example D_ok replayed against the REAL plugin output and json_format.
Failing inputs are shrunk (fields, container elements, nesting) and labelled by the features of the minimal input.
"""
import base64
import json
import os
import re
import struct
from datetime import datetime, timedelta, timezone

from .. import lib, msggen
from ..lib import cz, cb, cl, coq_bytes, CN

IMPORTS = "Model.Types Model.Object Model.Casing Spec.JsonMap gen.Tables"
CORPUS = os.path.join(lib.VERIF, "corpus", "C05-regress.json")
NAMES = os.path.join(lib.VERIF, "corpus", "C05-names.txt")

INT64 = ("int64", "uint64", "sint64", "fixed64", "sfixed64")
CLS_CASING = "json-key-casing"
CLS_MAPV_EMIT = "map-value-emit"
CLS_WRAP_EMIT = "wrapper-emit"
CLS_MAPV_ACC = "map-value-accept"
CLS_MAPK_ACC = "map-key-accept"
CLS_WRAP_ACC = "wrapper-accept"
CLS_OPT_DEFAULT = "optional-default-message-emit"
CLS_NEGZERO = "neg-zero-implicit-float"
CLS_PLAIN_ZERO_TIME = "plain-zero-time"
CLS_ENUM_PREFIX = "enum-value-prefix-stripped"

TRUSTED = [
    "Coq 8.16.1 kernel and vm_compute (no native_compute); full .vo build via coq_makefile",
    "specification coq/Spec/JsonMap.v (json_spec / json_accepts / protoc_json_name), written from the proto3 JSON mapping and protoc's "
    "ToJsonName, tied to google.protobuf 7.x json_format (upb) by this harness on every run (T3): MessageToJson output, Parse results on "
    "reference output, betterproto output and mutated legal variants, json_name of the descriptor pool",
    "model coq/Model/Casing.v (property C19's mirror of casing.py) tied to the live functions on every name used here (T2)",
    "Python side: harness/c05_reference.py (in-memory FileDescriptorProto -> DescriptorPool -> message classes, the abstraction of "
    "betterproto messages and reference messages to one abstract message value, field-by-field diff), harness/msggen.py (schemas, values), "
    "the shrinker and the classification of minimal failing inputs by their features",
    "oracles: google.protobuf 7.36 json_format / descriptor pool, grpc_tools.protoc (thorough tier: json_name of real protoc), CPython json / base64",
    "descriptor side (T5): coq/Model/C05Desc.v jschema_of_descriptor / json_names_ok are DEFINITIONS of how the reference reads a "
    "descriptor set; they are tied to google.protobuf's own descriptor pool (json_name, types, presence, oneofs, enum value names) and "
    "to the real naming functions on descriptor sets real protoc emits; the descriptor model (Spec/Descriptor.v, property C03's) has "
    "no syntax field and no json_name option: proto2 files and explicit [json_name = ...] are outside it (counted, not compared); "
    "harness/plugin_util.py (real protoc + plugin, ruff shim) for the replay of the generated-class witnesses",
    "float text: JSON numbers are compared as binary64 values (binary32 for `float` fields) after CPython's repr/float(); the calendar "
    "arithmetic of the spec (civil date <-> days) is validated by T3, not proved",
]
ASSUMPTIONS = [
    "str is its UTF-8 bytes (no lone surrogates); float is its binary64 pattern; aware datetimes are microseconds since the epoch "
    "(microsecond resolution: the quantifier of C05)",
    "abstract message value: implicit-presence scalars carry a value, optional / oneof / wrapper / message fields carry presence; "
    "a plain (non-optional, non-oneof) datetime/timedelta field equal to the epoch / zero span and a plain sub-message whose "
    "_serialized_on_wire is false denote ABSENT (that is what bytes(m) conveys); unknown fields are outside JSON",
    "values are in range for their proto type (msggen in_range=True): out-of-range Python values are C01/C17 business",
]
RULE = ("messages of the systematic schema (15 scalars + enum + message + Timestamp + Duration x {plain, optional, repeated, oneof member, "
        "map value, map key, wrapper}) and of random schemas, values from boundary/typical classes incl. NaN/+-Infinity/-0.0, 64-bit extremes, "
        "unnamed / negative / aliased enum numbers, every base64 padding length, datetimes over 0001..9999 and durations over +-10000 years at "
        "microsecond resolution; one-field classes for proto field names (corpus + word-structured + exhaustive short strings) for the key mapping. "
        "non-trivial = at least one field set; distinct = distinct (class, abstract value)")


# ==========================================================================================
# helpers on abstract messages
# ==========================================================================================
def is_set(f, v):
    if f.card == "repeated":
        return bool(v)
    if f.card == "map":
        return bool(v["map"])
    if f.card in ("optional", "wrapper") or f.group is not None or f.elem.kind in ("msg", "datetime", "timedelta"):
        return v is not None
    return v != default_leaf(f.elem)


def default_leaf(e):
    if e.kind == "enum":
        return ("e", 0)
    return {"bool": ("b", False), "string": ("s", ""), "bytes": ("y", b""), "float": ("f", 0), "double": ("f", 0)}.get(e.pt, ("i", 0))


def cleared(f):
    if f.card == "repeated":
        return []
    if f.card == "map":
        return {"map": []}
    if f.card in ("optional", "wrapper") or f.group is not None or f.elem.kind in ("msg", "datetime", "timedelta"):
        return None
    return default_leaf(f.elem)


def empty_amsg(schema, ci):
    return ("msg", ci, [cleared(f) for f in schema.classes[ci].fields])


def with_field(a, i, v):
    fs = list(a[2])
    fs[i] = v
    return ("msg", a[1], fs)


def smaller(schema, a):
    """strictly smaller abstract messages of the same class (for greedy shrinking)"""
    c = schema.classes[a[1]]
    setf = [i for i, f in enumerate(c.fields) if is_set(f, a[2][i])]
    if len(setf) > 1:
        for i in setf:  # keep one field only
            yield ("msg", a[1], [v if j == i else cleared(f) for j, (f, v) in enumerate(zip(c.fields, a[2]))])
    for i in setf:
        yield with_field(a, i, cleared(c.fields[i]))
    for i in setf:
        f, v = c.fields[i], a[2][i]
        if f.card == "repeated":
            if len(v) > 1:
                for x in v:
                    yield with_field(a, i, [x])
            elif f.elem.kind == "msg":
                for sub in smaller(schema, v[0]):
                    yield with_field(a, i, [sub])
        elif f.card == "map":
            if len(v["map"]) > 1:
                for kv in v["map"]:
                    yield with_field(a, i, {"map": [kv]})
            elif f.elem.kind == "msg":
                k, x = v["map"][0]
                for sub in smaller(schema, x):
                    yield with_field(a, i, {"map": [(k, sub)]})
        elif f.elem.kind == "msg" and f.card != "wrapper":
            for sub in smaller(schema, v):
                yield with_field(a, i, sub)


def shrink(schema, a, fails, budget=400):
    progress = True
    while progress and budget > 0:
        progress = False
        for cand in smaller(schema, a):
            budget -= 1
            if fails(cand):
                a, progress = cand, True
                break
            if budget <= 0:
                break
    return a


def focus(schema, a):
    """(class index, Field, value) of the innermost set field of a (minimal) abstract message"""
    c = schema.classes[a[1]]
    for f, v in zip(c.fields, a[2]):
        if not is_set(f, v):
            continue
        if f.elem.kind == "msg" and f.card != "wrapper":
            subs = v if f.card == "repeated" else [x for _, x in v["map"]] if f.card == "map" else [v]
            for sub in subs:
                inner = focus(schema, sub)
                if inner is not None:
                    return inner
        return a[1], f, v
    return None


def leaves(f, v):
    if f.card == "repeated":
        return list(v)
    if f.card == "map":
        return [x for _, x in v["map"]]
    return [v]


def special_float(x):
    return x[0] == "f" and (x[1] == "nan" or x[1] in (0x7FF0000000000000, 0xFFF0000000000000))


def label(direction, schema, a, proto_name=None):
    """finding class of a minimal failing input, from the features of the input alone"""
    fo = focus(schema, a)
    if proto_name is not None:
        return CLS_CASING if not json_name_safe(proto_name) else f"{direction}:key:safe-name"
    if fo is None:
        return f"{direction}:empty-message"
    ci, f, v = fo
    kind = f.elem.pt if f.elem.kind == "scalar" else f.elem.kind
    ls = leaves(f, v)
    if f.card == "map":
        value_kind_affected = (kind in INT64 or kind in ("bytes", "enum", "datetime", "timedelta")
                               or (kind in ("float", "double") and any(special_float(x) for x in ls)))
        if value_kind_affected:
            return CLS_MAPV_EMIT if direction in ("emit", "canon") else CLS_MAPV_ACC
        if direction == "accept" and f.key.pt != "string":
            return CLS_MAPK_ACC
    if f.card == "wrapper":
        if kind in ("int64", "uint64", "bytes") or (kind in ("float", "double") and any(special_float(x) for x in ls)):
            return CLS_WRAP_EMIT if direction in ("emit", "canon") else CLS_WRAP_ACC
    if (direction in ("emit", "canon") and f.card == "optional" and kind in ("msg", "datetime", "timedelta")
            and (v in (("ts", 0, 0), ("du", 0, 0)) or (kind == "msg" and focus(schema, v) is None))):
        return CLS_OPT_DEFAULT
    if (direction in ("emit", "canon") and f.card == "plain" and f.group is None and kind in ("float", "double")
            and v == ("f", 1 << 63)):
        return CLS_NEGZERO
    return f"{direction}:{'oneof' if f.group is not None else f.card}:{kind}"


# ---- the decidable side condition of protoc_json_name_agrees (coq/Spec/JsonMap.v json_name_safe), in Python
def json_name_safe(name):
    if not name or not re.fullmatch(r"[a-z0-9_]*", name):
        return False
    if re.search(r"[0-9][a-z]", name):          # a digit directly followed by a letter starts a new word for betterproto
        return False
    if re.match(r"_+[a-z]", name):              # protoc capitalises the first letter after leading underscores
        return False
    return True


# ==========================================================================================
# building betterproto messages from abstract values (shrunk cases, corpus)
# ==========================================================================================
def bp_value(schema, e, x, card=None, plain=False):
    if x[0] == "msg":
        # a plain (non-optional, non-oneof) sub-message is present iff its _serialized_on_wire flag is up
        return build_bp(schema, x[1], x, force_sow=plain)
    if x[0] == "ts":
        return msggen.EPOCH + timedelta(seconds=x[1], microseconds=x[2] // 1000)
    if x[0] == "du":
        return timedelta(seconds=x[1], microseconds=(abs(x[2]) // 1000) * (1 if x[2] >= 0 else -1))
    if x[0] == "f":
        return float("nan") if x[1] == "nan" else struct.unpack("<d", struct.pack("<Q", x[1]))[0]
    if x[0] == "e" and card != "wrapper":
        return schema.pyenums[e.ref].try_value(x[1])
    return x[1]


def build_bp(schema, ci, a, force_sow=False):
    c = schema.classes[ci]
    kw = {}
    for f, v in zip(c.fields, a[2]):
        if not is_set(f, v):
            continue
        if f.card == "repeated":
            kw[f.name] = [bp_value(schema, f.elem, x) for x in v]
        elif f.card == "map":
            kw[f.name] = {bp_value(schema, f.key, k): bp_value(schema, f.elem, x) for k, x in v["map"]}
        else:
            kw[f.name] = bp_value(schema, f.elem, v, f.card, plain=(f.card == "plain" and f.group is None))
    m = c.py(**kw)
    if force_sow:
        object.__setattr__(m, "_serialized_on_wire", True)
    return m


# ==========================================================================================
# the three oracles on one (abstract message, betterproto message)
# ==========================================================================================
class Env:
    def __init__(self, schema, rs, R):
        self.s, self.rs, self.R = schema, rs, R


def emit_problem(env, ci, a, m=None):
    """(a): Parse(m.to_json()) succeeds and denotes a.  Returns None or a one-line description."""
    R = env.R
    try:
        m = m if m is not None else build_bp(env.s, ci, a)
        text = m.to_json()
    except Exception as e:  # noqa
        return f"to_json raises {type(e).__name__}: {str(e)[:120]}"
    try:
        r = env.rs.parse(ci, text)
    except Exception as e:  # noqa
        return f"reference Parse rejects to_json output: {str(e)[:160]}"
    got = env.rs.abs(ci, r)
    if got != a:
        d = R.diff(env.s, a, got)
        return "reference Parse of to_json output yields a different message: " + "; ".join(f"{p}: {w}" for p, _, w in d[:2])
    return None


VARIANTS = [{}, {"preserving_proto_field_name": True}, {"always_print_fields_with_no_presence": True}]


def accept_problem(env, ci, a, variant=0):
    """(b): Cls().from_json(MessageToJson(ref(a))) denotes a."""
    R = env.R
    r = env.rs.build(ci, a)
    text = env.rs.to_json(ci, r, **VARIANTS[variant])
    try:
        m2 = env.s.classes[ci].py().from_json(text)
    except Exception as e:  # noqa
        return f"from_json raises {type(e).__name__} on reference output: {str(e)[:120]}"
    try:
        got = R.abs_bp(env.s, ci, m2)
    except R.NotAbstractable as e:
        return f"from_json of reference output leaves a wrongly typed value: {e}"
    if got != a:
        d = R.diff(env.s, a, got)
        return "from_json of reference output yields a different message: " + "; ".join(f"{p}: {w}" for p, _, w in d[:2])
    return None


TS_RE = re.compile(r"^\d{4}-\d\d-\d\dT\d\d:\d\d:\d\d(\.\d{3}|\.\d{6}|\.\d{9})?Z$")
DUR_RE = re.compile(r"^-?\d+(\.\d{3}|\.\d{6}|\.\d{9})?s$")


def canon_leaf(e, card, mine, ref):
    """compare one JSON leaf of betterproto's output with the reference's; None or what differs"""
    kind = e.pt if e.kind == "scalar" or card == "wrapper" else e.kind
    if kind in ("datetime", "timedelta"):
        if not isinstance(mine, str):
            return f"{kind} is {type(mine).__name__}, canonical form is a string"
        if kind == "datetime":
            if not TS_RE.match(mine):
                return f"Timestamp {mine!r} is not RFC 3339 UTC 'Z' with 0/3/6/9 fractional digits"
            pm, pr = (x[:19] + "." + (x[20:-1] if len(x) > 20 else "").ljust(9, "0") for x in (mine, ref))
            return None if pm == pr else f"Timestamp {mine!r} vs {ref!r}"
        if not DUR_RE.match(mine):
            return f"Duration {mine!r} is not [-]seconds[.fff[fff[fff]]]s"

        def parts(x):
            x = x[:-1]
            neg = x.startswith("-")
            ip, _, fp = x.lstrip("-").partition(".")
            v = int(ip) * 10 ** 9 + int(fp.ljust(9, "0") or 0)
            return -v if neg else v
        return None if parts(mine) == parts(ref) else f"Duration {mine!r} vs {ref!r}"
    if kind in ("float", "double"):
        if isinstance(ref, str) or isinstance(mine, str):
            return None if mine == ref and type(mine) is type(ref) else f"{mine!r} vs {ref!r}"
        if isinstance(mine, bool) or not isinstance(mine, (int, float)):
            return f"float is {type(mine).__name__}"
        x, y = float(mine), float(ref)
        if kind == "float":
            x, y = (struct.unpack("<f", struct.pack("<f", t))[0] for t in (x, y))
        return None if struct.pack("<d", x) == struct.pack("<d", y) else f"{mine!r} vs {ref!r}"
    if type(mine) is not type(ref):
        return f"JSON type {type(mine).__name__} ({mine!r}), canonical form is {type(ref).__name__} ({ref!r})"
    return None if mine == ref else f"{mine!r} vs {ref!r}"


def canon_diff(env, ci, mine, ref, path=""):
    """differences between two JSON objects for class ci: [(path, what)]"""
    out = []
    if not isinstance(mine, dict):
        return [(path, f"message is {type(mine).__name__}")]
    if set(mine) != set(ref):
        out.append((path, f"keys {sorted(set(mine) - set(ref))} instead of {sorted(set(ref) - set(mine))}"))
    c = env.s.classes[ci]
    for f in c.fields:
        key = env.R.protoc_json_name(env.rs.pname(ci, f))
        if key not in mine or key not in ref:
            continue
        x, y = mine[key], ref[key]
        p = f"{path}{c.name}.{f.name}"

        def one(u, v, pp):
            if f.elem.kind == "msg" and f.card != "wrapper":
                out.extend(canon_diff(env, f.elem.ref, u, v, pp + "/"))
            else:
                w = canon_leaf(f.elem, f.card, u, v)
                if w:
                    out.append((pp, w))
        if f.card == "repeated":
            if not isinstance(x, list) or len(x) != len(y):
                out.append((p, "array shape differs"))
            else:
                for i, (u, v) in enumerate(zip(x, y)):
                    one(u, v, f"{p}[{i}]")
        elif f.card == "map":
            if not isinstance(x, dict) or set(x) != set(y):
                out.append((p, f"map keys {sorted(x)[:4] if isinstance(x, dict) else x!r} vs {sorted(y)[:4]}"))
            else:
                for k in x:
                    one(x[k], y[k], f"{p}[{k!r}]")
        else:
            one(x, y, p)
    return out


def canon_problem(env, ci, a, m=None):
    """(c): to_json has the canonical form the reference prints."""
    try:
        m = m if m is not None else build_bp(env.s, ci, a)
        mine = json.loads(m.to_json())
    except Exception:  # noqa
        return None     # reported by (a)
    ref = json.loads(env.rs.to_json(ci, env.rs.build(ci, a)))
    d = canon_diff(env, ci, mine, ref)
    if d:
        return "to_json output is not in the canonical form the reference prints: " + "; ".join(f"{p}: {w}" for p, w in d[:2])
    return None


GENERIC = {
    "emit": "the JSON text betterproto emits is not accepted by the reference parser as the same message",
    "accept": "the JSON text the reference emits is not accepted by betterproto as the same message",
    "canon": "the JSON text betterproto emits is not in the canonical proto3 JSON form (accepted leniently by the reference parser)",
}


def examine(ctx, env, ci, a, m, where, proto_name=None, variants=(0, 1, 2)):
    """run the three oracles on one message; shrink + classify + record every failure. Returns number of failures."""
    n = 0
    checks = [("emit", lambda aa, mm=None: emit_problem(env, ci, aa, mm)),
              ("canon", lambda aa, mm=None: canon_problem(env, ci, aa, mm))]
    for v in variants:
        checks.append(("accept", (lambda vv: lambda aa, mm=None: accept_problem(env, ci, aa, vv))(v)))
    for direction, fn in checks:
        ctx.cov["evaluations"] += 1
        why = fn(a, m)
        if why is None:
            continue
        n += 1
        if m is not None and fn(a) is None:
            # the message rebuilt from its abstract value passes: the failure depends on object state the abstraction drops
            small, why_small, cls = a, why, f"{direction}:state-dependent"
        else:
            small = shrink(env.s, a, lambda cand: fn(cand) is not None)
            why_small = fn(small) or why
            cls = label(direction, env.s, small, proto_name)
        ctx.count(f"failure:{cls}")
        ctx.fail("oracle", GENERIC[direction], cls=cls,
                 input={"where": where, "schema_class": env.s.classes[ci].name,
                        "fields": [repr(f) for f in env.s.classes[ci].fields if is_set(f, small[2][env.s.classes[ci].fields.index(f)])],
                        "proto_field_name": proto_name,
                        "abstract_message": repr(small)[:3000],
                        "betterproto_json": safe(lambda: build_bp(env.s, ci, small).to_json()),
                        "reference_json": safe(lambda: env.rs.to_json(ci, env.rs.build(ci, small)))},
                 observed=why_small[:600], direction=direction)
    return n


def safe(f):
    try:
        return f()
    except Exception as e:  # noqa
        return f"<raises {type(e).__name__}: {str(e)[:200]}>"


# ==========================================================================================
# proto field names for the key mapping
# ==========================================================================================
def gen_names(ctx):
    rng = ctx.rng
    names = []
    if os.path.exists(NAMES):
        names += [l.strip() for l in open(NAMES) if l.strip() and not l.startswith("#")]
    # exhaustive short lower_snake names, word-structured random names, and a few mixed-case ones
    alpha = "ab1_"
    import itertools
    for n in range(1, 5 if not ctx.thorough else 6):
        for t in itertools.product(alpha, repeat=n):
            names.append("".join(t))
    words = ["foo", "bar", "x", "y", "id", "v2", "ipv4", "line", "1", "2a", "a1", "http", "url", "b64", "int32", "0"]
    for _ in range(150 if not ctx.thorough else 1500):
        k = rng.randint(1, 4)
        seps = [rng.choice(["_", "_", "_", "__", ""]) for _ in range(k)]
        s = rng.choice(["", "", "", "_", "__"]) + "".join(rng.choice(words) + sp for sp in seps)
        if rng.random() < 0.5:
            s = s.rstrip("_")
        names.append(s)
    for _ in range(40 if not ctx.thorough else 400):
        s = "".join(rng.choice("abAB1_") for _ in range(rng.randint(1, 7)))
        names.append(s)
    out, seen = [], set()
    for s in names:
        if s not in seen and re.fullmatch(r"[A-Za-z_][A-Za-z0-9_]*", s):
            seen.add(s)
            out.append(s)
    return out


# ==========================================================================================
def run(ctx):
    import betterproto as bp
    from betterproto import casing as C
    from .. import c05_reference as R

    rng = ctx.rng

    # ---------------------------------------------------------------- 1. regression corpus (runs first)
    matrix = msggen.matrix_schema()
    rs_matrix = R.RefSchema(matrix)
    env0 = Env(matrix, rs_matrix, R)
    ns = {"timedelta": timedelta, "datetime": datetime, "timezone": timezone, "EPOCH": msggen.EPOCH,
          "E0": matrix.pyenums[0], "nan": float("nan"), "inf": float("inf")}
    ns.update({c.name: c.py for c in matrix.classes})
    if os.path.exists(CORPUS):
        for entry in json.load(open(CORPUS))["cases"]:
            ci = [c.name for c in matrix.classes].index(entry["cls"])
            try:
                m = matrix.classes[ci].py(**eval(entry["kwargs"], dict(ns)))  # in-tree corpus, trusted
                a = R.abs_bp(matrix, ci, m)
            except Exception as e:  # noqa
                ctx.fail("oracle", f"regression corpus entry {entry['id']} cannot be built: {e!r}", cls=None, input=entry)
                continue
            ctx.count("corpus_cases")
            examine(ctx, env0, ci, a, m, f"corpus:{entry['id']}")

    # ---------------------------------------------------------------- 1b. K33 witness: a PRESENT epoch / zero span in a plain field
    # (the abstract message of this check takes such a field for absent - the convention of bytes(m) - so the main stream cannot
    #  see it; the witness of C05_accept_plain_zero_time_refuted is replayed against the reference here)
    try:
        ci = [c.name for c in matrix.classes].index("KPlain")
        for f in matrix.classes[ci].fields:
            if f.card == "plain" and f.group is None and f.elem.kind in ("datetime", "timedelta"):
                key = C.camel_case(f.name)
                text = json.dumps({key: "1970-01-01T00:00:00Z" if f.elem.kind == "datetime" else "0s"})
                r = rs_matrix.parse(ci, text)
                ref_bytes = r.SerializeToString()
                m2 = matrix.classes[ci].py().from_json(text)
                ctx.count("k33_witness_replayed")
                if bytes(m2) != ref_bytes:
                    ctx.fail("oracle", f"the reference reads {text} as a message in which the field is present ({ref_bytes.hex()}), "
                             f"betterproto reads it as the empty message ({bytes(m2).hex() or 'no bytes'}, to_json {m2.to_json()})",
                             cls=CLS_PLAIN_ZERO_TIME, input={"class": "KPlain", "field": f.name, "json": text})
    except Exception as e:  # noqa
        ctx.fail("oracle", f"K33 witness could not be replayed: {e!r}", cls=None, input={"witness": "K33"})

    # ---------------------------------------------------------------- 2. messages: matrix schema + random schemas
    schemas = [(matrix, rs_matrix)]
    for _ in range(6 if not ctx.thorough else 40):
        s = msggen.random_schema(rng)
        try:
            schemas.append((s, R.RefSchema(s)))
        except Exception as e:  # noqa: the reference cannot express this schema
            ctx.count("schema_not_expressible:" + type(e).__name__)
            s.dispose()
    n_matrix = 1500 if not ctx.thorough else 12000
    n_rand = 150 if not ctx.thorough else 600
    t3_cases = []
    for si, (s, rs) in enumerate(schemas):
        env = Env(s, rs, R)
        if not s.classes:
            continue
        for it in range(n_matrix if si == 0 else n_rand):
            ci = rng.randrange(len(s.classes))
            try:
                m = msggen.gen_message(s, ci, rng, in_range=True)
                try:
                    lit = msggen.obj_literal(s, m)      # BEFORE any observer: to_json materialises lazy defaults
                    if not float32_clean(s, ci, m):
                        # a `float` field holding a double that is not a binary32 value: outside in_range (the oracle
                        # compares such fields after rounding to binary32, the theorems are about exact values)
                        lit = None
                        ctx.count("t4_object_outside_in_range:float32")
                except Exception:  # noqa: not expressible as a model literal (e.g. a lone surrogate)
                    lit = None
                a = R.abs_bp(s, ci, m)
            except Exception as e:  # noqa: constructing the value failed - not this property's business
                ctx.count("construct_error:" + type(e).__name__)
                continue
            # tie of the harness itself: the reference message built from a denotes a
            try:
                back = rs.abs(ci, rs.build(ci, a))
            except Exception as e:  # noqa
                ctx.fail("corr", f"reference message cannot be built from the abstract value: {e!r}", input=repr(a)[:2000],
                         theorem_or_correspondence="harness: abstract value <-> google.protobuf message")
                continue
            if back != a:
                ctx.fail("corr", "reference message built from the abstract value reads back differently",
                         input=repr(a)[:2000], observed=repr(back)[:2000],
                         theorem_or_correspondence="harness: abstract value <-> google.protobuf message")
                continue
            nontrivial = any(is_set(f, v) for f, v in zip(s.classes[ci].fields, a[2]))
            if nontrivial:
                ctx.seen_nontrivial((si, ci, repr(a)))
            for f, v in zip(s.classes[ci].fields, a[2]):
                if is_set(f, v):
                    ctx.count(f"set:{'oneof' if f.group is not None else f.card}:{f.elem.pt if f.elem.kind == 'scalar' else f.elem.kind}")
            examine(ctx, env, ci, a, m, f"schema{si}")
            if len(ctx.cov["samples"]) < 6 and nontrivial:
                ctx.sample({"class": s.classes[ci].name, "betterproto_json": safe(lambda: m.to_json())[:300],
                            "reference_json": safe(lambda: rs.to_json(ci, rs.build(ci, a)))[:300]})
            if ctx.thorough or (it % 4 == 0 if si == 0 else it < 25):
                # an object whose constructor was handed two members of one group keeps the loser's value in its raw state, where
                # emit_good's in_range sees it and the abstraction does not - the literal is kept for abs_obj only
                t3_cases.append((si, ci, a, lit if lit is None or not stale_member(m) else ("STALE", lit)))

    # ---------------------------------------------------------------- 3. key mapping: one-field classes per proto field name
    names = gen_names(ctx)
    run_names(ctx, R, C, names)

    # ---------------------------------------------------------------- 4. T3 / T2 inside Coq
    if ctx.build_ok:
        run_coq(ctx, R, C, schemas, t3_cases, names)
        run_t4(ctx, schemas, t3_cases)
    for s, _ in schemas:
        s.dispose()
    # ---------------------------------------------------------------- 5. T5: the descriptor side (generated classes)
    try:
        run_t5(ctx)
    except Exception as e:  # noqa
        ctx.fail("corr", f"T5 (descriptor side) crashed: {e!r}", no_input=True,
                 theorem_or_correspondence="T5 Model/C05Desc.v <-> google.protobuf descriptor pool")


def run_names(ctx, R, C, names):
    """(a) (b) (c) on one-field messages whose PROTO field name is `name` and whose Python attribute is what the plugin
    generates for it (pythonize_field_name = safe_snake_case)."""
    from ..msggen import Cls, Field, Schema, scalar
    chunk = 150
    for start in range(0, len(names), chunk):
        part = names[start:start + chunk]
        classes, proto_names = [], {}
        for i, name in enumerate(part):
            py = C.safe_snake_case(name)
            classes.append(Cls(f"N{i}", [Field(py, 1, "plain", scalar("int32"))]))
            proto_names[(i, py)] = name
        try:
            s = Schema(classes, [])
            rs = R.RefSchema(s, proto_names)
        except Exception as e:  # noqa
            ctx.fail("oracle", f"one-field classes for proto names cannot be built: {e!r}", cls=None, input=part[:20])
            continue
        env = Env(s, rs, R)
        for i, name in enumerate(part):
            a = ("msg", i, [("i", 7)])
            ctx.count("names_safe" if json_name_safe(name) else "names_outside_side_condition")
            ctx.seen_nontrivial(("name", name))
            try:
                m = build_bp(s, i, a)
            except Exception as e:  # noqa
                ctx.count("name_class_unusable:" + type(e).__name__)
                continue
            examine(ctx, env, i, a, m, f"name:{name}", proto_name=name)
        s.dispose()


# ==========================================================================================
# T3 / T2: the specification evaluated inside Coq
# ==========================================================================================
SK = {"double": "KDouble", "float": "KFloat", "int32": "KInt32", "int64": "KInt64", "uint32": "KUInt32", "uint64": "KUInt64",
      "sint32": "KSInt32", "sint64": "KSInt64", "fixed32": "KFixed32", "fixed64": "KFixed64", "sfixed32": "KSFixed32",
      "sfixed64": "KSFixed64", "bool": "KBool", "string": "KString", "bytes": "KBytes"}
NAN_BITS = 0x7FF8000000000000


def qs(s):
    return coq_bytes(s.encode("utf-8"))


def has_presence(f):
    return f.card in ("optional", "wrapper") or f.group is not None or f.elem.kind in ("msg", "datetime", "timedelta")


def coq_jschema(s, rs):
    cls = []
    for ci, c in enumerate(s.classes):
        fl = []
        for f in c.fields:
            pname = rs.pname(ci, f)
            jname = rs.cls[ci].DESCRIPTOR.fields_by_name[pname].json_name     # what the descriptor pool holds
            if f.card == "wrapper":
                kind = f"(JWrapper {SK[f.elem.pt]})"
            elif f.elem.kind == "scalar":
                kind = f"(JScalar {SK[f.elem.pt]})"
            elif f.elem.kind == "enum":
                kind = f"(JEnum {f.elem.ref}%nat)"
            elif f.elem.kind == "msg":
                kind = f"(JMsg {f.elem.ref}%nat)"
            else:
                kind = "JTimestamp" if f.elem.kind == "datetime" else "JDuration"
            card = ("Repeated" if f.card == "repeated" else f"(MapOf {SK[f.key.pt]})" if f.card == "map"
                    else "Explicit" if has_presence(f) else "Implicit")
            # the id of the real oneof: json_accepts only compares ids for equality, so any injective numbering denotes the
            # same descriptor; the runtime schema's group index is used so that js_matches (Proofs/C05MsgDef.v) can ask
            # for jf_oneof = fgroup literally
            grp = "None" if f.group is None else f"(Some {f.group}%nat)"
            fl.append(f"(mkJF {qs(pname)} {qs(jname)} {kind} {card} {grp})")
        cls.append("[" + ";\n    ".join(fl) + "]")
    en = ["[" + "; ".join(f"({qs(n)}, ({v})%Z)" for n, v in members) + "]" for members in s.enums]
    return "(mkJS [" + ";\n  ".join(cls) + "] [" + "; ".join(en) + "])"


def coq_leaf(x):
    t = x[0]
    if t == "i":
        return f"(AInt ({x[1]}))"
    if t == "b":
        return f"(ABool {'true' if x[1] else 'false'})"
    if t == "f":
        return f"(AFloat ({NAN_BITS if x[1] == 'nan' else x[1]}))"
    if t == "s":
        return f"(AStr {qs(x[1])})"
    if t == "y":
        return f"(ABytes {coq_bytes(x[1])})"
    if t == "e":
        return f"(AEnum ({x[1]}))"
    if t == "ts":
        return f"(ATime ({x[1]}) ({x[2]}))"
    if t == "du":
        return f"(ADur ({x[1]}) ({x[2]}))"
    raise ValueError(x)


def key_text(k):
    return ("true" if k[1] else "false") if k[0] == "b" else k[1] if k[0] == "s" else str(k[1])


def sorted_entries(v):
    return sorted(v["map"], key=lambda kv: key_text(kv[0]).encode("utf-8"))


def coq_aval(s, a):
    c = s.classes[a[1]]
    out = []
    for f, v in zip(c.fields, a[2]):
        one = (lambda x: coq_aval(s, x)) if f.elem.kind == "msg" and f.card != "wrapper" else coq_leaf
        if f.card == "repeated":
            out.append("(FRep [" + "; ".join(one(x) for x in v) + "])")
        elif f.card == "map":
            out.append("(FMap [" + "; ".join(f"({coq_leaf(k)}, {one(x)})" for k, x in sorted_entries(v)) + "])")
        elif v is None:
            out.append("FAbsent")
        else:
            out.append(f"(FOne {one(v)})")
    return "(AMsg [" + "; ".join(out) + "])"


def cv_leaf(x):
    t = x[0]
    if t == "i":
        return cl([cz(0), cz(x[1])])
    if t == "b":
        return cl([cz(1), lib.cbool(x[1])])
    if t == "f":
        return cl([cz(2), cz(NAN_BITS if x[1] == "nan" or (x[1] >> 52) & 2047 == 2047 and x[1] & ((1 << 52) - 1) else x[1])])
    if t == "s":
        return cl([cz(3), cb(x[1].encode("utf-8"))])
    if t == "y":
        return cl([cz(4), cb(x[1])])
    if t == "e":
        return cl([cz(5), cz(x[1])])
    if t == "ts":
        return cl([cz(6), cz(x[1]), cz(x[2])])
    if t == "du":
        return cl([cz(7), cz(x[1]), cz(x[2])])
    raise ValueError(x)


def cv_aval(s, a):
    c = s.classes[a[1]]
    out = [cz(8)]
    for f, v in zip(c.fields, a[2]):
        one = (lambda x: cv_aval(s, x)) if f.elem.kind == "msg" and f.card != "wrapper" else cv_leaf
        if f.card == "repeated":
            out.append(cl([cz(1)] + [one(x) for x in v]))
        elif f.card == "map":
            out.append(cl([cz(2)] + [cl([cv_leaf(k), one(x)]) for k, x in sorted_entries(v)]))
        elif v is None:
            out.append(CN)
        else:
            out.append(cl([cz(0), one(v)]))
    return cl(out)


def coq_json(j):
    """Gallina literal of a parsed JSON text; object members sorted by key bytes (member order means nothing to a parser)"""
    if j is None:
        return "JNull"
    if isinstance(j, bool):
        return f"(JBool {'true' if j else 'false'})"
    if isinstance(j, int):
        return f"(JNum ({j}))"
    if isinstance(j, float):
        return f"(JFloat ({msggen.f64_bits(j)}))"
    if isinstance(j, str):
        return f"(JStr {qs(j)})"
    if isinstance(j, list):
        return "(JArr [" + "; ".join(coq_json(x) for x in j) + "])"
    items = sorted(j.items(), key=lambda kv: kv[0].encode("utf-8"))
    return "(JObj [" + "; ".join(f"({qs(k)}, {coq_json(v)})" for k, v in items) + "])"


def has_surrogate(j):
    if isinstance(j, str):
        try:
            j.encode("utf-8")
            return False
        except UnicodeEncodeError:
            return True
    if isinstance(j, list):
        return any(has_surrogate(x) for x in j)
    if isinstance(j, dict):
        return any(has_surrogate(k) or has_surrogate(v) for k, v in j.items())
    return False


def cvj_generic(x):
    if x is None:
        return CN
    if isinstance(x, bool):
        return cl([cz(0), lib.cbool(x)])
    if isinstance(x, int):
        return cl([cz(1), cz(x)])
    if isinstance(x, float):
        return cl([cz(2), cz(msggen.f64_bits(x))])
    if isinstance(x, str):
        return cb(x.encode("utf-8"))
    if isinstance(x, list):
        return cl([cz(3)] + [cvj_generic(y) for y in x])
    return cl([cz(4)] + [cl([cb(k.encode("utf-8")), cvj_generic(v)]) for k, v in sorted(x.items(), key=lambda kv: kv[0].encode("utf-8"))])


def cvj_msg(env, ci, j):
    """canonical value of the reference's JSON for class ci: numbers of float/double fields as binary64 patterns at field precision"""
    c = env.s.classes[ci]
    by_key = {env.rs.cls[ci].DESCRIPTOR.fields_by_name[env.rs.pname(ci, f)].json_name: f for f in c.fields}
    out = []
    for k, v in sorted(j.items(), key=lambda kv: kv[0].encode("utf-8")):
        f = by_key[k]

        def one(x, f=f):
            if f.elem.kind == "msg" and f.card != "wrapper":
                return cvj_msg(env, f.elem.ref, x)
            if f.elem.kind == "scalar" and f.elem.pt in ("float", "double") and isinstance(x, (int, float)) and not isinstance(x, bool):
                x = float(x)
                if f.elem.pt == "float":
                    x = struct.unpack("<f", struct.pack("<f", x))[0]
                return cl([cz(2), cz(msggen.f64_bits(x))])
            return cvj_generic(x)
        if f.card == "repeated":
            val = cl([cz(3)] + [one(x) for x in v])
        elif f.card == "map":
            val = cl([cz(4)] + [cl([cb(kk.encode("utf-8")), one(x)]) for kk, x in sorted(v.items(), key=lambda kv: kv[0].encode("utf-8"))])
        else:
            val = one(v)
        out.append(cl([cb(k.encode("utf-8")), val]))
    return cl([cz(4)] + out)


def urlsafe_nopad(s):
    return s.replace("+", "-").replace("/", "_").rstrip("=")


def mutate(env, ci, j, rng, legal):
    """one schema-aware change of a reference JSON object: a legal variant the parser must take, or an illegal one it must reject"""
    c = env.s.classes[ci]
    by_key = {env.R.protoc_json_name(env.rs.pname(ci, f)): f for f in c.fields}
    keys = [k for k in j if k in by_key]
    if not keys:
        if legal:
            return dict(j)
        return {**j, "zzNoSuchField": 1}
    k = rng.choice(keys)
    f = by_key[k]
    v = j[k]
    out = dict(j)
    kind = f.elem.pt if f.elem.kind == "scalar" or f.card == "wrapper" else f.elem.kind

    def leaf(x):
        if kind == "msg":
            return mutate(env, f.elem.ref, x, rng, legal)
        if legal:
            if kind in INT_RANGE_KINDS:
                return str(x) if isinstance(x, int) else int(x)
            if kind == "enum":
                members = env.s.enums[f.elem.ref]
                if isinstance(x, str):
                    return rng.choice([dict(members)[x], str(dict(members)[x])])
                return str(x)
            if kind == "bytes":
                return urlsafe_nopad(x)
            if kind == "datetime":
                return x[:-1] + rng.choice(["+00:00", "-00:00"])
            if kind == "timedelta":
                ip, _, fp = x[:-1].partition(".")
                return f"{ip}.{fp.ljust(9, '0')}s"
            if kind in ("float", "double") and isinstance(x, float) and x == int(x) and abs(x) < 2 ** 53 and str(x) != "-0.0":
                return int(x)
            return x
        # illegal
        if kind in INT_RANGE_KINDS:
            return (int(x) + (1 << 64)) if rng.random() < 0.5 else "12x"
        if kind == "enum":
            return rng.choice(["NO_SUCH_VALUE", "no_such", [1]])
        if kind == "bytes":
            return 5
        if kind == "datetime":
            return rng.choice([x[:-1], x.replace("T", " "), "0000-01-01T00:00:00Z", 5])
        if kind == "timedelta":
            return rng.choice([x[:-1], "s", "1,5s", 3])
        if kind in ("float", "double"):
            return rng.choice(["abc", "", [1.0], {"a": 1}])
        if kind == "bool":
            return rng.choice(["true", 1, 0])
        if kind == "string":
            return rng.choice([5, True, ["a"]])
        return x
    r = rng.random()
    if legal and r < 0.25:
        out.pop(k)
        out[env.rs.pname(ci, f)] = v                      # the original proto field name as key
        return {kk: out[kk] for kk in sorted(out)}
    if legal and r < 0.35:
        out[k] = None                                     # null: the field stays unset
        return out
    if not legal and r < 0.2:
        out["zzNoSuchField"] = 1
        return out
    if f.card == "repeated":
        out[k] = [leaf(x) for x in v] if legal or not v else [leaf(v[0])] + list(v[1:])
        if not legal and not v:
            out[k] = 5
    elif f.card == "map":
        if not v:
            out[k] = {} if legal else [1]
        else:
            kk = rng.choice(sorted(v))
            out[k] = {**v, kk: leaf(v[kk])}
    else:
        out[k] = leaf(v)
    return out


INT_RANGE_KINDS = ("int32", "int64", "uint32", "uint64", "sint32", "sint64", "fixed32", "fixed64", "sfixed32", "sfixed64")


def run_coq(ctx, R, C, schemas, t3_cases, names):
    rng = ctx.rng
    prelude = "\n".join(f"Definition js{i} : jschema := {coq_jschema(s, rs)}." for i, (s, rs) in enumerate(schemas))
    pairs, meta = [], []

    def add(model, expected, what, detail):
        pairs.append((model, expected))
        meta.append((what, detail))

    def expected_of_parse(env, ci, text):
        try:
            r = env.rs.parse(ci, text)
        except Exception as e:  # noqa
            if "Float value too large" in str(e) or "Float value too small" in str(e):
                # quirk of the Python reference: it compares the binary64 value with FLT_MAX before rounding, so it rejects
                # "3.4028235e+38", the text it prints itself for the largest float32 (the C++ parser rounds first)
                return "quirk", None
            return CN, None
        a = env.rs.abs(ci, r)
        return cv_aval(env.s, a), a

    for si, ci, a, _lit in t3_cases:
        s, rs = schemas[si]
        env = Env(s, rs, R)
        r = rs.build(ci, a)
        ref_text = rs.to_json(ci, r)
        ref_j = json.loads(ref_text)
        lit = coq_aval(s, a)
        # json_spec a = what the reference prints
        add(f"copt cv_of_json (json_spec js{si} {ci}%nat {lit})", cvj_msg(env, ci, ref_j), "json_spec vs MessageToJson",
            {"schema": si, "class": s.classes[ci].name, "abstract": repr(a)[:1500], "reference_json": ref_text[:1500]})
        # json_accepts on texts: expectation = what Parse makes of the very same text
        texts = [("reference output", ref_text)]
        for kw in ({"preserving_proto_field_name": True}, {"always_print_fields_with_no_presence": True},
                   {"use_integers_for_enums": True}):
            if rng.random() < 0.34:
                texts.append((f"reference output {kw}", rs.to_json(ci, r, **kw)))
        try:
            bp_text = build_bp(s, ci, a).to_json()
            texts.append(("betterproto output", bp_text))
        except Exception:  # noqa
            pass
        for legal in (True, False):
            if rng.random() < 0.6:
                try:
                    texts.append((f"{'legal' if legal else 'illegal'} variant", json.dumps(mutate(env, ci, ref_j, rng, legal))))
                except Exception as e:  # noqa
                    ctx.count("mutate_error:" + type(e).__name__)
        for what, text in texts:
            try:
                j = json.loads(text)
            except Exception:  # noqa
                continue
            if has_surrogate(j):
                ctx.count("t3_skipped_lone_surrogate")
                continue
            exp, _ = expected_of_parse(env, ci, text)
            if exp == "quirk":
                ctx.count("t3_skipped_reference_rejects_its_own_float_max")
                continue
            ctx.count("t3_accepts:" + ("rejected" if exp == CN else "accepted"))
            add(f"copt cv_of_aval (json_accepts js{si} {ci}%nat {coq_json(j)})", exp, f"json_accepts vs Parse ({what})",
                {"schema": si, "class": s.classes[ci].name, "text": text[:1500]})

    n_msg = len(pairs)
    # ---- names: protoc_json_name against the descriptor pool and real protoc; the casing model against the live functions
    protoc_names = real_protoc_json_names(ctx, names)
    from ..msggen import Cls, Field, Schema, scalar
    for start in range(0, len(names), 200):
        part = names[start:start + 200]
        sch = Schema([Cls(f"P{i}", [Field("v", 1, "plain", scalar("int32"))]) for i in range(len(part))], [])
        try:
            rs = R.RefSchema(sch, {(i, "v"): n for i, n in enumerate(part)}, explicit_json_name=False)
            pool_names = [rs.cls[i].DESCRIPTOR.fields_by_name[n].json_name for i, n in enumerate(part)]
        except Exception as e:  # noqa
            ctx.fail("corr", f"descriptor pool refuses one-field messages for names: {e!r}", input=part[:10],
                     theorem_or_correspondence="T3 protoc_json_name")
            pool_names = [None] * len(part)
        sch.dispose()
        for n, pn in zip(part, pool_names):
            if pn is not None:
                add(f"CB (protoc_json_name {qs(n)})", cb(pn.encode()), "protoc_json_name vs descriptor pool", n)
            if n in protoc_names:
                add(f"CB (protoc_json_name {qs(n)})", cb(protoc_names[n].encode()), "protoc_json_name vs protoc", n)
            live = C.camel_case(C.safe_snake_case(n)).rstrip("_")
            add(f"CL [CB (bp_json_key {qs(n)}); cbool (json_name_safe {qs(n)})]",
                cl([cb(live.encode()), lib.cbool(json_name_safe(n))]), "T2 casing model / side condition", n)
    ctx.cov["evaluations"] += len(pairs)
    try:
        bad = lib.coq_compare(ctx, "c05", IMPORTS + " Proofs.C05Casing", pairs, chunk=150, prelude=prelude)
    except RuntimeError as e:
        ctx.fail("corr", "the specification could not be evaluated inside Coq", no_input=True, observed=str(e)[-1500:],
                 theorem_or_correspondence="T3 Spec/JsonMap.v")
        return
    ctx.cov["disagreements_checked"] += len(pairs)
    ctx.count("t3_message_cases", n_msg)
    ctx.count("t3_name_cases", len(pairs) - n_msg)
    for i in bad[:12]:
        what, detail = meta[i]
        got = eval_with_prelude(ctx, prelude, pairs[i][0])
        is_t2 = what.startswith("T2")
        ctx.fail("corr", ("casing model and live casing functions disagree" if is_t2 else
                          "BROKEN SPEC: Spec/JsonMap.v disagrees with the reference implementation") + f" [{what}]",
                 input=detail, expected_reference=pairs[i][1][:3000], observed_spec=got[-3000:],
                 theorem_or_correspondence=("T2 Model/Casing.v" if is_t2 else "T3 Spec/JsonMap.v <-> google.protobuf.json_format"))



# ==========================================================================================
# T4: the definitions the message-level theorems C05_emit / C05_accept are stated with, on what the harness generates
#     (coq/Proofs/C05MsgDef.v js_matches / abs_obj / emit_good, coq/Proofs/C05AccDef.v wf_aval):
#       - every generated schema pair (runtime schema sc, descriptor-pool schema js) satisfies the schema hypotheses
#         wf_schema, js_matches, keys_ok CAMEL;
#       - abs_obj (the theorems' abstraction of a betterproto object) is the harness's abs_bp on every generated object;
#       - the value hypotheses emit_good / wf_aval hold exactly when the input is outside the known classes (K13, a Duration
#         a fraction of a second beyond the +-315 576 000 000 s of WellFormed.in_range, and for wf_aval a present epoch /
#         zero span in a plain Timestamp / Duration field).
#     So the theorems are not vacuous on the generated population and their vocabulary is the oracle's.
# ==========================================================================================
T4_IMPORTS = ("Model.Types Model.Object Model.WellFormed Spec.JsonMap Proofs.C04Def Proofs.C05Model Proofs.C05MsgDef "
              "Proofs.C05AccDef")


def walk_fields(schema, a):
    """(Field, value) of every field of an abstract message, at every depth"""
    c = schema.classes[a[1]]
    for f, v in zip(c.fields, a[2]):
        yield f, v
        if f.elem.kind == "msg" and f.card != "wrapper" and v is not None:
            subs = v if f.card == "repeated" else [x for _, x in v["map"]] if f.card == "map" else [v]
            for sub in subs:
                yield from walk_fields(schema, sub)


def float32_clean(schema, ci, m):
    """every `float` (binary32) field of the real object, at every depth, holds a binary32 value (or nan / inf)"""
    import betterproto as bp
    for f in schema.classes[ci].fields:
        raw = object.__getattribute__(m, f.name)
        if raw is bp.PLACEHOLDER or raw is None:
            continue
        vals = list(raw) if f.card == "repeated" else list(raw.values()) if f.card == "map" else [raw]
        for x in vals:
            if f.elem.kind == "msg" and f.card != "wrapper":
                if isinstance(x, bp.Message) and not float32_clean(schema, f.elem.ref, x):
                    return False
            elif f.elem.kind == "scalar" and f.elem.pt == "float" and isinstance(x, float):
                if x == x and x not in (float("inf"), float("-inf")):
                    try:
                        if struct.unpack("<f", struct.pack("<f", x))[0] != x:
                            return False
                    except OverflowError:
                        return False
    return True


def k13_anywhere(schema, a):
    return any(f.card == "plain" and f.group is None and f.elem.kind == "scalar" and f.elem.pt in ("float", "double")
               and v == ("f", 1 << 63) for f, v in walk_fields(schema, a))


def plain_zero_time_anywhere(schema, a):
    return any(f.card == "plain" and f.group is None and v in (("ts", 0, 0), ("du", 0, 0)) for f, v in walk_fields(schema, a))


def dur_beyond_model_range(schema, a):
    """a Duration whose span exceeds +-315 576 000 000 s by a fraction of a second: legal for the reference (seconds at the
    bound, nanos != 0) but outside WellFormed.in_range (the bound there is on the whole span, in microseconds)"""
    def us(v):
        return v[1] * 10**6 + (abs(v[2]) // 1000) * (1 if v[2] >= 0 else -1)
    lim = 315576000000 * 10**6
    for f, v in walk_fields(schema, a):
        if f.elem.kind != "timedelta" or v is None:
            continue
        vals = v if f.card == "repeated" else [x for _, x in v["map"]] if f.card == "map" else [v]
        if any(abs(us(x)) > lim for x in vals):
            return True
    return False


def stale_member(m):
    """some message inside m holds a value in a oneof member that its group does not select (two members given to the constructor)"""
    import betterproto as bp
    seen = []

    def walk(x):
        if isinstance(x, bp.Message):
            if any(x is y for y in seen):
                return False
            seen.append(x)
            cur = x.__dict__.get("_group_current", {})
            for name, meta in x._betterproto.meta_by_field_name.items():
                v = x.__dict__.get(name, bp.PLACEHOLDER)
                if meta.group and v is not bp.PLACEHOLDER and cur.get(meta.group) != name:
                    return True
                if walk(v):
                    return True
            return False
        if isinstance(x, (list, tuple)):
            return any(walk(y) for y in x)
        if isinstance(x, dict):
            return any(walk(y) for y in x.values())
        return False
    return walk(m)


def nan_payload(lit):
    """the object literal holds a NaN other than float("nan") (JSON has the one token "NaN": C04's cls nan-payload)"""
    for mt in re.finditer(r"PFloat \((\d+)\)", lit):
        b = int(mt.group(1))
        if (b >> 52) & 2047 == 2047 and b & ((1 << 52) - 1) and b != NAN_BITS:
            return True
    return False


def multi_entry_map(schema, a):
    return any(f.card == "map" and len(v["map"]) > 1 for f, v in walk_fields(schema, a))


def run_t4(ctx, schemas, t3_cases):
    prelude = "\n".join(f"Definition sc{i} : schema := {s.coq()}.\nDefinition js{i} : jschema := {coq_jschema(s, rs)}."
                        for i, (s, rs) in enumerate(schemas))
    pairs, meta = [], []
    yes = lib.cbool(True)
    for si, (s, rs) in enumerate(schemas):
        if not s.classes:
            continue
        pairs.append((f"CL [cbool (wf_schema sc{si}); cbool (js_matches {msggen.NBUILTIN}%nat sc{si} js{si}); "
                      f"cbool (keys_ok J.CAMEL sc{si})]", cl([yes, yes, yes])))
        meta.append(("schema hypotheses of C05_emit / C05_accept (wf_schema, js_matches, keys_ok)", {"schema": si, "classes": s.describe()}))
    for k, (si, ci, a, lit) in enumerate(t3_cases):
        if ctx.thorough and k % 6:
            continue                       # thorough tier: every sixth case is plenty for the definitions
        s, rs = schemas[si]
        k13 = k13_anywhere(s, a) or dur_beyond_model_range(s, a)
        detail = {"schema": si, "class": s.classes[ci].name, "abstract": repr(a)[:1500]}
        try:
            alit = coq_aval(s, a)
        except Exception:  # noqa: lone surrogates have no UTF-8 literal
            ctx.count("t4_skipped_unprintable")
            continue
        pairs.append((f"cbool (wf_aval sc{si} js{si} {msggen.NBUILTIN}%nat (JMsg {ci}%nat) {alit})",
                      lib.cbool(not k13 and not plain_zero_time_anywhere(s, a))))
        meta.append(("wf_aval (hypothesis of C05_accept) holds exactly outside K13 / plain-zero-time", detail))
        if lit is None:
            continue
        stale = isinstance(lit, tuple)
        if stale:
            lit = lit[1]
            ctx.count("t4_stale_oneof_member_objects")
        if not stale:      # (a stale value is invisible to the abstraction `a` the expectation is computed from, but in_range sees it)
            pairs.append((f"cbool (emit_good sc{si} {lit})", lib.cbool(not k13 and not nan_payload(lit))))
            meta.append(("emit_good (hypothesis of C05_emit) holds exactly outside K13 / NaN payloads", detail))
        if not multi_entry_map(s, a):      # abs_obj keeps dict order, the harness sorts entries
            pairs.append((f"cv_of_aval (abs_obj sc{si} {lit})", cv_aval(s, a)))
            meta.append(("abs_obj (Proofs/C05MsgDef.v) vs the harness's abstraction abs_bp", detail))
    ctx.cov["evaluations"] += len(pairs)
    try:
        bad = lib.coq_compare(ctx, "c05t4", T4_IMPORTS, pairs, chunk=60, prelude=prelude)
    except RuntimeError as e:
        ctx.fail("corr", "the definitions of the message-level theorems could not be evaluated inside Coq", no_input=True,
                 observed=str(e)[-1500:], theorem_or_correspondence="T4 Proofs/C05MsgDef.v / C05AccDef.v")
        return
    ctx.cov["disagreements_checked"] += len(pairs)
    ctx.count("t4_cases", len(pairs))
    for i in bad[:12]:
        what, detail = meta[i]
        ctx.fail("corr", f"T4: {what}: the Coq definition and the harness disagree", input=detail,
                 expected=pairs[i][1][:2000], model_expression=pairs[i][0][:3000],
                 theorem_or_correspondence="T4 Proofs/C05MsgDef.v / C05AccDef.v <-> harness/c05_reference.py")



# ==========================================================================================
# T5: the descriptor side - coq/Model/C05Desc.v jschema_of_descriptor / json_names_ok against google.protobuf's own
#     descriptor pool on descriptor sets real protoc emits; the witnesses of Proofs/C05DescWit.v against the real plugin
# ==========================================================================================
T5_IMPORTS = ("Spec.Descriptor Model.Plugin Proofs.PluginP Proofs.PluginWitP Model.Types Model.Object Model.WellFormed "
              "Model.C03Bridge Model.C03Chain Proofs.C03BridgeWit Model.C05Desc Proofs.C05MsgDef Proofs.C05DescWit")
_P3 = 'syntax = "proto3";\n'
# the .proto sources of the descriptors written out in coq/Proofs/C05DescWit.v
T5_WITNESS_SOURCES = {
    "D_k3json": _P3 + "package kj;\nmessage M { int32 HTTPStatus = 1; int32 a1b = 2; }\n",
    "D_enum_prefix": _P3 + "package ke;\nenum Color { COLOR_UNSPECIFIED = 0; COLOR_RED = 1; }\nmessage M { Color c = 1; }\n",
}
SCALARS15 = ["double", "float", "int32", "int64", "uint32", "uint64", "sint32", "sint64", "fixed32", "fixed64", "sfixed32",
             "sfixed64", "bool", "string", "bytes"]


def t5_clean_source():
    """two files / two packages with every field shape of the runtime model, lower_snake field names inside json_name_safe and
    enum value names the plugin leaves alone: every premise of C05_generated_js_matches holds (checked inside Coq)"""
    n = [0]

    def num():
        n[0] += 1
        return n[0]
    L = [_P3, "package vc.one;", 'import "google/protobuf/timestamp.proto";', 'import "google/protobuf/duration.proto";',
         'import "google/protobuf/wrappers.proto";', 'import "vc_two.proto";',
         "enum Mode { OFF = 0; ON = 1; NEG = -1; }", "message All {"]
    L.append("  message Leaf { All up = 1; enum Kind { KZERO = 0; KONE = 1; } Kind kind = 2; message Deep { Kind k = 1; } Deep deep = 3; }")
    for t in SCALARS15:
        L.append(f"  {t} p_{t} = {num()};")
    for t in SCALARS15:
        L.append(f"  optional {t} o_{t} = {num()};")
    for t in SCALARS15:
        L.append(f"  repeated {t} r_{t} = {num()};")
    L.append("  oneof pick {")
    for t in SCALARS15:
        L.append(f"    {t} w_{t} = {num()};")
    L.append(f"    Mode w_mode = {num()}; Leaf w_leaf = {num()}; google.protobuf.Timestamp w_ts = {num()}; "
             f"google.protobuf.Duration w_du = {num()};")
    L.append("  }")
    L.append(f"  map<string, Leaf> m_leaf = {num()}; map<int32, Mode> m_mode = {num()}; map<bool, google.protobuf.Timestamp> m_ts = {num()};")
    L.append(f"  map<sint64, bytes> m_bytes = {num()}; map<fixed32, double> m_double = {num()}; map<uint64, google.protobuf.Duration> m_du = {num()};")
    L.append(f"  Mode mode = {num()}; repeated Mode modes = {num()}; optional Mode o_mode = {num()};")
    L.append(f"  Leaf leaf = {num()}; repeated Leaf leaves = {num()}; optional Leaf o_leaf = {num()};")
    L.append(f"  google.protobuf.Timestamp ts = {num()}; google.protobuf.Duration du = {num()}; "
             f"repeated google.protobuf.Timestamp tss = {num()}; optional google.protobuf.Duration o_du = {num()};")
    for w in ("Double", "Float", "Int64", "UInt64", "Int32", "UInt32", "Bool", "String", "Bytes"):
        L.append(f"  google.protobuf.{w}Value v_{w.lower()} = {num()};")
    L.append(f"  vc.two.Other other = {num()}; vc.two.Other.Tag tag = {num()}; repeated vc.two.Other others = {num()};")
    L.append(f"  oneof second {{ string s_text = {num()}; Leaf.Deep s_deep = {num()}; vc.two.Other s_other = {num()}; }}")
    L.append("}")
    two = [_P3, "package vc.two;", "message Other { enum Tag { TNONE = 0; TSOME = 5; } Tag tag = 1; int64 big = 2; Other next = 3; }"]
    return {"vc_one.proto": "\n".join(L) + "\n", "vc_two.proto": "\n".join(two) + "\n"}


SKIND_TAG = {1: 0, 2: 1, 5: 2, 3: 3, 13: 4, 4: 5, 17: 6, 18: 7, 7: 8, 6: 9, 15: 10, 16: 11, 8: 12, 9: 13, 12: 14}
WRAPPER_TAG = {"google.protobuf.DoubleValue": 0, "google.protobuf.FloatValue": 1, "google.protobuf.Int32Value": 2,
               "google.protobuf.Int64Value": 3, "google.protobuf.UInt32Value": 4, "google.protobuf.UInt64Value": 5,
               "google.protobuf.BoolValue": 12, "google.protobuf.StringValue": 13, "google.protobuf.BytesValue": 14}
REAL_NAMING = "Casing.safe_snake_case Casing.pascal_case Casing.pythonize_enum_member_name"


def t5_generated(fds):
    """(messages, enums) of the generated packages in class-table order: packages by first appearance (google.protobuf is
    bundled, not generated), files in request order, declaration preorder; map-entry types are not classes.
    Entries: (package, path, proto)"""
    from . import c03 as C03
    msgs, enums = [], []
    for p in C03.out_packages(fds):
        for f in fds.file:
            if f.package != p:
                continue
            items = C03.walk_file(f)
            enums += [(p, path, obj) for kind, path, obj in items if kind == "enum" and len(path) == 1]
            enums += [(p, path, obj) for kind, path, obj in items if kind == "enum" and len(path) > 1]
            msgs += [(p, path, obj) for kind, path, obj in items if kind == "msg" and not obj.options.map_entry]
    return msgs, enums


def full_name(pkg, path):
    return (pkg + "." if pkg else "") + ".".join(path)


def pool_jschema(fds):
    """cv literal (Model/C05Desc.v cv_jschema) of the JSON schema google.protobuf's own DescriptorPool holds for the descriptor
    set: json_name, type, message / enum type, presence, containing oneof of every field are read from the POOL's descriptors;
    the raw protos give only the order of declaration and the proto3_optional flag (a synthetic oneof is not a oneof)."""
    from google.protobuf import descriptor_pool
    from google.protobuf.descriptor import FieldDescriptor as FD
    pool = descriptor_pool.DescriptorPool()
    for f in fds.file:
        pool.Add(f)
    msgs, enums = t5_generated(fds)
    midx, eidx = {}, {}
    for i, (p, path, _) in enumerate(msgs):
        midx.setdefault(full_name(p, path), i)
    for i, (p, path, _) in enumerate(enums):
        eidx.setdefault(full_name(p, path), i)

    def kind(fd):
        if fd.type in SKIND_TAG:
            return cl([cz(0), cz(SKIND_TAG[fd.type])])
        if fd.type == FD.TYPE_MESSAGE:
            fn = fd.message_type.full_name
            if fn in WRAPPER_TAG:
                return cl([cz(5), cz(WRAPPER_TAG[fn])])
            if fn == "google.protobuf.Timestamp":
                return cl([cz(3)])
            if fn == "google.protobuf.Duration":
                return cl([cz(4)])
            # a message / enum that is not generated (google.protobuf.Any, Struct, NullValue ...: outside bridge_ok) has no
            # position: jschema_of_descriptor writes index 0 there, and so does this reading
            return cl([cz(2), cz(midx.get(fn, 0))])
        if fd.type == FD.TYPE_ENUM:
            return cl([cz(1), cz(eidx.get(fd.enum_type.full_name, 0))])
        raise KeyError(fd.type)

    classes = []
    for p, path, proto in msgs:
        d = pool.FindMessageTypeByName(full_name(p, path))
        groups = []
        for fp in proto.field:
            fd = d.fields_by_name[fp.name]
            if fd.containing_oneof is not None and not fp.proto3_optional and fd.containing_oneof.name not in groups:
                groups.append(fd.containing_oneof.name)
        fl = []
        for fp in proto.field:
            fd = d.fields_by_name[fp.name]
            is_map = fd.type == FD.TYPE_MESSAGE and fd.message_type.GetOptions().map_entry
            if is_map:
                k = fd.message_type.fields_by_name["key"]
                v = fd.message_type.fields_by_name["value"]
                kd, card = kind(v), cl([cz(3), cz(SKIND_TAG[k.type])])
            else:
                kd = kind(fd)
                rep = fd.is_repeated if hasattr(fd, "is_repeated") else fd.label == FD.LABEL_REPEATED
                card = cl([cz(2)]) if rep else cl([cz(1)]) if fd.has_presence else cl([cz(0)])
            real = fd.containing_oneof is not None and not fp.proto3_optional and not is_map
            fl.append(cl([cb(fd.name.encode()), cb(fd.json_name.encode()), kd, card,
                          cz(groups.index(fd.containing_oneof.name)) if real else CN]))
        classes.append(cl(fl))
    en = []
    for p, path, proto in enums:
        d = pool.FindEnumTypeByName(full_name(p, path))
        en.append(cl([cl([cb(v.name.encode()), cz(v.number)]) for v in d.values]))
    return cl([cl(classes), cl(en)])


def py_json_names_ok(fds):
    """independent reading of Model/C05Desc.v json_names_ok with the REAL pythonize_enum_member_name"""
    from betterproto.compile import naming as N
    msgs, enums = t5_generated(fds)
    ok = True
    for p, path, m in msgs:
        names = [f.name for f in m.field]
        jn = [f.json_name for f in m.field]
        if not all(json_name_safe(n) for n in names) or len(set(jn)) != len(jn):
            ok = False
    for p, path, e in enums:
        vs = [v.name for v in e.value]
        flat = "".join("_" + x for x in path)
        if len(set(vs)) != len(vs) or any(v.startswith("__") for v in vs) or any(N.pythonize_enum_member_name(v, flat) != v for v in vs):
            ok = False
    return ok


def default_json_names(fds):
    """every json_name in the generated packages is protoc's default (the descriptor model has no json_name option)"""
    def to_json_name(n):
        out, cap = [], False
        for c in n:
            if c == "_":
                cap = True
            else:
                out.append(c.upper() if cap and "a" <= c <= "z" else c)
                cap = False
        return "".join(out)
    return all(f.json_name == to_json_name(f.name) for _, _, m in t5_generated(fds)[0] for f in m.field)


def t5_sources(ctx):
    """{label: {file name: .proto text}}"""
    from .. import c03_protogen as G
    from . import c03 as C03, c01 as C01
    out = {"D_ok": {"D_ok.proto": G.COQ_WITNESS_SOURCES["D_ok"]}}
    for nm, text in T5_WITNESS_SOURCES.items():
        out[nm] = {nm + ".proto": text}
    out["clean"] = t5_clean_source()
    for sc in G.systematic(0):
        out[sc.label] = dict(sc.files)
    gen = G.Gen(ctx.rng, C03.api_names(), depth=3 if not ctx.thorough else 5)
    for i in range(10 if not ctx.thorough else 150):
        sc = gen.schema(100 + i)
        out[f"random-{i}"] = dict(sc.files)
    bases = [msggen.matrix_schema()] + [msggen.random_schema(ctx.rng) for _ in range(3 if not ctx.thorough else 30)]
    for i, b0 in enumerate(bases):
        try:
            # as C03's stage F (c): fields in .proto order (members of a oneof contiguous), groups renumbered by first appearance
            classes = []
            for c in b0.classes:
                fs = C01.proto_order(c)
                order = []
                for f in fs:
                    if f.group is not None and f.group not in order:
                        order.append(f.group)
                classes.append(msggen.Cls(c.name, [msggen.Field(f.name, f.number, f.card, f.elem, key=f.key,
                                                                group=None if f.group is None else order.index(f.group))
                                                   for f in fs], len(order)))
            sc = msggen.Schema(classes, b0.enums)
            out[f"msggen-{i}"] = {f"vj{i}/schema.proto": C01.proto_text(sc, f"vj{i}")}
            sc.dispose()
        except Exception as e:  # noqa
            ctx.count("t5_msggen_not_printable:" + type(e).__name__)
        b0.dispose()
    return out


def run_t5(ctx):
    from .. import plugin_util as pu
    from . import c03 as C03
    sets = {}
    for label, files in t5_sources(ctx).items():
        try:
            sets[label] = pu.descriptor_set(ctx.work, files, name="t5_" + re.sub(r"\W", "_", label))
        except Exception as e:  # noqa
            if label in ("D_ok",) or label in T5_WITNESS_SOURCES:
                ctx.fail("corr", f"protoc rejects the source of Coq witness {label}: {e!r}", no_input=True,
                         theorem_or_correspondence="witness descriptors of Proofs/C05DescWit.v")
            else:
                ctx.count("t5_protoc_rejected")
    prelude, pairs, meta = [], [], []
    yes = lib.cbool(True)
    for k, (label, fds) in enumerate(sets.items()):
        prelude.append(f"Definition D{k} : descriptor := {C03.g_descriptor(fds)}.")
        if label == "D_ok" or label in T5_WITNESS_SOURCES:
            # the Gallina literal in Proofs/*.v is what protoc emits for the quoted source today
            pairs.append((f"cv_opt_table (class_table_of w_field_name w_class_name w_member_name {label})",
                          f"cv_opt_table (class_table_of w_field_name w_class_name w_member_name D{k})"))
            meta.append(("witness descriptor literal = protoc's output (class table)", label))
            pairs.append((f"cv_jschema (jschema_of_descriptor {label})", f"cv_jschema (jschema_of_descriptor D{k})"))
            meta.append(("witness descriptor literal = protoc's output (JSON schema)", label))
        proto3 = all(f.syntax == "proto3" for f in fds.file if f.package != "google.protobuf")
        if not (proto3 and default_json_names(fds)):
            # outside the descriptor model's reading: proto2 presence, an explicit [json_name = ...]
            ctx.count("t5_outside_model:" + ("proto2" if not proto3 else "explicit json_name"))
            continue
        try:
            ctx.count("t5_bridge_ok" if C03.py_bridge(fds)[0] else "t5_bridge_not_ok")
        except Exception:  # noqa
            pass
        try:
            exp = pool_jschema(fds)
        except Exception as e:  # noqa
            ctx.count("t5_pool_unreadable:" + type(e).__name__)
            continue
        ctx.count("t5_descriptor_sets")
        ctx.seen_nontrivial(("t5", exp))
        pairs.append((f"cv_jschema (jschema_of_descriptor D{k})", exp))
        meta.append(("jschema_of_descriptor vs google.protobuf's descriptor pool", label))
        jn = py_json_names_ok(fds)
        ctx.count("t5_json_names_ok" if jn else "t5_json_names_not_ok")
        pairs.append((f"cbool (json_names_ok Casing.pythonize_enum_member_name D{k})", lib.cbool(jn)))
        meta.append(("json_names_ok vs the harness's reading with the real naming functions", label))
        if label in ("D_ok", "clean"):
            # non-vacuity: every premise of C05_generated_js_matches holds here
            pairs.append((f"cbool (protoc_wf D{k} && names_ok {REAL_NAMING} D{k} && bridge_ok D{k} "
                          f"&& json_names_ok Casing.pythonize_enum_member_name D{k} && gen_keys_ok Json.CAMEL Casing.safe_snake_case D{k})", yes))
            meta.append(("the premises of C05_generated_js_matches / _emit / _accept hold (non-vacuity)", label))
        pairs.append((f"cbool (implb (protoc_wf D{k} && names_ok {REAL_NAMING} D{k} && bridge_ok D{k} "
                      f"&& json_names_ok Casing.pythonize_enum_member_name D{k}) "
                      f"(match class_table_of {REAL_NAMING} D{k} with "
                      f"Some t => js_matches NB (schema_of_table t) (jschema_of_descriptor D{k}) | None => false end))", yes))
        meta.append(("instance of C05_generated_js_matches", label))
    ctx.cov["evaluations"] += len(pairs)
    try:
        bad = lib.coq_compare(ctx, "c05t5", T5_IMPORTS, pairs, chunk=12, prelude="\n".join(prelude))
    except RuntimeError as e:
        ctx.fail("corr", "the descriptor-side definitions could not be evaluated inside Coq", no_input=True,
                 observed=str(e)[-1500:], theorem_or_correspondence="T5 Model/C05Desc.v")
        bad = []
    ctx.cov["disagreements_checked"] += len(pairs)
    ctx.count("t5_cases", len(pairs))
    for i in bad[:12]:
        what, label = meta[i]
        ctx.fail("corr", f"T5: {what}: Coq and the harness disagree", input={"source": label},
                 expected=pairs[i][1][:3000], model_expression=pairs[i][0][:300],
                 theorem_or_correspondence="T5 Model/C05Desc.v <-> google.protobuf descriptor pool / real naming functions")
    t5_replay(ctx, sets)


T5_REPLAY = r"""
import json, sys
from datetime import datetime, timezone, timedelta
from google.protobuf import descriptor_pb2, descriptor_pool, message_factory, json_format
fds = descriptor_pb2.FileDescriptorSet(); fds.ParseFromString(open(DS, "rb").read())
pool = descriptor_pool.DescriptorPool()
for f in fds.file: pool.Add(f)
def ref(name): return message_factory.GetMessageClass(pool.FindMessageTypeByName(name))
out = {}
def both(tag, m, ref_json, R):
    # the intended message is described TWICE, independently: as constructor arguments of the generated class and as the
    # canonical JSON text the reference reads
    r = json_format.Parse(json.dumps(ref_json), R())
    o = {"betterproto_json": m.to_json(), "reference_json": json_format.MessageToJson(r, indent=None)}
    rb = R(); rb.ParseFromString(bytes(m))
    o["wire"] = "same" if rb == r else "the two descriptions of the value differ on the wire: " + json_format.MessageToJson(rb, indent=None)[:300]
    try:
        back = json_format.Parse(o["betterproto_json"], R())
        o["emit"] = "same" if back == r else "different message"
    except Exception as e:
        o["emit"] = "rejected: " + str(e)[:200]
    try:
        m2 = type(m)().from_json(o["reference_json"])
        r2 = R(); r2.ParseFromString(bytes(m2))
        o["accept"] = "same" if r2 == r else "different message: " + m2.to_json()[:300]
    except Exception as e:
        o["accept"] = "raised " + type(e).__name__ + ": " + str(e)[:200]
    out[tag] = o
if WHICH == "D_k3json":
    from g_t5_D_k3json.kj import M
    both("k3", M(http_status=7), {"HTTPStatus": 7}, ref("kj.M"))
elif WHICH == "D_enum_prefix":
    import g_t5_D_enum_prefix.ke as mod
    both("enum", mod.M(c=mod.Color(1)), {"c": "COLOR_RED"}, ref("ke.M"))
elif WHICH == "clean":
    import g_t5_clean.vc.one as mod
    import g_t5_clean.vc.two as two
    R = ref("vc.one.All")
    leaf = mod.AllLeaf(kind=mod.AllLeafKind(1), deep=mod.AllLeafDeep(k=mod.AllLeafKind(1)))
    LEAF = {"kind": "KONE", "deep": {"k": "KONE"}}
    vals = [(mod.All(), {}),
            (mod.All(p_int64=-5, p_uint64=2**64 - 1, p_bytes=b"\x00\xff", p_string="é", o_int32=0, o_bool=False, r_double=[1.5, float("inf")],
                     r_sfixed64=[-2**63], w_leaf=leaf, m_leaf={"a": leaf}, m_mode={3: mod.Mode(-1)},
                     m_ts={True: datetime(2001, 2, 3, 4, 5, 6, 7000, tzinfo=timezone.utc)}, m_bytes={-1: b"ab"}, m_du={7: timedelta(seconds=-3, microseconds=5)},
                     mode=mod.Mode(1), modes=[mod.Mode(0), mod.Mode(-1)], o_mode=mod.Mode(0), leaf=leaf, leaves=[leaf, mod.AllLeaf()],
                     ts=datetime(1999, 12, 31, 23, 59, 59, tzinfo=timezone.utc), du=timedelta(days=2, microseconds=1), v_bool=False, v_string="",
                     v_int64=-(2**63), v_bytes=b"", other=two.Other(tag=two.OtherTag(5), big=2**62, next=two.Other(big=1)),
                     tag=two.OtherTag(5), s_deep=mod.AllLeafDeep(k=mod.AllLeafKind(1))),
             {"pInt64": "-5", "pUint64": "18446744073709551615", "pBytes": "AP8=", "pString": "é", "oInt32": 0, "oBool": False,
              "rDouble": [1.5, "Infinity"], "rSfixed64": ["-9223372036854775808"], "wLeaf": LEAF, "mLeaf": {"a": LEAF}, "mMode": {"3": "NEG"},
              "mTs": {"true": "2001-02-03T04:05:06.007Z"}, "mBytes": {"-1": "YWI="}, "mDu": {"7": "-2.999995s"}, "mode": "ON",
              "modes": ["OFF", "NEG"], "oMode": "OFF", "leaf": LEAF, "leaves": [LEAF, {}], "ts": "1999-12-31T23:59:59Z",
              "du": "172800.000001s", "vBool": False, "vString": "", "vInt64": "-9223372036854775808", "vBytes": "",
              "other": {"tag": "TSOME", "big": "4611686018427387904", "next": {"big": "1"}}, "tag": "TSOME", "sDeep": {"k": "KONE"}}),
            (mod.All(w_uint64=0, s_text="", o_leaf=mod.AllLeaf(), o_du=timedelta(0), tss=[datetime(1970, 1, 1, tzinfo=timezone.utc)]),
             {"wUint64": "0", "sText": "", "oLeaf": {}, "oDu": "0s", "tss": ["1970-01-01T00:00:00Z"]})]
    for i, (m, j) in enumerate(vals):
        both("clean%d" % i, m, j, R)
else:
    import g_t5_D_ok.p.q as mod
    inner = mod.OuterInner(k=mod.OuterInnerKind(0))
    m = mod.Outer(by_name={"k": inner}, c=mod.Color(-1), od=1.5, rs=[mod.OuterInner(), mod.OuterInner()],
                  ts=datetime(1970, 1, 1, 0, 0, 1, 500000, tzinfo=timezone.utc), bv=True, colors={5: mod.Color(-1)})
    both("ok", m, {"byName": {"k": {}}, "c": "NEG", "od": 1.5, "rs": [{}, {}], "ts": "1970-01-01T00:00:01.500Z", "bv": True,
                   "colors": {"5": "NEG"}}, ref("p.q.Outer"))
print("T5RESULT" + json.dumps(out))
"""


def t5_replay(ctx, sets):
    """C05_generated_json_names_refuted, C05_generated_enum_prefix_refuted and the non-vacuity instance on the classes the REAL
    plugin generates, judged by google.protobuf.json_format"""
    from .. import plugin_util as pu
    from .. import c03_protogen as G
    srcs = {nm: {nm + ".proto": text} for nm, text in T5_WITNESS_SOURCES.items()}
    srcs["D_ok"] = {"D_ok.proto": G.COQ_WITNESS_SOURCES["D_ok"]}
    srcs["clean"] = t5_clean_source()
    for nm, files in srcs.items():
        if nm not in sets:
            continue
        try:
            rc, out, _ = pu.generate(ctx.work, files, "g_t5_" + nm)
            if rc != 0:
                raise RuntimeError(out[-500:])
            ds = os.path.join(ctx.work, "t5_" + nm + ".pb")
            rc, out = pu.run_in_subprocess(ctx.work, f"DS = {ds!r}\nWHICH = {nm!r}\n" + T5_REPLAY)
            line = [l for l in out.splitlines() if l.startswith("T5RESULT")]
            if rc != 0 or not line:
                raise RuntimeError(out[-800:])
            res = json.loads(line[0][len("T5RESULT"):])
        except Exception as e:  # noqa
            ctx.fail("oracle", f"T5 witness {nm} could not be replayed against the real plugin: {e!r}", cls=None, input={"witness": nm})
            continue
        ctx.count("t5_witness_replayed")
        for tag, o in res.items():
            cls = {"k3": CLS_CASING, "enum": CLS_ENUM_PREFIX}.get(tag)
            for direction in ("wire", "emit", "accept"):
                if o[direction] != "same":
                    ctx.fail("oracle", f"generated classes of {nm}: {direction}: {o[direction]} "
                             f"(betterproto {o['betterproto_json']}, reference {o['reference_json']})",
                             cls=cls, input={"witness": nm, "proto": srcs[nm], "direction": direction, **o})
                else:
                    ctx.count(f"t5_generated_{direction}_same")


def eval_with_prelude(ctx, prelude, expr):
    path = os.path.join(ctx.work, f"c05eval_{abs(hash(expr)) % 10**9}.v")
    with open(path, "w") as f:
        f.write(f"From BP Require Import Base.Prelude {IMPORTS} Proofs.C05Casing.\n{prelude}\nEval vm_compute in ({expr}).\n")
    rc, out = lib.run(["coqc", "-Q", lib.COQ, "BP", path], timeout=600)
    return out.strip()[-3000:]


def real_protoc_json_names(ctx, names):
    """json_name as real protoc (grpc_tools) writes it into a descriptor set; {} if protoc is unusable"""
    try:
        from grpc_tools import protoc
        from google.protobuf import descriptor_pb2
        path = os.path.join(ctx.work, "c05names.proto")
        with open(path, "w") as f:
            f.write('syntax = "proto3";\npackage c05names;\n')
            for i, n in enumerate(names):
                f.write(f"message P{i} {{ int32 {n} = 1; }}\n")
        out = os.path.join(ctx.work, "c05names.ds")
        rc = protoc.main(["protoc", f"-I{ctx.work}", f"--descriptor_set_out={out}", path])
        if rc != 0:
            ctx.notes.append("protoc rejected the names file; json_name compared with the descriptor pool only")
            return {}
        ds = descriptor_pb2.FileDescriptorSet.FromString(open(out, "rb").read())
        return {m.field[0].name: m.field[0].json_name for m in ds.file[0].message_type}
    except Exception as e:  # noqa
        ctx.notes.append(f"protoc unavailable ({e!r}); json_name compared with the descriptor pool only")
        return {}


def finish(ctx):
    return lib.finish(
        ctx, "proof",
        "Coq specification of the proto3 JSON mapping (json_spec / json_accepts / protoc json_name) tied to google.protobuf.json_format by "
        "evaluation inside Coq (vm_compute) on generated messages; theorems relating betterproto's key casing and the to_dict/from_dict "
        "model of C04 to the specification, at the leaves and at the message level (C05_emit, C05_accept: every message of every matched "
        "schema), whose hypotheses and abstraction are evaluated on the generated schemas and objects (T4); for the classes the plugin "
        "generates the schema hypothesis js_matches is PROVED from the descriptor (C05_generated_js_matches / _emit / _accept), the "
        "descriptor-side reading being tied to google.protobuf's descriptor pool on protoc's own output and the witnesses replayed "
        "on the real plugin's output (T5); the property itself evaluated "
        "on the implementation against the reference in both directions on every generated message",
        ASSUMPTIONS, TRUSTED, RULE,
        extra_cov={"explanation": "theorems are unbounded (all names / all values of the spec); the ties sample schemas and values; "
                                  "the oracle against google.protobuf is what finds failing inputs"})


def replay(ctx, obj):
    print(json.dumps(obj, indent=1, default=repr)[:6000])
    return 0
